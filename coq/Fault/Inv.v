(* Invariants of the bookkeeping state and the specifications of the primitive steps (Fault/Model.v). *)
From DJC Require Import Lib.Base Fault.Model Fault.Lemmas.
Local Open Scope N_scope.

(* ---------- membership bits: where can a render id / provide id occur as an element ---------- *)
Inductive tab := TCctx | TRend | TCattrs | TAll | TRef (P : N).
Definition bit (t : tab) (x : N) (s : st) : bool :=
  match t with
  | TCctx => mem x (cctx s)
  | TRend => mem x (rend s)
  | TCattrs => mem x (cattrs s)
  | TAll => mem x (allrefs s)
  | TRef P => mem x (aget P (prefs s))
  end.
Definition regtab (t : tab) : bool := match t with TAll | TRef _ => true | _ => false end.
Ltac sb := cbn [bit regtab]; sst.

(* ---------- consistency of the provide tables ---------- *)
Record PI (s : st) : Prop := {
  pi_nodup : NoDup (map fst (prefs s));
  pi_keys : forall P, amem P (prefs s) = mem P (pcache s);
  pi_nonempty : forall P l, alookup P (prefs s) = Some l -> l <> [];
  pi_refs : forall P x, mem x (aget P (prefs s)) = true -> x = P \/ mem x (allrefs s) = true
}.

(* ---------- ids not yet allocated occur nowhere ---------- *)
Record fresh_id (x : N) (s : st) : Prop := {
  fr_bit : forall t, bit t x s = false;
  fr_pcache : mem x (pcache s) = false;
  fr_prefs : amem x (prefs s) = false;
  fr_cbs_key : amem x (cbs s) = false;
  fr_cbs : forall k, mem x (aget k (cbs s)) = false
}.
Definition below (s : st) : Prop := forall x, next s <= x -> fresh_id x s.

(* fields a step does not touch *)
Record same_rest (s s' : st) : Prop := {
  sr_next : next s' = next s; sr_fault : fault s' = fault s; sr_meta : meta s' = meta s;
  sr_rctx : rctx s' = rctx s; sr_cbs : cbs s' = cbs s; sr_cdicts : cdicts s' = cdicts s
}.
Record keys_shrink (s s' : st) : Prop := {
  ks_pcache : forall P, mem P (pcache s') = true -> mem P (pcache s) = true;
  ks_prefs : forall P, amem P (prefs s') = true -> amem P (prefs s) = true
}.

Lemma same_rest_refl s : same_rest s s.
Proof. constructor; reflexivity. Qed.
Lemma same_rest_trans a b c : same_rest a b -> same_rest b c -> same_rest a c.
Proof. intros [] []. constructor; congruence. Qed.
Lemma keys_shrink_refl s : keys_shrink s s.
Proof. constructor; auto. Qed.
Lemma keys_shrink_trans a b c : keys_shrink a b -> keys_shrink b c -> keys_shrink a c.
Proof. intros [] []. constructor; auto. Qed.

Lemma below_shrink s s' :
  below s -> next s' = next s -> cbs s' = cbs s -> keys_shrink s s' ->
  (forall t x, bit t x s' = true -> bit t x s = true) -> below s'.
Proof.
  intros Hb Hn Hc [K1 K2] Hs x Hx. rewrite Hn in Hx. destruct (Hb x Hx) as [F1 F2 F3 F4 F5].
  constructor.
  - intro t. destruct (bit t x s') eqn:E; [| reflexivity]. apply Hs in E. rewrite F1 in E. discriminate.
  - destruct (mem x (pcache s')) eqn:E; [| reflexivity]. apply K1 in E. congruence.
  - destruct (amem x (prefs s')) eqn:E; [| reflexivity]. apply K2 in E. congruence.
  - rewrite Hc. exact F4.
  - rewrite Hc. exact F5.
Qed.

(* ------------------------------------------------------------------------------------------------ *)
(* register_provide_reference                                                                        *)
(* ------------------------------------------------------------------------------------------------ *)
Lemma fold_addref_spec id vis : forall p,
  (forall P, In P vis -> amem P p = true) ->
  let p' := fold_left (fun acc pid => addref pid id acc) vis p in
  map fst p' = map fst p /\
  (forall Q, amem Q p' = amem Q p) /\
  (forall Q x, mem x (aget Q p') = (mem Q vis && N.eqb x id) || mem x (aget Q p)).
Proof.
  induction vis as [|P vis IH]; intros p Hp; cbn [fold_left].
  - splits; auto.
  - assert (HP : amem P p = true) by (apply Hp; left; reflexivity).
    destruct (IH (addref P id p)) as [K [A G]].
    { intros Q HQ. rewrite amem_addref. rewrite (Hp Q (or_intror HQ)). apply orb_true_r. }
    splits.
    + rewrite K, keys_addref, HP. reflexivity.
    + intro Q. rewrite A, amem_addref. destruct (N.eqb Q P) eqn:E; [| reflexivity].
      apply N.eqb_eq in E. subst. rewrite HP. reflexivity.
    + intros Q x. rewrite G, aget_addref, mem_cons.
      destruct (N.eqb Q P) eqn:E.
      * apply N.eqb_eq in E. subst Q. rewrite mem_sadd.
        destruct (mem P vis), (N.eqb x id), (mem x (aget P p)); reflexivity.
      * reflexivity.
Qed.

Lemma register_spec vis id s :
  PI s -> (forall P, In P vis -> amem P (prefs s) = true) ->
  exists s', register vis id s = (Val tt, s') /\ PI s' /\ same_rest s s' /\
    (forall P, mem P (pcache s') = mem P (pcache s)) /\ (forall P, amem P (prefs s') = amem P (prefs s)) /\
    (forall t x, bit t x s' =
       bit t x s || (N.eqb x id && negb (match pcache s with [] => true | _ => false end) &&
                     match t with TAll => true | TRef P => mem P vis | _ => false end)).
Proof.
  intros HPI Hvis. unfold register. destruct (pcache s) as [|q pc] eqn:Epc.
  - exists s. splits; auto using same_rest_refl.
    + intro P. rewrite Epc. reflexivity.
    + intros t x. destruct (N.eqb x id); cbn [negb andb]; rewrite orb_false_r; reflexivity.
  - eexists. split; [reflexivity|].
    destruct (fold_addref_spec id vis (prefs s) Hvis) as [K [A G]].
    split; [| split; [| split; [| split]]].
    + destruct HPI as [H1 H2 H3 H4]. constructor; sst.
      * rewrite K. exact H1.
      * intro P. rewrite A, H2. rewrite Epc. reflexivity.
      * intros P l Hl. intro Hnil. subst l.
        assert (Hm : amem P (prefs s) = true).
        { rewrite <- A. unfold amem. sst in Hl. rewrite Hl. reflexivity. }
        apply amem_alookup in Hm. destruct Hm as [v Hv].
        assert (Hg : forall x, mem x v = false).
        { intro x. specialize (G P x). unfold aget in G. sst in Hl. rewrite Hl, Hv in G. sst in G.
          symmetry in G. apply orb_false_iff in G. tauto. }
        apply mem_false_nil in Hg. subst v. exact (H3 P [] Hv eq_refl).
      * intros P x Hx. rewrite G in Hx. rewrite mem_sadd.
        apply orb_true_iff in Hx. destruct Hx as [Hx|Hx].
        -- apply andb_true_iff in Hx. destruct Hx as [_ Hx]. rewrite Hx. right. reflexivity.
        -- destruct (H4 P x Hx) as [?|?]; [left; assumption | right]. rewrite H. apply orb_true_r.
    + constructor; reflexivity.
    + intro P. sst. rewrite Epc. reflexivity.
    + intro P. sst. apply A.
    + intros t x. destruct t; sb.
      1-3: rewrite andb_false_r, orb_false_r; reflexivity.
      * rewrite mem_sadd. destruct (mem x (allrefs s)), (N.eqb x id); reflexivity.
      * rewrite G. destruct (mem x (aget P (prefs s))), (N.eqb x id), (mem P vis); reflexivity.
Qed.

(* ------------------------------------------------------------------------------------------------ *)
(* unregister_provide_reference                                                                      *)
(* ------------------------------------------------------------------------------------------------ *)
Record loop_inv (s : st) : Prop := {
  li_nodup : NoDup (map fst (prefs s));
  li_keys : forall P, amem P (prefs s) = mem P (pcache s);
  li_nonempty : forall P l, alookup P (prefs s) = Some l -> l <> []
}.

Lemma unreg_loop_spec rid : forall keys s,
  loop_inv s -> NoDup keys -> (forall k, In k keys -> amem k (prefs s) = true) ->
  exists s', unreg_loop rid keys s = (Val tt, s') /\ loop_inv s' /\ same_rest s s' /\ keys_shrink s s' /\
    cctx s' = cctx s /\ rend s' = rend s /\ cattrs s' = cattrs s /\ allrefs s' = allrefs s /\
    (forall P, ~ In P keys -> alookup P (prefs s') = alookup P (prefs s)) /\
    (forall P x, mem x (aget P (prefs s')) =
                 if mem P keys then negb (N.eqb x rid) && mem x (aget P (prefs s)) else mem x (aget P (prefs s))).
Proof.
  induction keys as [|pid ks IH]; intros s Hinv Hnd Hpres.
  - exists s. sst. splits; auto using same_rest_refl, keys_shrink_refl.
  - inversion Hnd as [|? ? Hnotin Hnd']; subst.
    assert (Hp : amem pid (prefs s) = true) by (apply Hpres; left; reflexivity).
    apply amem_alookup in Hp. destruct Hp as [rf Hrf].
    cbn [unreg_loop]. rewrite Hrf.
    destruct (mem rid rf) eqn:Emem; cbn [negb].
    + (* rid is in this set *)
      destruct (srem rid rf) as [|y rf'] eqn:Esrem.
      * (* the set becomes empty: both entries are popped *)
        assert (Hpc : mem pid (pcache (up_prefs (aupd pid (fun _ => [])) s)) = true).
        { sst. rewrite <- (li_keys s Hinv). unfold amem. rewrite Hrf. reflexivity. }
        rewrite Hpc.
        destruct (IH (up_prefs (aremove pid) (up_pcache (srem pid) (up_prefs (aupd pid (fun _ : list N => [])) s)))) as [s' [Hrun [Hinv' [Hsr [Hks [E1 [E2 [E3 [E4 [Hoth Hmem]]]]]]]]]].
        { destruct Hinv as [I1 I2 I3]. constructor; sst.
          - apply NoDup_keys_aremove. rewrite keys_aupd. exact I1.
          - intro P. rewrite amem_aremove, amem_aupd, mem_srem, I2. reflexivity.
          - intros P l Hl. rewrite alookup_aremove in Hl. destruct (N.eqb P pid) eqn:E; [discriminate|].
            rewrite alookup_aupd, E in Hl. eauto. }
        { exact Hnd'. }
        { intros k Hk. sst. rewrite amem_aremove, amem_aupd.
          assert (k <> pid) by (intro; subst; contradiction).
          apply N.eqb_neq in H. rewrite H. sst. apply Hpres. right. exact Hk. }
        exists s'. split; [exact Hrun|]. split; [exact Hinv'|].
        split; [eapply same_rest_trans; [| exact Hsr]; constructor; reflexivity|].
        split.
        { eapply keys_shrink_trans; [| exact Hks]. constructor; sst.
          - intros P HP. rewrite mem_srem in HP. apply andb_true_iff in HP. tauto.
          - intros P HP. rewrite amem_aremove, amem_aupd in HP. apply andb_true_iff in HP. tauto. }
        split; [exact E1|]. split; [exact E2|]. split; [exact E3|]. split; [exact E4|].
        split.
        { intros P HP. rewrite Hoth by (intro; apply HP; right; assumption).
          sst. rewrite alookup_aremove, alookup_aupd.
          assert (P <> pid) by (intro; subst; apply HP; left; reflexivity).
          apply N.eqb_neq in H. rewrite H. reflexivity. }
        { intros P x. rewrite Hmem. cbn [mem existsb].
          destruct (N.eqb P pid) eqn:EP.
          - apply N.eqb_eq in EP. subst P.
            assert (Hnk : mem pid ks = false).
            { destruct (mem pid ks) eqn:E; [| reflexivity]. apply mem_In in E. contradiction. }
            rewrite Hnk. sst. sst. rewrite aget_aremove, N.eqb_refl. sst.
            unfold aget. rewrite Hrf. symmetry. apply srem_nil_mem. exact Esrem.
          - cbn [orb]. sst. rewrite aget_aremove, EP, aget_aupd, EP. reflexivity. }
      * (* the set stays non-empty *)
        destruct (IH (up_prefs (aupd pid (fun _ : list N => y :: rf')) s)) as [s' [Hrun [Hinv' [Hsr [Hks [E1 [E2 [E3 [E4 [Hoth Hmem]]]]]]]]]].
        { destruct Hinv as [I1 I2 I3]. constructor; sst.
          - rewrite keys_aupd. exact I1.
          - intro P. rewrite amem_aupd. apply I2.
          - intros P l Hl. rewrite alookup_aupd in Hl. destruct (N.eqb P pid) eqn:E; [| eauto].
            apply N.eqb_eq in E. subst P. rewrite Hrf in Hl. sst in Hl. inversion Hl. discriminate. }
        { exact Hnd'. }
        { intros k Hk. sst. rewrite amem_aupd. apply Hpres. right. exact Hk. }
        exists s'. split; [exact Hrun|]. split; [exact Hinv'|].
        split; [eapply same_rest_trans; [| exact Hsr]; constructor; reflexivity|].
        split.
        { eapply keys_shrink_trans; [| exact Hks]. constructor; sst; auto.
          intros P HP. rewrite amem_aupd in HP. exact HP. }
        split; [exact E1|]. split; [exact E2|]. split; [exact E3|]. split; [exact E4|].
        split.
        { intros P HP. rewrite Hoth by (intro; apply HP; right; assumption).
          sst. rewrite alookup_aupd.
          assert (P <> pid) by (intro; subst; apply HP; left; reflexivity).
          apply N.eqb_neq in H. rewrite H. reflexivity. }
        { intros P x. rewrite Hmem. cbn [mem existsb].
          destruct (N.eqb P pid) eqn:EP.
          - apply N.eqb_eq in EP. subst P.
            assert (Hnk : mem pid ks = false).
            { destruct (mem pid ks) eqn:E; [| reflexivity]. apply mem_In in E. contradiction. }
            rewrite Hnk. sst. sst. rewrite aget_aupd, N.eqb_refl.
            unfold amem, aget. rewrite Hrf. rewrite <- Esrem. apply mem_srem.
          - cbn [orb]. sst. rewrite aget_aupd, EP. reflexivity. }
    + (* rid is not in this set *)
      destruct (IH s Hinv Hnd') as [s' [Hrun [Hinv' [Hsr [Hks [E1 [E2 [E3 [E4 [Hoth Hmem]]]]]]]]]].
      { intros k Hk. apply Hpres. right. exact Hk. }
      exists s'. repeat (split; [assumption|]). split.
      { intros P HP. apply Hoth. intro; apply HP; right; assumption. }
      { intros P x. rewrite Hmem. cbn [mem existsb].
        destruct (N.eqb P pid) eqn:EP; [| reflexivity].
        apply N.eqb_eq in EP. subst P. cbn [orb].
        destruct (mem pid ks); [reflexivity|].
        unfold aget. rewrite Hrf. destruct (N.eqb x rid) eqn:Ex; [| reflexivity].
        apply N.eqb_eq in Ex. subst x. rewrite Emem. reflexivity. }
Qed.

Lemma unregister_spec rid s :
  PI s ->
  exists s', unregister rid s = (Val tt, s') /\ PI s' /\ same_rest s s' /\ keys_shrink s s' /\
    (forall t x, bit t x s' = bit t x s && negb (N.eqb x rid && mem rid (allrefs s) && regtab t)).
Proof.
  intros HPI. unfold unregister. destruct (mem rid (allrefs s)) eqn:Eall; cbn [negb].
  - destruct (unreg_loop_spec rid (map fst (prefs (up_allrefs (srem rid) s))) (up_allrefs (srem rid) s))
      as [s' [Hrun [Hinv' [Hsr [Hks [E1 [E2 [E3 [E4 [Hoth Hmem]]]]]]]]]].
    { destruct HPI. constructor; assumption. }
    { apply HPI. }
    { intros k Hk. apply In_keys_alookup. exact Hk. }
    exists s'. split; [exact Hrun|].
    assert (Hmem' : forall P x, mem x (aget P (prefs s')) = negb (N.eqb x rid) && mem x (aget P (prefs s))).
    { intros P x. rewrite Hmem. sst.
      destruct (mem P (map fst (prefs s))) eqn:EP; [reflexivity|].
      assert (Hn : amem P (prefs s) = false).
      { destruct (amem P (prefs s)) eqn:E; [| reflexivity]. apply In_keys_alookup in E. apply mem_In in E. congruence. }
      apply amem_false_alookup in Hn. unfold aget. rewrite Hn. sst. rewrite andb_false_r. reflexivity. }
    split.
    { destruct Hinv' as [I1 I2 I3]. constructor; auto.
      intros P x Hx. rewrite Hmem' in Hx. apply andb_true_iff in Hx. destruct Hx as [Hne Hx].
      destruct (pi_refs s HPI P x Hx) as [?|Ha]; [left; assumption | right].
      rewrite E4. sst. rewrite mem_srem, Hne, Ha. reflexivity. }
    split; [eapply same_rest_trans; [| exact Hsr]; constructor; reflexivity|].
    split; [destruct Hks as [K1 K2]; constructor; [exact K1 | exact K2]|].
    sst in E1. sst in E2. sst in E3. sst in E4.
    intros t x. destruct t; sb; rewrite ?andb_false_r, ?andb_true_r; sst; rewrite ?andb_true_r.
    + rewrite E1. reflexivity.
    + rewrite E2. reflexivity.
    + rewrite E3. reflexivity.
    + rewrite E4. sst. rewrite mem_srem. apply andb_comm.
    + rewrite Hmem'. apply andb_comm.
  - exists s. splits; auto using same_rest_refl, keys_shrink_refl.
    intros t x. rewrite andb_false_r. sst. rewrite andb_true_r. reflexivity.
Qed.

Lemma unregister_all_spec : forall ids s,
  PI s ->
  exists s', unregister_all ids s = (Val tt, s') /\ PI s' /\ same_rest s s' /\ keys_shrink s s' /\
    (forall t x, bit t x s' = bit t x s && negb (mem x ids && mem x (allrefs s) && regtab t)).
Proof.
  induction ids as [|y ids IH]; intros s HPI.
  - exists s. cbn [unregister_all ret]. splits; auto using same_rest_refl, keys_shrink_refl.
    intros t x. cbn [mem existsb]. sst. rewrite andb_true_r. reflexivity.
  - cbn [unregister_all]. unfold bind.
    destruct (unregister_spec y s HPI) as [s1 [H1 [P1 [R1 [K1 B1]]]]]. rewrite H1.
    destruct (IH s1 P1) as [s2 [H2 [P2 [R2 [K2 B2]]]]]. rewrite H2.
    exists s2. splits; eauto using same_rest_trans, keys_shrink_trans.
    intros t x. rewrite B2. change (mem x (allrefs s1)) with (bit TAll x s1). rewrite !B1.
    cbn [bit regtab]. rewrite mem_cons.
    destruct (N.eqb x y) eqn:E.
    + apply N.eqb_eq in E. subst y.
      destruct (bit t x s), (mem x (allrefs s)), (regtab t), (mem x ids); reflexivity.
    + sst. destruct (bit t x s), (mem x (allrefs s)), (regtab t), (mem x ids); reflexivity.
Qed.

Lemma cache_cleanup_spec pid s :
  PI s ->
  exists s', cache_cleanup pid s = (Val tt, s') /\ PI s' /\ same_rest s s' /\ keys_shrink s s' /\
    (forall t x, bit t x s' = bit t x s &&
                 negb (match t with TRef P => N.eqb P pid && N.eqb x pid | _ => false end)).
Proof.
  intros HPI. unfold cache_cleanup.
  destruct (amem pid (prefs s)) eqn:Ea.
  - apply amem_alookup in Ea. destruct Ea as [rf Hrf]. sst.
    rewrite alookup_aupd, N.eqb_refl, Hrf. sst.
    destruct (srem pid rf) as [|y rf'] eqn:Es.
    + (* the set becomes empty *)
      assert (Hpc : mem pid (pcache s) = true).
      { rewrite <- (pi_keys s HPI). unfold amem. rewrite Hrf. reflexivity. }
      sst. rewrite Hpc.
      eexists. split; [reflexivity|]. split; [| split; [| split]].
      * destruct HPI as [I1 I2 I3 I4]. constructor; sst.
        -- apply NoDup_keys_aremove. rewrite keys_aupd. exact I1.
        -- intro P. rewrite amem_aremove, amem_aupd, mem_srem, I2. reflexivity.
        -- intros P l Hl. rewrite alookup_aremove in Hl. destruct (N.eqb P pid) eqn:E; [discriminate|].
           rewrite alookup_aupd, E in Hl. eauto.
        -- intros P x Hx. rewrite aget_aremove in Hx. destruct (N.eqb P pid) eqn:E; [discriminate|].
           rewrite aget_aupd, E in Hx. eauto.
      * constructor; reflexivity.
      * constructor; sst.
        -- intros P HP. rewrite mem_srem in HP. apply andb_true_iff in HP. tauto.
        -- intros P HP. rewrite amem_aremove, amem_aupd in HP. apply andb_true_iff in HP. tauto.
      * intros t x. destruct t; sb; rewrite ?andb_true_r; try reflexivity.
        rewrite aget_aremove, aget_aupd. destruct (N.eqb P pid) eqn:E; sst.
        -- apply N.eqb_eq in E. subst P. unfold aget. rewrite Hrf.
           pose proof (srem_nil_mem x pid rf Es) as Hn.
           destruct (N.eqb x pid), (mem x rf); cbn in *; congruence.
        -- rewrite andb_true_r. reflexivity.
    + eexists. split; [reflexivity|]. split; [| split; [| split]].
      * destruct HPI as [I1 I2 I3 I4]. constructor; sst.
        -- rewrite keys_aupd. exact I1.
        -- intro P. rewrite amem_aupd. apply I2.
        -- intros P l Hl. rewrite alookup_aupd in Hl. destruct (N.eqb P pid) eqn:E; [| eauto].
           apply N.eqb_eq in E. subst P. rewrite Hrf in Hl. sst in Hl. inversion Hl. rewrite Es. discriminate.
        -- intros P x Hx. rewrite aget_aupd in Hx. destruct (N.eqb P pid) eqn:E; [| eauto].
           apply N.eqb_eq in E. subst P. unfold amem, aget in Hx. rewrite Hrf in Hx.
           rewrite mem_srem in Hx. apply andb_true_iff in Hx. destruct Hx as [_ Hx].
           apply (I4 pid x). unfold aget. rewrite Hrf. exact Hx.
      * constructor; reflexivity.
      * constructor; sst; auto. intros P HP. rewrite amem_aupd in HP. exact HP.
      * intros t x. destruct t; sb; rewrite ?andb_true_r; try reflexivity.
        rewrite aget_aupd. destruct (N.eqb P pid) eqn:E; sst.
        -- apply N.eqb_eq in E. subst P. unfold amem, aget. rewrite Hrf. rewrite mem_srem. apply andb_comm.
        -- rewrite andb_true_r. reflexivity.
  - pose proof Ea as Ea'. apply amem_false_alookup in Ea. rewrite Ea.
    assert (Hpc : mem pid (pcache s) = false) by (rewrite <- (pi_keys s HPI); exact Ea').
    rewrite Hpc. exists s. splits; auto using same_rest_refl, keys_shrink_refl.
    intros t x. destruct t; sb; rewrite ?andb_true_r; try reflexivity.
    destruct (N.eqb P pid) eqn:E; sst; [| rewrite andb_true_r; reflexivity].
    apply N.eqb_eq in E. subst P. unfold aget. rewrite Ea. cbn. reflexivity.
Qed.

Lemma purge_ids_spec : forall ids s,
  PI s ->
  exists s', purge_ids ids s = (Val tt, s') /\ PI s' /\ same_rest s s' /\ keys_shrink s s' /\
    (forall t x, bit t x s' = bit t x s && negb (mem x ids && (negb (regtab t) || mem x (allrefs s)))).
Proof.
  induction ids as [|y ids IH]; intros s HPI.
  - exists s. cbn [purge_ids ret]. splits; auto using same_rest_refl, keys_shrink_refl.
    intros t x. cbn [mem existsb]. sst. rewrite andb_true_r. reflexivity.
  - cbn [purge_ids]. unfold bind, modify.
    set (s0 := up_cattrs (srem y) (up_rend (srem y) (up_cctx (srem y) s))).
    assert (P0 : PI s0) by (destruct HPI; constructor; assumption).
    destruct (unregister_spec y s0 P0) as [s1 [H1 [P1 [R1 [K1 B1]]]]]. rewrite H1.
    destruct (IH s1 P1) as [s2 [H2 [P2 [R2 [K2 B2]]]]]. rewrite H2.
    exists s2. split; [reflexivity|]. split; [exact P2|].
    split; [eapply same_rest_trans; [| exact R2]; eapply same_rest_trans; [| exact R1]; constructor; reflexivity|].
    split; [eapply keys_shrink_trans; [| exact K2]; eapply keys_shrink_trans; [| exact K1]; constructor; auto|].
    intros t x. rewrite B2. change (mem x (allrefs s1)) with (bit TAll x s1). rewrite !B1. rewrite mem_cons.
    assert (Hall : allrefs s0 = allrefs s) by reflexivity.
    cbn [bit regtab]. rewrite Hall.
    destruct (N.eqb x y) eqn:E.
    + apply N.eqb_eq in E. subst y.
      destruct t; unfold s0; sb; rewrite ?mem_srem, ?N.eqb_refl; sst;
        destruct (mem x (allrefs s)), (mem x ids); sst; rewrite ?andb_false_r, ?andb_true_r; try reflexivity;
        try (destruct (mem x (aget P (prefs s))); reflexivity).
    + destruct t; unfold s0; sb; rewrite ?mem_srem, ?E; sst; rewrite ?andb_true_r; reflexivity.
Qed.
