(* Specifications of the building blocks of the repaired code (cfg_fixed): callback points, the stack
   guards, one component's preparation, {% provide %}, one component in the post-render queue, a root. *)
From DJC Require Import Lib.Base Fault.Model Fault.Lemmas Fault.Inv Fault.Steps.
Local Open Scope N_scope.

Notation C := cfg_fixed.
Notation NoR := (fun _ : N => False).

(* the control outcome prescribed by the S-model *)
Definition ctl {A} (sp : sres) (r : res A) (s' : st) : Prop :=
  match sp with
  | SOk k => (exists a, r = Val a) /\ fault s' = k
  | SExn e => r = Exn e /\ fault s' = None
  end.

Lemma ctl_map_exn {A} sp (r : res A) s' h :
  ctl sp r s' -> ctl (sp_map h sp) (match r with Val a => Val a | Exn e => Exn (h e) end) s'.
Proof.
  destruct sp as [k|e]; cbn [ctl sp_map].
  - intros [[a Ha] Hf]. subst r. split; eauto.
  - intros [Hr Hf]. subst r. split; auto.
Qed.

Section Fixed.
Variable um : list mline.

(* ---------- callback points ---------- *)
Lemma point_spec s :
  exists r s', point um s = (r, s') /\ tabs_eq s s' /\ stk s s' /\ ctl (sp_point um (fault s)) r s'.
Proof.
  unfold point, sp_point. destruct (fault s) as [[|k]|]; eexists; eexists; (split; [reflexivity|]);
    (split; [constructor; reflexivity|]); (split; [split; reflexivity|]); cbn [ctl fault set_fault]; eauto.
Qed.

Lemma points_spec n : forall s,
  exists r s', points um n s = (r, s') /\ tabs_eq s s' /\ stk s s' /\ ctl (sp_points um n (fault s)) r s'.
Proof.
  induction n as [|n IH]; intro s; cbn [points sp_points].
  - exists (Val tt), s. cbn [ctl]. splits; eauto using tabs_eq_refl, stk_refl.
  - unfold bind. destruct (point_spec s) as [r [s1 [Hp [E1 [K1 C1]]]]]. rewrite Hp.
    destruct (sp_point um (fault s)) as [k|e]; cbn [ctl] in C1.
    + destruct C1 as [[a Ha] Hf]. subst r.
      destruct (IH s1) as [r2 [s2 [Hp2 [E2 [K2 C2]]]]]. rewrite Hp2. rewrite Hf in C2.
      exists r2, s2. splits; eauto using tabs_eq_trans, stk_trans.
    + destruct C1 as [Hr Hf]. subst r. exists (Exn e), s1. cbn [ctl]. splits; auto.
Qed.

(* ---------- stack guards (repaired: try/finally) ---------- *)
Lemma tabs_eq_up_meta f s : tabs_eq s (up_meta f s).
Proof. constructor; reflexivity. Qed.
Lemma tabs_eq_up_rctx f s : tabs_eq s (up_rctx f s).
Proof. constructor; reflexivity. Qed.

(* with_meta id m: whatever m does to the tables, the stack is as before *)
Lemma with_meta_run {A} id (m : M A) s r s1 :
  m (up_meta (cons id) s) = (r, s1) -> stk (up_meta (cons id) s) s1 ->
  with_meta C id m s = (r, up_meta (rem1 id) s1) /\ stk s (up_meta (rem1 id) s1).
Proof.
  intros Hm [K1 K2]. unfold with_meta. cbn [meta_finally C]. unfold bind, modify, try_finally.
  rewrite Hm. split.
  - destruct r; reflexivity.
  - split; sst; [| exact K2]. rewrite K1. sst. apply rem1_cons.
Qed.
Lemma with_rc_run {A} o tok (m : M A) s r s1 :
  m (up_rctx (cons (o, tok)) s) = (r, s1) -> stk (up_rctx (cons (o, tok)) s) s1 ->
  with_rc C o tok m s = (r, up_rctx (rem1_tok tok) s1) /\ stk s (up_rctx (rem1_tok tok) s1).
Proof.
  intros Hm [K1 K2]. unfold with_rc. cbn [rc_finally C]. unfold bind, modify, try_finally.
  rewrite Hm. split.
  - destruct r; reflexivity.
  - split; sst; [exact K1|]. rewrite K2. sst. apply rem1_tok_cons.
Qed.
End Fixed.
