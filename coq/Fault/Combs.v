(* Specifications of the building blocks of the repaired code (cfg_fixed): callback points, the stack
   guards, one component's preparation, {% provide %}, one component in the post-render queue, a root. *)
From DJC Require Import Lib.Base Fault.Model Fault.Lemmas Fault.Inv Fault.Steps.
Local Open Scope N_scope.

Notation C := cfg_fixed.
Notation NoR := (fun _ : N => False).

(* the control outcome prescribed by the S-model *)
Definition ctl {A} (sp : sres) (r : res A) (s' : st) : Prop :=
  match sp with
  | SOk k => (exists a, r = Val a) /\ fault s' = k
  | SExn e => r = Exn e /\ fault s' = None
  end.

Lemma ctl_map_exn {A} sp (r : res A) s' h :
  ctl sp r s' -> ctl (sp_map h sp) (match r with Val a => Val a | Exn e => Exn (h e) end) s'.
Proof.
  destruct sp as [k|e]; cbn [ctl sp_map].
  - intros [[a Ha] Hf]. subst r. split; eauto.
  - intros [Hr Hf]. subst r. split; auto.
Qed.

Section Fixed.
Variable um : list mline.

(* ---------- callback points ---------- *)
Lemma point_spec s :
  exists r s', point um s = (r, s') /\ tabs_eq s s' /\ stk s s' /\ ctl (sp_point um (fault s)) r s'.
Proof.
  unfold point, sp_point. destruct (fault s) as [[|k]|] eqn:Ef; eexists; eexists; (split; [reflexivity|]);
    (split; [constructor; reflexivity|]); (split; [repeat split; reflexivity|]); cbn [ctl fault set_fault]; eauto.
Qed.

Lemma points_spec n : forall s,
  exists r s', points um n s = (r, s') /\ tabs_eq s s' /\ stk s s' /\ ctl (sp_points um n (fault s)) r s'.
Proof.
  induction n as [|n IH]; intro s; cbn [points sp_points].
  - exists (Val tt), s. cbn [ctl]. splits; eauto using tabs_eq_refl, stk_refl.
  - unfold bind. destruct (point_spec s) as [r [s1 [Hp [E1 [K1 C1]]]]]. rewrite Hp.
    destruct (sp_point um (fault s)) as [k|e]; cbn [ctl] in C1.
    + destruct C1 as [[a Ha] Hf]. subst r.
      destruct (IH s1) as [r2 [s2 [Hp2 [E2 [K2 C2]]]]]. rewrite Hp2. rewrite Hf in C2.
      exists r2, s2. splits; eauto using tabs_eq_trans, stk_trans.
    + destruct C1 as [Hr Hf]. subst r. exists (Exn e), s1. cbn [ctl]. splits; auto.
Qed.

(* ---------- stack guards (repaired: try/finally) ---------- *)
Lemma tabs_eq_up_meta f s : tabs_eq s (up_meta f s).
Proof. constructor; reflexivity. Qed.
Lemma tabs_eq_up_rctx f s : tabs_eq s (up_rctx f s).
Proof. constructor; reflexivity. Qed.

(* with_meta id m: whatever m does to the tables, the stack is as before *)
Lemma with_meta_run {A} id (m : M A) s r s1 :
  m (up_meta (cons id) s) = (r, s1) -> stk (up_meta (cons id) s) s1 ->
  with_meta C id m s = (r, up_meta (rem1 id) s1) /\ stk s (up_meta (rem1 id) s1).
Proof.
  intros Hm [K1 [K2 K3]]. unfold with_meta. cbn [meta_finally C]. unfold bind, modify, try_finally.
  rewrite Hm. split.
  - destruct r; reflexivity.
  - split; [| split]; sst; [| exact K2 | exact K3]. rewrite K1. sst. apply rem1_cons.
Qed.
Lemma with_rc_run {A} o tok (m : M A) s r s1 :
  m (up_rctx (cons (o, tok)) s) = (r, s1) -> stk (up_rctx (cons (o, tok)) s) s1 ->
  with_rc C o tok m s = (r, up_rctx (rem1_tok tok) s1) /\ stk s (up_rctx (rem1_tok tok) s1).
Proof.
  intros Hm [K1 [K2 K3]]. unfold with_rc. cbn [rc_finally C]. unfold bind, modify, try_finally.
  rewrite Hm. split.
  - destruct r; reflexivity.
  - split; [| split]; sst; [exact K1 | | exact K3]. rewrite K2. sst. apply rem1_tok_cons.
Qed.
Lemma tabs_eq_up_cdicts f s : tabs_eq s (up_cdicts f s).
Proof. constructor; reflexivity. Qed.
Lemma with_cd_run {A} o (m : M A) s r s1 :
  m (up_cdicts (cons (o, next s)) s) = (r, s1) -> stk (up_cdicts (cons (o, next s)) s) s1 ->
  with_cd o m s = (r, up_cdicts (rem1_tok (next s)) s1) /\ stk s (up_cdicts (rem1_tok (next s)) s1).
Proof.
  intros Hm [K1 [K2 K3]]. unfold with_cd. unfold bind, modify, try_finally.
  rewrite Hm. split.
  - destruct r; reflexivity.
  - split; [| split]; sst; [exact K1 | exact K2 |]. rewrite K3. sst. apply rem1_tok_cons.
Qed.

(* ---------- _render_impl up to the registration of the callback ---------- *)
Definition prep_bits (vis : list N) (id : N) (s : st) (t : tab) (x : N) : bool :=
  bit t x s || (N.eqb x id &&
     match t with
     | TCctx => true
     | TAll => negb (match pcache s with [] => true | _ => false end)
     | TRef P => negb (match pcache s with [] => true | _ => false end) && mem P vis
     | _ => false
     end).

Lemma prep_impl_spec owner parent vis np s :
  PI s -> below s ->
  (forall p, parent = Some p -> bit TCctx p s = true) ->
  (forall P, In P vis -> amem P (prefs s) = true) ->
  exists r s', prep_impl C um owner parent vis np s = (r, s') /\ stk s s' /\
    match sp_points um np (fault s) with
    | SExn e => r = Exn e /\ fault s' = None /\ tabs_eq (set_next (N.succ (next s)) s) s'
    | SOk k => r = Val (next s) /\ fault s' = k /\ next s' = N.succ (next s) /\ PI s' /\ cbs s' = cbs s /\
               (forall P, mem P (pcache s') = mem P (pcache s)) /\ (forall P, amem P (prefs s') = amem P (prefs s)) /\
               (forall t x, bit t x s' = prep_bits vis (next s) s t x)
    end.
Proof.
  intros HPI HB Hpar Hvis.
  unfold prep_impl. cbn [late_register C].
  set (tok := next s).
  (* the guarded part *)
  set (inner := (id <- fresh;; check_parent parent;; ret tt;; with_meta C tok (points um np);; ret tok) : M N).
  assert (Hinner : exists r1 s1, (id <- fresh;; check_parent parent;; ret tt;; with_meta C id (points um np);; ret id)
                     (up_rctx (cons (owner, tok)) s) = (r1, s1) /\ stk (up_rctx (cons (owner, tok)) s) s1 /\
                     tabs_eq (set_next (N.succ (next s)) s) s1 /\
                     match sp_points um np (fault s) with
                     | SExn e => r1 = Exn e /\ fault s1 = None
                     | SOk k => r1 = Val tok /\ fault s1 = k
                     end).
  { unfold bind at 1. unfold fresh. sst.
    unfold bind at 1. unfold check_parent.
    assert (Hcp : match parent with Some p => mem p (cctx s) = true | None => True end).
    { destruct parent as [p|]; [apply (Hpar p eq_refl) | exact I]. }
    set (sa := set_next (N.succ (next s)) (up_rctx (cons (owner, tok)) s)).
    assert (Hchk : (match parent with
                    | Some p => if mem p (cctx sa) then (Val tt, sa) else (Exn (EInternal KParent), sa)
                    | None => (Val tt, sa) end) = (Val tt, sa)).
    { destruct parent as [p|]; [| reflexivity]. unfold sa. sst. rewrite Hcp. reflexivity. }
    fold tok. fold sa. rewrite Hchk.
    unfold bind at 1. unfold ret at 1.
    destruct (points_spec np (up_meta (cons tok) sa)) as [rp [sp [Hp [Ep [Kp Cp]]]]].
    destruct (with_meta_run tok (points um np) sa rp sp Hp Kp) as [Hwm Kwm].
    unfold bind at 1. rewrite Hwm.
    assert (Hf : fault (up_meta (cons tok) sa) = fault s) by reflexivity. rewrite Hf in Cp.
    destruct (sp_points um np (fault s)) as [k|e]; cbn [ctl] in Cp.
    - destruct Cp as [[[] Hr] Hfs]. subst rp. eexists. eexists. split; [reflexivity|].
      split; [| split; [| split; [reflexivity | exact Hfs]]].
      + eapply stk_trans; [| exact Kwm]. repeat split; reflexivity.
      + eapply tabs_eq_trans; [| eapply tabs_eq_trans; [exact Ep | apply tabs_eq_up_meta]].
        constructor; reflexivity.
    - destruct Cp as [Hr Hfs]. subst rp. eexists. eexists. split; [reflexivity|].
      split; [| split; [| split; [reflexivity | exact Hfs]]].
      + eapply stk_trans; [| exact Kwm]. repeat split; reflexivity.
      + eapply tabs_eq_trans; [| eapply tabs_eq_trans; [exact Ep | apply tabs_eq_up_meta]].
        constructor; reflexivity. }
  destruct Hinner as [r1 [s1 [Hin [Kin [Ein Cin]]]]].
  destruct (with_rc_run owner tok _ s r1 s1 Hin Kin) as [Hrc Krc].
  unfold bind at 1. fold tok. rewrite Hrc.
  set (s2 := up_rctx (rem1_tok tok) s1) in *.
  assert (E2 : tabs_eq (set_next (N.succ (next s)) s) s2).
  { eapply tabs_eq_trans; [exact Ein | apply tabs_eq_up_rctx]. }
  destruct (sp_points um np (fault s)) as [k|e].
  - destruct Cin as [Hr Hfs]. subst r1.
    (* registration *)
    assert (P2 : PI s2).
    { eapply tabs_eq_PI; [exact E2|]. destruct HPI; constructor; assumption. }
    destruct (register_spec vis tok s2 P2) as [s3 [Hreg [P3 [R3 [Kc3 [Kp3 B3]]]]]].
    { intros P HP. rewrite (te_prefs _ _ E2). sst. auto. }
    unfold bind at 1. unfold bind at 1. rewrite Hreg. unfold modify, ret.
    eexists. eexists. split; [reflexivity|]. split.
    { eapply stk_trans; [exact Krc|]. eapply stk_trans; [apply (stk_same_rest _ _ R3)|]. repeat split; reflexivity. }
    split; [reflexivity|]. split; [sst; rewrite (sr_fault _ _ R3); exact Hfs|].
    split; [sst; rewrite (sr_next _ _ R3), (te_next _ _ E2); reflexivity|].
    split; [destruct P3; constructor; assumption|].
    split; [sst; rewrite (sr_cbs _ _ R3), (te_cbs _ _ E2); reflexivity|].
    split; [intro P; sst; rewrite Kc3, (te_pcache _ _ E2); reflexivity|].
    split; [intro P; sst; rewrite Kp3, (te_prefs _ _ E2); reflexivity|].
    intros t x. unfold prep_bits. fold tok.
    pose proof (tabs_eq_bit _ _ E2) as B2.
    assert (Hpc : pcache s2 = pcache s) by (rewrite (te_pcache _ _ E2); reflexivity).
    destruct t; sb.
    + rewrite mem_sadd. change (mem x (cctx s3)) with (bit TCctx x s3). rewrite B3, B2. sb.
      rewrite andb_false_r, orb_false_r, andb_true_r. apply orb_comm.
    + change (mem x (rend s3)) with (bit TRend x s3). rewrite B3, B2. sb. rewrite !andb_false_r. reflexivity.
    + change (mem x (cattrs s3)) with (bit TCattrs x s3). rewrite B3, B2. sb. rewrite !andb_false_r. reflexivity.
    + change (mem x (allrefs s3)) with (bit TAll x s3). rewrite B3, B2, Hpc. sb. rewrite andb_true_r. reflexivity.
    + change (mem x (aget P (prefs s3))) with (bit (TRef P) x s3). rewrite B3, B2, Hpc. sb.
      rewrite andb_assoc. reflexivity.
  - destruct Cin as [Hr Hfs]. subst r1. eexists. eexists. split; [reflexivity|].
    split; [exact Krc|]. split; [reflexivity|]. split; [exact Hfs | exact E2].
Qed.

Lemma step_next_bump ro R s s' :
  PI s -> below s -> tabs_eq (set_next (N.succ (next s)) s) s' -> step ro R s s'.
Proof.
  intros HPI HB E.
  assert (E0 : tabs_eq s (set_next (next s) s)) by (constructor; reflexivity).
  pose proof (tabs_eq_bit _ _ E) as Bs. sst in Bs.
  assert (Hn : next s' = N.succ (next s)) by (rewrite (te_next _ _ E); reflexivity).
  assert (Hc : cbs s' = cbs s) by (rewrite (te_cbs _ _ E); reflexivity).
  assert (Bs' : forall t x, bit t x s' = bit t x s).
  { intros t x. rewrite Bs. destruct t; reflexivity. }
  constructor.
  - eapply tabs_eq_PI; [exact E|]. destruct HPI; constructor; assumption.
  - intros x Hx. rewrite Hn in Hx. assert (Hx' : next s <= x) by lia.
    destruct (HB x Hx') as [F1 F2 F3 F4 F5]. constructor.
    + intro t. rewrite Bs'. apply F1.
    + rewrite (te_pcache _ _ E). exact F2.
    + rewrite (te_prefs _ _ E). exact F3.
    + rewrite Hc. exact F4.
    + intro k. rewrite Hc. apply F5.
  - rewrite Hn. lia.
  - intros x Hx HR t. apply Bs'.
  - intros x Hx t. rewrite Bs'. auto.
  - intros x Hx t Ht. rewrite Bs' in Ht. rewrite (fr_bit x s (HB x Hx) t) in Ht. discriminate.
  - intros x Hx. rewrite Bs'. apply (fr_bit x s (HB x Hx)).
  - intros k Hk. rewrite Hc. reflexivity.
  - intros r x Hr. rewrite Hc. auto.
  - intros r x Hr. rewrite Hc. auto.
Qed.

Lemma alive_lt s P : below s -> amem P (prefs s) = true -> P < next s.
Proof.
  intros HB H. destruct (N.lt_ge_cases P (next s)) as [Hlt|Hge]; [exact Hlt|].
  rewrite (fr_prefs P s (HB P Hge)) in H. discriminate.
Qed.

(* ---------- Component._render of a nested component: prepare it and leave a placeholder ---------- *)
Lemma child_prep_spec e rootel up vis name np s :
  PI s -> below s -> e_anc e <> [] -> ANC (e_anc e) s -> e_root e < next s ->
  (forall P, In P vis -> In P (e_avail e)) -> AV (e_avail e) s ->
  exists res s', child_prep C um e rootel up vis name np s = (res, s') /\
    step (Some (e_root e)) NoR s s' /\ stk s s' /\
    ctl (sp_map (annotate C [LName name]) (sp_points um np (fault s))) res s' /\
    forall infos, res = Val infos ->
      exists inf, infos = [inf] /\ i_id inf = next s /\ good_info (e_root e) s' inf.
Proof.
  intros HPI HB Hanc HANC Hr Hvis HAV.
  assert (Halive : forall P, In P vis -> amem P (prefs s) = true /\ mem P (pcache s) = true).
  { intros P HP. eapply AV_alive; eauto. }
  destruct (prep_impl_spec (hd_error (e_anc e)) (nth_clamp up (e_anc e)) vis np s HPI HB)
    as [r1 [s1 [Hrun [K1 Hres]]]].
  { intros p Hp. apply nth_clamp_In in Hp. apply (HANC p Hp). }
  { intros P HP. apply (Halive P HP). }
  unfold child_prep, wrap, map_exn. unfold bind at 1. rewrite Hrun.
  destruct (sp_points um np (fault s)) as [k|ex]; cbn [sp_map ctl].
  - destruct Hres as [Hr1 [Hf [Hn [P1 [Hc [Kc [Kp B1]]]]]]]. subst r1.
    unfold bind, modify, ret.
    set (id := next s) in *. set (r := e_root e) in *.
    eexists. eexists. split; [reflexivity|].
    assert (Hvlt : forall P, In P vis -> P < id).
    { intros P HP. apply alive_lt; [exact HB | apply (Halive P HP)]. }
    assert (Hidvis : mem id vis = false).
    { destruct (mem id vis) eqn:E; [| reflexivity]. apply mem_In in E. apply Hvlt in E. lia. }
    assert (Bf : forall t x, bit t x (up_rend (sadd id) (up_cbs (addref r id) s1)) =
                             prep_bits vis id s t x || (N.eqb x id && match t with TRend => true | _ => false end)).
    { intros t x. destruct t; sb; try (rewrite <- (B1 _ x); sb; rewrite ?andb_false_r, ?orb_false_r; reflexivity).
      rewrite mem_sadd. rewrite <- (B1 TRend x). sb. rewrite andb_true_r. apply orb_comm. }
    assert (Hfresh : forall t x, id <= x -> bit t x s = false) by (intros t x Hx; apply (fr_bit x s (HB x Hx))).
    assert (Hne : forall x, x <> id -> forall t, bit t x (up_rend (sadd id) (up_cbs (addref r id) s1)) = bit t x s).
    { intros x Hx t. rewrite Bf. unfold prep_bits. apply N.eqb_neq in Hx. rewrite Hx. sst.
      rewrite !orb_false_r. reflexivity. }
    split; [| split; [| split]].
    + constructor.
      * destruct P1; constructor; assumption.
      * intros x Hx. sst in Hx. rewrite Hn in Hx. assert (Hx' : id <= x) by lia. assert (Hxne : x <> id) by lia.
        destruct (HB x Hx') as [F1 F2 F3 F4 F5]. constructor.
        -- intro t. rewrite (Hne x Hxne). apply F1.
        -- sst. rewrite Kc. exact F2.
        -- sst. rewrite Kp. exact F3.
        -- sst. rewrite amem_addref, Hc, F4. assert (x <> r) by lia. apply N.eqb_neq in H. rewrite H. reflexivity.
        -- intro k'. sst. rewrite aget_addref, Hc. destruct (N.eqb k' r); [| apply F5].
           rewrite mem_sadd, F5. apply N.eqb_neq in Hxne. rewrite Hxne. reflexivity.
      * sst. rewrite Hn. lia.
      * intros x Hx _ t. apply Hne. lia.
      * intros x Hx t. rewrite Hne by lia. auto.
      * intros x Hx t Ht. destruct (N.eq_dec x id) as [->|Hxne].
        -- sst. rewrite aget_addref, N.eqb_refl, mem_sadd, N.eqb_refl. reflexivity.
        -- rewrite (Hne x Hxne), (Hfresh t x Hx) in Ht. discriminate.
      * intros x Hx. destruct (N.eq_dec x id) as [->|Hxne].
        -- rewrite Bf. unfold prep_bits. rewrite (Hfresh _ id (N.le_refl _)), Hidvis. sst.
           rewrite !andb_false_r. reflexivity.
        -- rewrite (Hne x Hxne). apply Hfresh. exact Hx.
      * intros k' Hk. sst. rewrite alookup_addref, Hc.
        destruct (N.eqb k' r) eqn:E; [| reflexivity]. apply N.eqb_eq in E. subst k'. contradiction Hk. reflexivity.
      * intros r' x Hr' Hm. inversion Hr'; subst r'. sst. rewrite aget_addref, N.eqb_refl, mem_sadd, Hc.
        fold r. rewrite Hm. apply orb_true_r.
      * intros r' x Hr' Hm. inversion Hr'; subst r'. sst in Hm. rewrite aget_addref, N.eqb_refl, mem_sadd, Hc in Hm.
        apply orb_true_iff in Hm. destruct Hm as [Hm|Hm].
        -- right. apply N.eqb_eq in Hm. subst x. apply N.le_refl.
        -- left. exact Hm.
    + eapply stk_trans; [exact K1|]. repeat split; reflexivity.
    + split; [eauto | sst; exact Hf].
    + intros infos Hi. inversion Hi; subst infos. eexists. split; [reflexivity|]. split; [reflexivity|].
      constructor; cbn [i_id i_vis].
      * sst. rewrite Hn. lia.
      * rewrite Bf. sst. rewrite N.eqb_refl. apply orb_true_r.
      * rewrite Bf. unfold prep_bits. rewrite N.eqb_refl. sst. rewrite orb_true_r. reflexivity.
      * sst. rewrite aget_addref, N.eqb_refl, mem_sadd, N.eqb_refl. reflexivity.
      * intros P HP. rewrite Bf. unfold prep_bits. rewrite N.eqb_refl. sst.
        assert (Hm : mem P vis = true) by (apply mem_In; exact HP). rewrite Hm.
        destruct (pcache s) as [|q pc] eqn:Epc.
        -- destruct (Halive P HP) as [_ Hpc]. try rewrite Epc in Hpc. discriminate Hpc.
        -- sst. rewrite !orb_true_r. reflexivity.
  - destruct Hres as [Hr1 [Hf Et]]. subst r1. eexists. eexists. split; [reflexivity|].
    split; [apply step_next_bump; assumption|]. split; [exact K1|]. split; [split; [reflexivity | exact Hf]|].
    intros infos Hi. discriminate Hi.
Qed.

(* ---------- what the two passes over a template's items guarantee ---------- *)
Definition istop (e : env) : bool := match e_anc e with [] => true | _ => false end.

Definition prep_ok (sp : bool -> option nat -> sres) (nk : bool -> nat) (m : env -> M (list info)) : Prop :=
  forall e s, PI s -> below s -> AV (e_avail e) s -> ANC (e_anc e) s ->
    (forall r, eroot e = Some r -> r < next s) ->
    exists res s', m e s = (res, s') /\
      step (eroot e) NoR s s' /\ stk s s' /\ ctl (sp (istop e) (fault s)) res s' /\
      forall infos, res = Val infos ->
        length infos = nk (istop e) /\ NoDup (map i_id infos) /\
        Forall (fun inf => next s <= i_id inf /\ forall r, eroot e = Some r -> good_info r s' inf) infos.

Definition defer_ok (sp : list lbl -> option nat -> sres) (nk : nat)
    (m : env -> list lbl -> list info -> M (list info)) : Prop :=
  forall e path infos s, PI s -> below s -> e_anc e <> [] -> ANC (e_anc e) s -> e_root e < next s ->
    Forall (good_info (e_root e) s) infos -> NoDup (map i_id infos) -> (nk <= length infos)%nat ->
    (forall a, In a (e_anc e) -> ~ In a (map i_id infos)) ->
    exists res s', m e path infos s = (res, s') /\
      step (Some (e_root e)) (fun x => In x (map i_id infos)) s s' /\ stk s s' /\ ctl (sp path (fault s)) res s' /\
      forall rest, res = Val rest ->
        exists used, infos = used ++ rest /\ length used = nk /\
          (forall x, In x (map i_id rest) -> forall t, bit t x s' = bit t x s).

Lemma bind_val {A B} (m : M A) (f : A -> M B) s a s1 : m s = (Val a, s1) -> bind m f s = f a s1.
Proof. intro H. unfold bind. rewrite H. reflexivity. Qed.
Lemma bind_exn {A B} (m : M A) (f : A -> M B) s e s1 : m s = (Exn e, s1) -> bind m f s = (Exn e, s1).
Proof. intro H. unfold bind. rewrite H. reflexivity. Qed.

(* ---------- {% provide %} around a piece of template ---------- *)
Lemma provide_prep_ok sp nk m :
  prep_ok sp nk m ->
  prep_ok sp nk (fun e => provide (fun pid => m (mkEnv (e_avail e ++ [pid]) (e_anc e) (e_root e)))).
Proof.
  intros Hm e s HPI HB HAV HANC Hroot.
  set (pid := next s).
  set (s1 := up_prefs (addref pid pid) (up_pcache (sadd pid) (set_next (N.succ pid) s))).
  assert (Hfr : fresh_id pid s) by (apply HB; apply N.le_refl).
  assert (Hagp : aget pid (prefs s) = []).
  { unfold aget. pose proof (fr_prefs pid s Hfr) as H. apply amem_false_alookup in H. rewrite H. reflexivity. }
  assert (B1 : forall t x, bit t x s1 = bit t x s || (N.eqb x pid && match t with TRef P => N.eqb P pid | _ => false end)).
  { intros t x. destruct t; unfold s1; sb; rewrite ?andb_false_r, ?orb_false_r; try reflexivity.
    rewrite aget_addref. destruct (N.eqb P pid) eqn:E.
    - apply N.eqb_eq in E. subst P. rewrite mem_sadd, Hagp. cbn [mem existsb].
      destruct (N.eqb x pid); reflexivity.
    - rewrite andb_false_r, orb_false_r. reflexivity. }
  assert (P1 : PI s1).
  { destruct HPI as [I1 I2 I3 I4]. constructor; unfold s1; sst.
    - apply NoDup_keys_addref. exact I1.
    - intro P. rewrite amem_addref, mem_sadd, I2. reflexivity.
    - intros P l Hl. rewrite alookup_addref in Hl. destruct (N.eqb P pid); [| eauto].
      inversion Hl. rewrite Hagp. discriminate.
    - intros P x Hx. rewrite aget_addref in Hx. destruct (N.eqb P pid) eqn:E; [| eauto].
      apply N.eqb_eq in E. subst P. rewrite Hagp in Hx. cbn in Hx. rewrite orb_false_r in Hx.
      apply N.eqb_eq in Hx. left. exact Hx. }
  assert (Hn1 : next s1 = N.succ pid) by reflexivity.
  assert (HB1 : below s1).
  { intros x Hx. rewrite Hn1 in Hx. assert (Hx' : next s <= x) by (fold pid; lia).
    assert (Hne : N.eqb x pid = false) by (apply N.eqb_neq; lia).
    destruct (HB x Hx') as [F1 F2 F3 F4 F5]. constructor.
    - intro t. rewrite B1, F1, Hne. reflexivity.
    - unfold s1. sst. rewrite mem_sadd, Hne, F2. reflexivity.
    - unfold s1. sst. rewrite amem_addref, Hne, F3. reflexivity.
    - exact F4.
    - exact F5. }
  set (e1 := mkEnv (e_avail e ++ [pid]) (e_anc e) (e_root e)).
  assert (Hero : eroot e1 = eroot e) by reflexivity.
  assert (Hist : istop e1 = istop e) by reflexivity.
  destruct (Hm e1 s1 P1 HB1) as [res [s2 [Hrun [A [K [Cc HQ]]]]]].
  { intros P HP. cbn [e_avail e1] in HP. apply in_app_or in HP. destruct HP as [HP|[HP|[]]].
    - destruct (HAV P HP) as [a [Ha Hb]]. exists a. split; [rewrite Hn1; fold pid in Ha; lia|].
      rewrite B1, Hb. reflexivity.
    - subst P. exists pid. split; [rewrite Hn1; lia|]. rewrite B1, !N.eqb_refl. apply orb_true_r. }
  { intros a Ha. destruct (HANC a Ha) as [Hlt Hb]. split; [rewrite Hn1; fold pid in Hlt; lia|].
    rewrite B1, Hb. reflexivity. }
  { intros r Hr. rewrite Hero in Hr. specialize (Hroot r Hr). rewrite Hn1. fold pid in Hroot. lia. }
  rewrite Hero in A. rewrite Hist in Cc.
  assert (Hf1 : fault s1 = fault s) by reflexivity. rewrite Hf1 in Cc.
  assert (K1 : stk s s1) by (repeat split; reflexivity).
  unfold provide. fold pid. fold s1. unfold e1 in Hrun. rewrite Hrun.
  (* what happens after the body: only removals *)
  assert (Hafter : exists s3, (match res with
                     | Val a => (cache_cleanup pid;; ret a) s2
                     | Exn ex => (unregister_all (sdiff (allrefs s2) (allrefs (up_pcache (sadd pid) (set_next (N.succ pid) s))));;
                                  cache_cleanup pid;; raise ex) s2
                     end) = (res, s3) /\ PI s3 /\ same_rest s2 s3 /\ keys_shrink s2 s3 /\
                     (forall t x, bit t x s3 = true -> bit t x s2 = true) /\
                     (forall x, x <> pid -> (x < next s1 \/ exists a, res = Val a) -> forall t, bit t x s3 = bit t x s2) /\
                     bit (TRef pid) pid s3 = false).
  { pose proof (st_pi _ _ _ _ A) as P2.
    destruct res as [a|ex].
    - destruct (cache_cleanup_spec pid s2 P2) as [s3 [Hc [P3 [R3 [Ks3 B3]]]]].
      exists s3. split; [unfold bind; rewrite Hc; reflexivity|]. split; [exact P3|]. split; [exact R3|]. split; [exact Ks3|].
      split; [| split].
      + intros t x Ht. rewrite B3 in Ht. apply andb_true_iff in Ht. tauto.
      + intros x Hx _ t. rewrite B3. apply N.eqb_neq in Hx. destruct t; rewrite ?andb_true_r; try reflexivity.
        rewrite Hx, andb_false_r. sst. apply andb_true_r.
      + rewrite B3, !N.eqb_refl. sst. apply andb_false_r.
    - destruct (unregister_all_spec (sdiff (allrefs s2) (allrefs (up_pcache (sadd pid) (set_next (N.succ pid) s)))) s2 P2)
        as [s2' [Hu [P2' [R2' [Ks2' B2']]]]].
      destruct (cache_cleanup_spec pid s2' P2') as [s3 [Hc [P3 [R3 [Ks3 B3]]]]].
      exists s3. split; [unfold bind; rewrite Hu, Hc; reflexivity|]. split; [exact P3|].
      split; [eapply same_rest_trans; eauto|]. split; [eapply keys_shrink_trans; eauto|].
      split; [| split].
      + intros t x Ht. rewrite B3 in Ht. apply andb_true_iff in Ht. destruct Ht as [Ht _].
        rewrite B2' in Ht. apply andb_true_iff in Ht. tauto.
      + intros x Hx Hlt t. destruct Hlt as [Hlt|[a Ha]]; [| discriminate Ha].
        rewrite B3, B2'. apply N.eqb_neq in Hx.
        assert (Hd : mem x (sdiff (allrefs s2) (allrefs (up_pcache (sadd pid) (set_next (N.succ pid) s)))) = false).
        { rewrite mem_sdiff. sst.
          change (mem x (allrefs s2)) with (bit TAll x s2). change (mem x (allrefs s)) with (bit TAll x s).
          rewrite (st_frozen _ _ _ _ A x Hlt (fun f => f) TAll), B1. sst. rewrite andb_false_r, orb_false_r.
          destruct (bit TAll x s); reflexivity. }
        rewrite Hd. sst. rewrite andb_true_r. destruct t; rewrite ?andb_true_r; try reflexivity.
        rewrite Hx, andb_false_r. sst. apply andb_true_r.
      + rewrite B3, !N.eqb_refl. sst. apply andb_false_r. }
  destruct Hafter as [s3 [Hrun3 [P3 [R3 [Ks3 [Sh3 [Eq3 Own3]]]]]]].
  exists res, s3. split.
  { destruct res; exact Hrun3. }
  assert (Hn3 : next s3 = next s2) by apply R3.
  assert (Hc3 : cbs s3 = cbs s2) by apply R3.
  assert (HB3 : below s3).
  { eapply below_shrink; [apply (st_below _ _ _ _ A) | exact Hn3 | exact Hc3 | exact Ks3 | exact Sh3]. }
  assert (Hc1 : cbs s1 = cbs s) by reflexivity.
  assert (Hold : forall x, x < pid -> forall t, bit t x s3 = bit t x s).
  { intros x Hx t. rewrite Eq3; [| lia | left; rewrite Hn1; lia].
    rewrite (st_frozen _ _ _ _ A x); [| rewrite Hn1; lia | tauto].
    rewrite B1. assert (Hne : N.eqb x pid = false) by (apply N.eqb_neq; lia). rewrite Hne. apply orb_false_r. }
  assert (Hpid : forall t, bit t pid s3 = false).
  { intro t. destruct (bit t pid s3) eqn:E; [| reflexivity]. pose proof E as E'. apply Sh3 in E'.
    rewrite (st_frozen _ _ _ _ A pid) in E'; [| rewrite Hn1; lia | tauto].
    rewrite B1, (fr_bit pid s Hfr), N.eqb_refl in E'. sst in E'.
    destruct t; try discriminate E'. apply N.eqb_eq in E'. subst P. rewrite Own3 in E. discriminate. }
  split.
  { constructor.
    - exact P3.
    - exact HB3.
    - rewrite Hn3. pose proof (st_next _ _ _ _ A) as H. rewrite Hn1 in H. fold pid. lia.
    - intros x Hx _ t. apply Hold. exact Hx.
    - intros x Hx t Ht. rewrite Hold in Ht; auto.
    - intros x Hx t Ht. fold pid in Hx. destruct (N.eq_dec x pid) as [->|Hne].
      + rewrite Hpid in Ht. discriminate.
      + rewrite Hc3. apply Sh3 in Ht. assert (Hx1 : next s1 <= x) by (rewrite Hn1; lia).
        exact (st_logged _ _ _ _ A x Hx1 t Ht).
    - intros x Hx. fold pid in Hx. destruct (N.eq_dec x pid) as [->|Hne].
      + apply Hpid.
      + destruct (bit (TRef x) x s3) eqn:E; [| reflexivity]. apply Sh3 in E.
        rewrite (st_noown _ _ _ _ A x) in E; [discriminate | rewrite Hn1; lia].
    - intros k Hk. rewrite Hc3, (st_cbs_other _ _ _ _ A k Hk), Hc1. reflexivity.
    - intros r x Hr Hmm. rewrite Hc3. eapply (st_cbs_mono _ _ _ _ A); eauto.
    - intros r x Hr Hmm. rewrite Hc3 in Hmm. destruct (st_cbs_new _ _ _ _ A r x Hr Hmm) as [H|H].
      + left. rewrite Hc1 in H. exact H.
      + right. rewrite Hn1 in H. fold pid. lia. }
  split.
  { eapply stk_trans; [exact K1|]. eapply stk_trans; [exact K|]. apply stk_same_rest. exact R3. }
  split.
  { destruct (sp (istop e) (fault s)) as [k|ex]; cbn [ctl] in *.
    - destruct Cc as [Ha Hf]. split; [exact Ha|]. rewrite (sr_fault _ _ R3). exact Hf.
    - destruct Cc as [Ha Hf]. split; [exact Ha|]. rewrite (sr_fault _ _ R3). exact Hf. }
  intros infos Hi. destruct (HQ infos Hi) as [Hl [Hnd Hall]]. rewrite Hist in Hl.
  split; [exact Hl|]. split; [exact Hnd|].
  rewrite Forall_forall in *. intros inf Hinf. destruct (Hall inf Hinf) as [Hge Hgood]. rewrite Hn1 in Hge.
  split; [fold pid; lia|]. intros r Hr. rewrite <- Hero in Hr. specialize (Hgood r Hr).
  eapply good_info_bits; [exact Hgood | rewrite Hn3; apply N.le_refl | exact Hc3 |].
  intros t _. apply Eq3; [lia | right; eauto].
Qed.

(* ---------- one component in the post-render queue ---------- *)
Lemma map_exn_run {A} (m : M A) h s r s1 :
  m s = (r, s1) -> map_exn m h s = (match r with Val a => Val a | Exn e => Exn (h e) end, s1).
Proof. intro H. unfold map_exn. rewrite H. destruct r; reflexivity. Qed.

Lemma deferred_core_spec spp nkp spd nkd rp rd anc root path name inf s :
  prep_ok spp nkp rp -> defer_ok spd nkd rd -> nkp false = nkd ->
  PI s -> below s -> ANC anc s -> root < next s -> good_info root s inf -> ~ In (i_id inf) anc ->
  exists (res : res unit) s', deferred_core C um anc root path name inf rp rd s = (res, s') /\
    step (Some root) (fun x => x = i_id inf) s s' /\ stk s s' /\
    ctl (sp_deferred um path name (spp false) spd (fault s)) res s'.
Proof.
  intros Hp Hd Hnk HPI HB HANC Hroot Hgood Hnotanc.
  destruct Hgood as [G1 G2 G3 G4 G5].
  set (id := i_id inf) in *. set (full := path ++ [LName name]).
  set (e' := mkEnv (i_vis inf) (id :: anc) root).
  unfold deferred_core. fold id. fold full. fold e'.
  (* the renderer is taken out of component_renderer_cache, the attributes out of child_component_attrs *)
  set (sB := up_cattrs (srem id) (up_rend (srem id) s)).
  cbn [bit] in G2, G3.
  rewrite (bind_val _ _ s tt (up_rend (srem id) s)) by (cbv beta; rewrite G2; reflexivity).
  rewrite (bind_val _ _ _ tt sB) by reflexivity.
  assert (BB : forall t x, bit t x sB = bit t x s && negb (N.eqb x id && match t with TRend | TCattrs => true | _ => false end)).
  { intros t x. destruct t; unfold sB; sb; rewrite ?andb_false_r, ?andb_true_r; try reflexivity;
      rewrite mem_srem; apply andb_comm. }
  assert (PB : PI sB) by (destruct HPI; constructor; assumption).
  assert (SB : step (Some root) (fun x => x = id) s sB).
  { apply step_of_shrink; auto.
    - constructor; auto.
    - intros t x Ht. rewrite BB in Ht. apply andb_true_iff in Ht. tauto.
    - intros x Hx t. rewrite BB. apply N.eqb_neq in Hx. rewrite Hx. apply andb_true_r. }
  assert (HBB : below sB) by apply SB.
  assert (KB : stk s sB) by (repeat split; reflexivity).
  (* on_render_before *)
  set (sM := up_meta (cons id) sB).
  destruct (point_spec sM) as [r0 [s0 [Hpt [E0 [K0 C0]]]]].
  assert (Hf0 : fault sM = fault s) by reflexivity. rewrite Hf0 in C0.
  assert (EB0 : tabs_eq sB s0) by (eapply tabs_eq_trans; [apply tabs_eq_up_meta | exact E0]).
  unfold sp_deferred. fold full.
  destruct (sp_point um (fault s)) as [k0|ex0] eqn:Esp0; cbn [ctl] in C0.
  2: { (* on_render_before raises *)
    destruct C0 as [Hr0 Hf]. subst r0.
    destruct (with_meta_run id (point um;; rp e') sB (Exn ex0) s0) as [Hwm Kwm].
    { rewrite (bind_exn _ _ sM ex0 s0 Hpt). reflexivity. }
    { exact K0. }
    rewrite (bind_exn _ _ sB (annotate C (tl full) ex0) (up_meta (rem1 id) s0)).
    2: { unfold wrap. rewrite (map_exn_run _ _ _ _ _ Hwm). reflexivity. }
    eexists. eexists. split; [reflexivity|]. split; [| split].
    - eapply step_tabs_eq; [apply tabs_eq_refl | | exact SB].
      eapply tabs_eq_trans; [exact EB0 | apply tabs_eq_up_meta].
    - eapply stk_trans; [exact KB | exact Kwm].
    - cbn [sp_bind sp_map ctl]. split; [reflexivity | exact Hf]. }
  destruct C0 as [[[] Hr0] Hf0']. subst r0.
  (* the component's own template *)
  assert (P0 : PI s0) by (eapply tabs_eq_PI; eauto).
  assert (HB0 : below s0) by (eapply tabs_eq_below; eauto).
  assert (B0 : forall t x, bit t x s0 = bit t x sB) by (apply tabs_eq_bit; exact EB0).
  assert (Hn0 : next s0 = next s) by (rewrite (te_next _ _ EB0); reflexivity).
  destruct (Hp e' s0 P0 HB0) as [r1 [s1 [Hrp [A1 [K1 [C1 Q1]]]]]].
  { intros P HP. exists id. split; [rewrite Hn0; exact G1|]. rewrite B0, BB. cbn [e_avail e'] in HP.
    rewrite (G5 P HP). rewrite andb_false_r. reflexivity. }
  { intros a Ha. cbn [e_anc e'] in Ha. rewrite Hn0. destruct Ha as [<-|Ha].
    - split; [exact G1|]. rewrite B0, BB. cbn [bit]. rewrite G3, andb_false_r. reflexivity.
    - destruct (HANC a Ha) as [Hlt Hb]. split; [exact Hlt|]. rewrite B0, BB, Hb, andb_false_r. reflexivity. }
  { intros r Hr. inversion Hr; subst r. rewrite Hn0. exact Hroot. }
  assert (Hero : eroot e' = Some root) by reflexivity. rewrite Hero in A1.
  assert (Hist : istop e' = false) by reflexivity. rewrite Hist, Hf0' in C1.
  destruct (with_meta_run id (point um;; rp e') sB r1 s1) as [Hwm Kwm].
  { rewrite (bind_val _ _ sM tt s0 Hpt). exact Hrp. }
  { eapply stk_trans; [exact K0 | exact K1]. }
  set (s1' := up_meta (rem1 id) s1) in *.
  assert (E11 : tabs_eq s1 s1') by apply tabs_eq_up_meta.
  assert (S1 : step (Some root) (fun x => x = id) s s1').
  { eapply step_strengthen.
    - eapply step_trans; [exact SB|]. eapply step_tabs_eq; [apply tabs_eq_sym; exact EB0 | exact E11 | exact A1].
    - intros x _ [H|[]]. exact H. }
  destruct (spp false k0) as [k1|ex1] eqn:Esp1; cbn [ctl] in C1.
  2: { (* a callback inside the template raises *)
    destruct C1 as [Hr1 Hf]. subst r1.
    rewrite (bind_exn _ _ sB (annotate C (tl full) ex1) s1').
    2: { unfold wrap. rewrite (map_exn_run _ _ _ _ _ Hwm). reflexivity. }
    eexists. eexists. split; [reflexivity|]. split; [exact S1|]. split.
    - eapply stk_trans; [exact KB | exact Kwm].
    - cbn [sp_bind sp_map]. rewrite Esp1. cbn [sp_bind sp_map ctl]. split; [reflexivity | exact Hf]. }
  destruct C1 as [[infos Hr1] Hf1]. subst r1.
  destruct (Q1 infos eq_refl) as [Hlen [Hnd Hall]]. rewrite Hist in Hlen.
  rewrite Forall_forall in Hall.
  assert (Hgi : forall i, In i infos -> next s <= i_id i /\ good_info root s1 i).
  { intros i Hi. destruct (Hall i Hi) as [Hge Hg]. split; [rewrite <- Hn0; exact Hge | apply Hg; reflexivity]. }
  rewrite (bind_val _ _ sB infos s1').
  2: { unfold wrap. rewrite (map_exn_run _ _ _ _ _ Hwm). reflexivity. }
  (* child_component_attrs.update *)
  set (sC := up_cattrs (fun l => fold_left (fun acc x => sadd x acc) (rootel_ids infos) l) s1').
  rewrite (bind_val _ _ s1' tt sC) by reflexivity.
  assert (Hroot_in : forall x, In x (rootel_ids infos) -> exists i, In i infos /\ x = i_id i).
  { intros x Hx. unfold rootel_ids in Hx. apply in_map_iff in Hx. destruct Hx as [i [Hi1 Hi2]].
    apply filter_In in Hi2. exists i. split; [tauto | auto]. }
  assert (SC : step (Some root) (fun x => x = id) s sC).
  { apply step_add_cattrs; [exact S1|]. intros x Hx. destruct (Hroot_in x Hx) as [i [Hi ->]].
    destruct (Hgi i Hi) as [Hge Hg]. split; [exact Hge|]. split.
    - unfold s1'. sst. apply Hg.
    - unfold s1'. sst. apply Hg. }
  assert (PC : PI sC) by apply SC. assert (HBC : below sC) by apply SC.
  assert (Hn1 : next sC = next s1) by reflexivity.
  assert (Hc1 : cbs sC = cbs s1) by reflexivity.
  assert (HgC : Forall (good_info root sC) infos).
  { rewrite Forall_forall. intros i Hi. destruct (Hgi i Hi) as [_ Hg].
    eapply good_info_bits; [exact Hg | rewrite Hn1; apply N.le_refl | exact Hc1 |].
    intros t Ht. destruct t; try reflexivity. contradiction Ht. reflexivity. }
  assert (HidC : forall t, t <> TRend -> t <> TCattrs -> bit t id sC = bit t id s).
  { intros t Ht1 Ht2. transitivity (bit t id s1').
    - destruct t; try reflexivity. contradiction Ht2. reflexivity.
    - transitivity (bit t id s1); [destruct t; reflexivity|].
      rewrite (st_frozen _ _ _ _ A1 id); [| rewrite Hn0; exact G1 | tauto].
      rewrite B0, BB. destruct t; rewrite ?andb_false_r, ?andb_true_r; try reflexivity; contradiction. }
  assert (Hids_new : forall x, In x (map i_id infos) -> next s <= x).
  { intros x Hx. apply in_map_iff in Hx. destruct Hx as [i [<- Hi]]. apply (Hgi i Hi). }
  destruct (Hd e' full infos sC PC HBC) as [r2 [s2 [Hrd [A2 [K2 [C2 Q2]]]]]].
  { discriminate. }
  { intros a Ha. cbn [e_anc e'] in Ha. rewrite Hn1. pose proof (st_next _ _ _ _ A1) as Hle. rewrite Hn0 in Hle.
    destruct Ha as [<-|Ha].
    - split; [lia|]. rewrite HidC; [exact G3 | discriminate | discriminate].
    - destruct (HANC a Ha) as [Hlt Hb]. split; [lia|].
      assert (Hne : a <> id) by (intro; subst a; contradiction).
      rewrite (st_frozen _ _ _ _ SC a Hlt Hne). exact Hb. }
  { cbn [e_root e']. rewrite Hn1. pose proof (st_next _ _ _ _ A1) as Hle. rewrite Hn0 in Hle. lia. }
  { exact HgC. }
  { exact Hnd. }
  { rewrite Hlen, Hnk. apply Nat.le_refl. }
  { intros a Ha Hin. apply Hids_new in Hin. cbn [e_anc e'] in Ha. destruct Ha as [<-|Ha].
    - lia.
    - destruct (HANC a Ha). lia. }
  cbn [e_root e'] in A2.
  assert (Hfc : fault sC = k1) by (unfold sC, s1'; sst; exact Hf1). rewrite Hfc in C2.
  assert (S2 : step (Some root) (fun x => x = id) s s2).
  { eapply step_strengthen; [eapply step_trans; [exact SC | exact A2]|].
    intros x Hx [H|H]; [exact H|]. apply Hids_new in H. lia. }
  assert (KC : stk s sC).
  { eapply stk_trans; [exact KB|]. eapply stk_trans; [exact Kwm|]. repeat split; reflexivity. }
  destruct (spd full k1) as [k2|ex2] eqn:Esp2; cbn [ctl] in C2.
  2: { (* a child fails *)
    destruct C2 as [Hr2 Hf]. subst r2.
    rewrite (bind_exn _ _ sC ex2 s2 Hrd).
    eexists. eexists. split; [reflexivity|]. split; [exact S2|]. split.
    - eapply stk_trans; [exact KC | exact K2].
    - cbn [sp_bind sp_map]. rewrite Esp1. cbn [sp_bind sp_map]. rewrite Esp2. cbn [sp_bind ctl].
      split; [reflexivity | exact Hf]. }
  destruct C2 as [[rest Hr2] Hf2]. subst r2.
  rewrite (bind_val _ _ sC rest s2 Hrd).
  (* the closing item: callback lookup, on_render_after, forget the component *)
  assert (Hcb : mem id (aget root (cbs s2)) = true).
  { eapply (st_cbs_mono _ _ _ _ S2); [reflexivity | exact G4]. }
  rewrite (bind_val _ _ s2 tt s2) by (cbv beta; rewrite Hcb; reflexivity).
  destruct (point_spec (up_meta (cons id) s2)) as [r3 [s3 [Hpt3 [E3 [K3 C3]]]]].
  assert (Hf3 : fault (up_meta (cons id) s2) = k2) by (sst; exact Hf2). rewrite Hf3 in C3.
  destruct (with_meta_run id (point um) s2 r3 s3 Hpt3 K3) as [Hwm3 Kwm3].
  set (s3' := up_meta (rem1 id) s3) in *.
  assert (E23 : tabs_eq s2 s3').
  { eapply tabs_eq_trans; [apply tabs_eq_up_meta|]. eapply tabs_eq_trans; [exact E3 | apply tabs_eq_up_meta]. }
  assert (S3 : step (Some root) (fun x => x = id) s s3').
  { eapply step_tabs_eq; [apply tabs_eq_refl | exact E23 | exact S2]. }
  assert (K23 : stk s s3') by (eapply stk_trans; [eapply stk_trans; [exact KC | exact K2] | exact Kwm3]).
  destruct (sp_point um k2) as [k3|ex3] eqn:Esp3; cbn [ctl] in C3.
  2: { destruct C3 as [Hr3 Hf]. subst r3.
    rewrite (bind_exn _ _ s2 ex3 s3' Hwm3).
    eexists. eexists. split; [reflexivity|]. split; [exact S3|]. split; [exact K23|].
    cbn [sp_bind sp_map]. rewrite Esp1. cbn [sp_bind sp_map]. rewrite Esp2. cbn [sp_bind]. rewrite Esp3. cbn [ctl].
    split; [reflexivity | exact Hf]. }
  destruct C3 as [[[] Hr3] Hf3']. subst r3.
  rewrite (bind_val _ _ s2 tt s3' Hwm3).
  assert (Hcc : mem id (cctx s3') = true).
  { change (bit TCctx id s3' = true). rewrite (tabs_eq_bit _ _ E23).
    assert (Hnin : ~ In id (map i_id infos)) by (intro H; apply Hids_new in H; lia).
    rewrite (st_frozen _ _ _ _ A2 id); [| rewrite Hn1; pose proof (st_next _ _ _ _ A1); lia | exact Hnin].
    rewrite HidC; [exact G3 | discriminate | discriminate]. }
  set (sD := up_cctx (srem id) s3').
  rewrite (bind_val _ _ s3' tt sD) by (cbv beta; rewrite Hcc; reflexivity).
  assert (P3 : PI s3') by apply S3.
  assert (PD : PI sD) by (destruct P3; constructor; assumption).
  destruct (unregister_spec id sD PD) as [s4 [Hun [P4 [R4 [Ks4 B4]]]]].
  rewrite Hun.
  eexists. eexists. split; [reflexivity|]. split; [| split].
  - eapply step_strengthen; [eapply step_trans; [exact S3|]|].
    + apply (step_of_shrink (Some root) (fun x => x = id) s3' s4); auto.
      * apply S3.
      * rewrite (sr_next _ _ R4). reflexivity.
      * rewrite (sr_cbs _ _ R4). reflexivity.
      * destruct Ks4 as [Ka Kb]. constructor; [exact Ka | exact Kb].
      * intros t x Ht. rewrite B4 in Ht. apply andb_true_iff in Ht. destruct Ht as [Ht _].
        destruct t; unfold sD in Ht; cbn [bit] in *; sst in Ht; try exact Ht.
        rewrite mem_srem in Ht. apply andb_true_iff in Ht. tauto.
      * intros x Hx t. rewrite B4. apply N.eqb_neq in Hx. rewrite Hx. sst. rewrite andb_true_r.
        destruct t; unfold sD; cbn [bit]; sst; try reflexivity. rewrite mem_srem, Hx. reflexivity.
    + intros x _ [H|H]; exact H.
  - eapply stk_trans; [exact K23|]. eapply stk_trans; [| apply (stk_same_rest _ _ R4)]. repeat split; reflexivity.
  - cbn [sp_bind sp_map]. rewrite Esp1. cbn [sp_bind sp_map]. rewrite Esp2. cbn [sp_bind]. rewrite Esp3. cbn [ctl].
    split; [eauto|].
    rewrite (sr_fault _ _ R4). unfold sD. sst. exact Hf3'.
Qed.

(* ---------- Component._render of a root component: everything it allocates is gone afterwards ---------- *)
Lemma try_finally_run {A} (m : M A) (h : M unit) s r s1 s2 :
  m s = (r, s1) -> h s1 = (Val tt, s2) -> try_finally m h s = (r, s2).
Proof. intros H1 H2. unfold try_finally. rewrite H1. destruct r; rewrite H2; reflexivity. Qed.

Lemma root_core_spec ro spp nkp spd nkd rp rd owner vis name np s :
  prep_ok spp nkp rp -> defer_ok spd nkd rd -> nkp false = nkd ->
  PI s -> below s -> AV vis s ->
  exists (res : res unit) s', root_core C um owner vis name np rp rd s = (res, s') /\
    step ro NoR s s' /\ stk s s' /\
    ctl (sp_map (annotate C [LName name])
           (sp_bind (sp_points um np (fault s)) (sp_deferred um [] name (spp false) spd))) res s'.
Proof.
  intros Hp Hd Hnk HPI HB HAV.
  assert (Halive : forall P, In P vis -> amem P (prefs s) = true /\ mem P (pcache s) = true).
  { intros P HP. eapply AV_alive; eauto. }
  destruct (prep_impl_spec owner None vis np s HPI HB) as [r1 [s1 [Hrun [K1 Hres]]]].
  { intros p Hp'. discriminate. }
  { intros P HP. apply (Halive P HP). }
  unfold root_core, wrap. cbn [root_purge C].
  destruct (sp_points um np (fault s)) as [k|ex]; cbn [sp_bind sp_map].
  2: { destruct Hres as [Hr1 [Hf Et]]. subst r1.
    erewrite map_exn_run; [| rewrite (bind_exn _ _ s ex s1 Hrun); reflexivity].
    eexists. eexists. split; [reflexivity|]. split; [apply step_next_bump; assumption|].
    split; [exact K1|]. cbn [ctl]. split; [reflexivity | exact Hf]. }
  destruct Hres as [Hr1 [Hf [Hn [P1 [Hc [Kc [Kp B1]]]]]]]. subst r1.
  set (id := next s) in *.
  set (inf := mkInfo id vis false).
  set (sR := up_rend (sadd id) (up_cbs (addref id id) s1)).
  assert (Hvlt : forall P, In P vis -> P < id).
  { intros P HP. apply alive_lt; [exact HB | apply (Halive P HP)]. }
  assert (Hidvis : mem id vis = false).
  { destruct (mem id vis) eqn:E; [| reflexivity]. apply mem_In in E. apply Hvlt in E. lia. }
  assert (Hfr : fresh_id id s) by (apply HB; apply N.le_refl).
  assert (Bf : forall t x, bit t x sR =
                 prep_bits vis id s t x || (N.eqb x id && match t with TRend => true | _ => false end)).
  { intros t x. destruct t; unfold sR; sb; try (rewrite <- (B1 _ x); sb; rewrite ?andb_false_r, ?orb_false_r; reflexivity).
    rewrite mem_sadd. rewrite <- (B1 TRend x). sb. rewrite andb_true_r. apply orb_comm. }
  assert (Hfresh : forall t x, id <= x -> bit t x s = false) by (intros t x Hx; apply (fr_bit x s (HB x Hx))).
  assert (Hne : forall x, x <> id -> forall t, bit t x sR = bit t x s).
  { intros x Hx t. rewrite Bf. unfold prep_bits. apply N.eqb_neq in Hx. rewrite Hx. sst.
    rewrite !orb_false_r. reflexivity. }
  assert (PR : PI sR) by (destruct P1; constructor; assumption).
  assert (HnR : next sR = N.succ id) by exact Hn.
  assert (HcR : cbs sR = addref id id (cbs s)) by (unfold sR; sst; rewrite Hc; reflexivity).
  assert (HBR : below sR).
  { intros x Hx. rewrite HnR in Hx. assert (Hx' : id <= x) by lia. assert (Hxne : x <> id) by lia.
    destruct (HB x Hx') as [F1 F2 F3 F4 F5]. constructor.
    - intro t. rewrite (Hne x Hxne). apply F1.
    - unfold sR. sst. rewrite Kc. exact F2.
    - unfold sR. sst. rewrite Kp. exact F3.
    - rewrite HcR, amem_addref, F4. apply N.eqb_neq in Hxne. rewrite Hxne. reflexivity.
    - intro k'. rewrite HcR, aget_addref. destruct (N.eqb k' id); [| apply F5].
      rewrite mem_sadd, F5. apply N.eqb_neq in Hxne. rewrite Hxne. reflexivity. }
  assert (Hgood : good_info id sR inf).
  { constructor; cbn [i_id i_vis inf].
    - rewrite HnR. lia.
    - rewrite Bf. sst. rewrite N.eqb_refl. apply orb_true_r.
    - rewrite Bf. unfold prep_bits. rewrite N.eqb_refl. sst. rewrite orb_true_r. reflexivity.
    - rewrite HcR, aget_addref, N.eqb_refl, mem_sadd, N.eqb_refl. reflexivity.
    - intros P HP. rewrite Bf. unfold prep_bits. rewrite N.eqb_refl. sst.
      assert (Hm : mem P vis = true) by (apply mem_In; exact HP). rewrite Hm.
      destruct (pcache s) as [|q pc] eqn:Epc.
      + destruct (Halive P HP) as [_ Hpc]. try rewrite Epc in Hpc. discriminate Hpc.
      + sst. rewrite !orb_true_r. reflexivity. }
  destruct (deferred_core_spec spp nkp spd nkd rp rd [] id [] name inf sR Hp Hd Hnk PR HBR)
    as [r2 [s2 [Hdc [D [K2 C2]]]]].
  { intros a []. }
  { rewrite HnR. lia. }
  { exact Hgood. }
  { intros []. }
  cbn [i_id inf] in D.
  assert (HfR : fault sR = k) by exact Hf. rewrite HfR in C2.
  (* the purge *)
  pose proof (st_pi _ _ _ _ D) as P2.
  destruct (purge_ids_spec (aget id (cbs s2)) s2 P2) as [s3 [Hpg [P3 [R3 [Ks3 B3]]]]].
  set (s4 := up_cbs (aremove id) s3).
  assert (Hrun4 : root_core C um owner vis name np rp rd s =
                  (match r2 with Val a => Val a | Exn e => Exn (annotate C [LName name] e) end, s4)).
  { unfold root_core, wrap. cbn [root_purge C]. apply map_exn_run.
    rewrite (bind_val _ _ s id s1 Hrun). fold inf.
    apply try_finally_run with (s1 := s3); [| reflexivity].
    rewrite (bind_val _ _ s1 tt (up_cbs (addref id id) s1)) by reflexivity.
    rewrite (bind_val _ _ _ tt sR) by reflexivity.
    apply try_finally_run with (s1 := s2); [exact Hdc | exact Hpg]. }
  eexists. eexists. split; [exact Hrun4|].
  (* members of the log are ids of this tree *)
  assert (Hlog_ge : forall x, mem x (aget id (cbs s2)) = true -> id <= x).
  { intros x Hx. destruct (st_cbs_new _ _ _ _ D id x eq_refl Hx) as [H|H].
    - rewrite HcR, aget_addref, N.eqb_refl, mem_sadd in H. apply orb_true_iff in H. destruct H as [H|H].
      + apply N.eqb_eq in H. subst x. apply N.le_refl.
      + rewrite (fr_cbs id s Hfr id) in H || (pose proof (fr_cbs_key id s Hfr) as Hk; apply amem_false_alookup in Hk;
          unfold aget in H; rewrite Hk in H); discriminate.
    - rewrite HnR in H. lia. }
  assert (Hold : forall x, x < id -> forall t, bit t x s3 = bit t x s).
  { intros x Hx t. rewrite B3.
    assert (Hnl : mem x (aget id (cbs s2)) = false).
    { destruct (mem x (aget id (cbs s2))) eqn:E; [| reflexivity]. apply Hlog_ge in E. lia. }
    rewrite Hnl. sst. rewrite andb_true_r.
    rewrite (st_frozen _ _ _ _ D x); [| rewrite HnR; lia | lia]. apply Hne. lia. }
  assert (Hnew : forall x, id <= x -> forall t, bit t x s3 = false).
  { intros x Hx t. destruct (bit t x s3) eqn:E; [| reflexivity]. exfalso.
    rewrite B3 in E. apply andb_true_iff in E. destruct E as [E2 E3].
    assert (HL : mem x (aget id (cbs s2)) = true).
    { destruct (N.eq_dec x id) as [->|Hxne].
      - eapply (st_cbs_mono _ _ _ _ D); [reflexivity|]. apply Hgood.
      - apply (st_logged _ _ _ _ D x) with (t := t); [rewrite HnR; lia | exact E2]. }
    rewrite HL in E3. sst in E3. apply negb_true_iff in E3. apply orb_false_iff in E3. destruct E3 as [E3 E4].
    apply negb_false_iff in E3.
    destruct t; try discriminate E3.
    - cbn [bit] in E2. rewrite E2 in E4. discriminate.
    - cbn [bit] in E2. destruct (pi_refs s2 P2 P x E2) as [->|Ha]; [| rewrite Ha in E4; discriminate].
      destruct (N.eq_dec P id) as [->|Hxne].
      + assert (Hs : bit (TRef id) id sR = true).
        { apply (st_shrink _ _ _ _ D id); [rewrite HnR; lia | exact E2]. }
        rewrite Bf in Hs. unfold prep_bits in Hs. rewrite (Hfresh _ id (N.le_refl _)), Hidvis in Hs. sst in Hs.
        rewrite !andb_false_r in Hs. discriminate.
      + change (bit (TRef P) P s2 = true) in E2.
        rewrite (st_noown _ _ _ _ D P) in E2; [discriminate | rewrite HnR; lia]. }
  assert (Hc4 : forall k', alookup k' (cbs s4) = alookup k' (cbs s)).
  { intro k'. unfold s4. sst. rewrite alookup_aremove, (sr_cbs _ _ R3). destruct (N.eqb k' id) eqn:E.
    - apply N.eqb_eq in E. subst k'. symmetry. apply amem_false_alookup. apply (fr_cbs_key id s Hfr).
    - rewrite (st_cbs_other _ _ _ _ D k'); [| intro H; inversion H; subst; rewrite N.eqb_refl in E; discriminate].
      rewrite HcR, alookup_addref, E. reflexivity. }
  assert (Hn4 : next s4 = next s2) by (unfold s4; sst; apply R3).
  assert (Hle : N.succ id <= next s2) by (rewrite <- HnR; apply D).
  split; [| split].
  - constructor.
    + destruct P3; constructor; assumption.
    + intros x Hx. rewrite Hn4 in Hx.
      assert (HB3 : below s3).
      { eapply below_shrink; [apply (st_below _ _ _ _ D) | apply R3 | apply R3 | exact Ks3 |].
        intros t y Hy. rewrite B3 in Hy. apply andb_true_iff in Hy. tauto. }
      rewrite <- (sr_next _ _ R3) in Hx. destruct (HB3 x Hx) as [F1 F2 F3 F4 F5]. constructor.
      * intro t. apply F1.
      * exact F2.
      * exact F3.
      * unfold s4. sst. rewrite amem_aremove, F4. apply andb_false_r.
      * intro k'. unfold s4. sst. rewrite aget_aremove. destruct (N.eqb k' id); [reflexivity | apply F5].
    + rewrite Hn4. fold id. lia.
    + intros x Hx _ t. apply (Hold x Hx t).
    + intros x Hx t Ht. rewrite <- (Hold x Hx t). exact Ht.
    + intros x Hx t Ht. fold id in Hx. change (bit t x s4) with (bit t x s3) in Ht. rewrite (Hnew x Hx t) in Ht. discriminate.
    + intros x Hx. fold id in Hx. change (bit (TRef x) x s3 = false). apply (Hnew x Hx).
    + intros k' _. apply Hc4.
    + intros r x _ Hm. unfold aget in *. rewrite Hc4. exact Hm.
    + intros r x _ Hm. left. unfold aget in *. rewrite Hc4 in Hm. exact Hm.
  - eapply stk_trans; [exact K1|]. eapply stk_trans; [repeat split; reflexivity|]. eapply stk_trans; [exact K2|].
    eapply stk_trans; [apply (stk_same_rest _ _ R3)|]. repeat split; reflexivity.
  - assert (Hf4 : fault s4 = fault s2) by (unfold s4; sst; apply R3).
    destruct (sp_deferred um [] name (spp false) spd k) as [k'|ex']; cbn [ctl sp_map] in *.
    + destruct C2 as [[a Ha] Hf2]. subst r2. split; [eauto | rewrite Hf4; exact Hf2].
    + destruct C2 as [Ha Hf2]. subst r2. split; [reflexivity | rewrite Hf4; exact Hf2].
Qed.
End Fixed.
