(* The step relation between bookkeeping states (what a piece of a render may change) and its algebra. *)
From DJC Require Import Lib.Base Fault.Model Fault.Lemmas Fault.Inv.
Local Open Scope N_scope.

(* states that differ at most in fault / meta / rctx *)
Record tabs_eq (s t : st) : Prop := {
  te_next : next t = next s; te_cctx : cctx t = cctx s; te_rend : rend t = rend s; te_cattrs : cattrs t = cattrs s;
  te_pcache : pcache t = pcache s; te_prefs : prefs t = prefs s; te_allrefs : allrefs t = allrefs s; te_cbs : cbs t = cbs s
}.
Lemma tabs_eq_refl s : tabs_eq s s.
Proof. constructor; reflexivity. Qed.
Lemma tabs_eq_sym s t : tabs_eq s t -> tabs_eq t s.
Proof. intros []. constructor; congruence. Qed.
Lemma tabs_eq_trans a b c : tabs_eq a b -> tabs_eq b c -> tabs_eq a c.
Proof. intros [] []. constructor; congruence. Qed.
Lemma tabs_eq_bit s t : tabs_eq s t -> forall tb x, bit tb x t = bit tb x s.
Proof. intros [] tb x. destruct tb; cbn [bit]; congruence. Qed.
Lemma tabs_eq_PI s t : tabs_eq s t -> PI s -> PI t.
Proof. intros [] []. constructor; rewrite ?te_prefs0, ?te_pcache0, ?te_allrefs0; assumption. Qed.
Lemma tabs_eq_fresh s t x : tabs_eq s t -> fresh_id x s -> fresh_id x t.
Proof.
  intros E [F1 F2 F3 F4 F5]. constructor.
  - intro tb. rewrite (tabs_eq_bit s t E). apply F1.
  - destruct E; congruence.
  - destruct E; congruence.
  - destruct E; congruence.
  - destruct E; intro k; rewrite te_cbs0; apply F5.
Qed.
Lemma tabs_eq_below s t : tabs_eq s t -> below s -> below t.
Proof. intros E Hb x Hx. apply (tabs_eq_fresh s t x E). apply Hb. destruct E. congruence. Qed.

Record step (ro : option N) (R : N -> Prop) (s s' : st) : Prop := {
  st_pi : PI s';
  st_below : below s';
  st_next : next s <= next s';
  st_frozen : forall x, x < next s -> ~ R x -> forall t, bit t x s' = bit t x s;
  st_shrink : forall x, x < next s -> forall t, bit t x s' = true -> bit t x s = true;
  st_logged : forall x, next s <= x -> forall t, bit t x s' = true ->
                match ro with Some r => mem x (aget r (cbs s')) = true | None => False end;
  st_noown : forall x, next s <= x -> bit (TRef x) x s' = false;
  st_cbs_other : forall k, Some k <> ro -> alookup k (cbs s') = alookup k (cbs s);
  st_cbs_mono : forall r x, ro = Some r -> mem x (aget r (cbs s)) = true -> mem x (aget r (cbs s')) = true;
  st_cbs_new : forall r x, ro = Some r -> mem x (aget r (cbs s')) = true ->
                 mem x (aget r (cbs s)) = true \/ next s <= x
}.

Definition stk (s s' : st) : Prop := meta s' = meta s /\ rctx s' = rctx s /\ cdicts s' = cdicts s.
Lemma stk_refl s : stk s s.
Proof. repeat split; reflexivity. Qed.
Lemma stk_trans a b c : stk a b -> stk b c -> stk a c.
Proof. intros [? [? ?]] [? [? ?]]. repeat split; congruence. Qed.
Lemma stk_same_rest s s' : same_rest s s' -> stk s s'.
Proof. intros []. repeat split; assumption. Qed.

Lemma step_refl ro R s : PI s -> below s -> step ro R s s.
Proof.
  intros HP HB. constructor; auto.
  - apply N.le_refl.
  - intros x Hx t Ht. rewrite (fr_bit x s (HB x Hx) t) in Ht. discriminate.
  - intros x Hx. apply (fr_bit x s (HB x Hx)).
Qed.

Lemma step_trans ro R1 R2 s s1 s2 :
  step ro R1 s s1 -> step ro R2 s1 s2 -> step ro (fun x => R1 x \/ R2 x) s s2.
Proof.
  intros A B. constructor.
  - apply B.
  - apply B.
  - eapply N.le_trans; [apply A | apply B].
  - intros x Hx HR t. rewrite (st_frozen _ _ _ _ B x), (st_frozen _ _ _ _ A x); auto.
    eapply N.lt_le_trans; [exact Hx | apply A].
  - intros x Hx t Ht. apply (st_shrink _ _ _ _ A x Hx). apply (st_shrink _ _ _ _ B x); auto.
    eapply N.lt_le_trans; [exact Hx | apply A].
  - intros x Hx t Ht. destruct (N.lt_ge_cases x (next s1)) as [Hlt|Hge].
    + apply (st_shrink _ _ _ _ B x Hlt) in Ht. pose proof (st_logged _ _ _ _ A x Hx t Ht) as HL.
      destruct ro as [r|]; [| exact HL]. eapply (st_cbs_mono _ _ _ _ B); eauto.
    + apply (st_logged _ _ _ _ B x Hge t Ht).
  - intros x Hx. destruct (N.lt_ge_cases x (next s1)) as [Hlt|Hge].
    + destruct (bit (TRef x) x s2) eqn:E; [| reflexivity].
      apply (st_shrink _ _ _ _ B x Hlt) in E. rewrite (st_noown _ _ _ _ A x Hx) in E. discriminate.
    + apply (st_noown _ _ _ _ B x Hge).
  - intros k Hk. rewrite (st_cbs_other _ _ _ _ B k Hk). apply (st_cbs_other _ _ _ _ A k Hk).
  - intros r x Hr Hm. eapply (st_cbs_mono _ _ _ _ B); eauto. eapply (st_cbs_mono _ _ _ _ A); eauto.
  - intros r x Hr Hm. destruct (st_cbs_new _ _ _ _ B r x Hr Hm) as [H|H].
    + apply (st_cbs_new _ _ _ _ A r x Hr H).
    + right. eapply N.le_trans; [apply A | exact H].
Qed.

Lemma step_weaken ro (R R' : N -> Prop) s s' : (forall x, R x -> R' x) -> step ro R s s' -> step ro R' s s'.
Proof.
  intros HR A. destruct A. constructor; auto.
Qed.

Lemma step_tabs_eq ro R s s' t t' : tabs_eq s t -> tabs_eq s' t' -> step ro R s s' -> step ro R t t'.
Proof.
  intros E E' A. pose proof (tabs_eq_bit _ _ E) as Bs. pose proof (tabs_eq_bit _ _ E') as Bs'.
  assert (Hn : next t = next s) by apply E. assert (Hn' : next t' = next s') by apply E'.
  assert (Hc : cbs t = cbs s) by apply E. assert (Hc' : cbs t' = cbs s') by apply E'.
  destruct A. constructor.
  - eapply tabs_eq_PI; eauto.
  - eapply tabs_eq_below; eauto.
  - rewrite Hn, Hn'. assumption.
  - intros x Hx HR tb. rewrite Hn in Hx. rewrite Bs, Bs'. apply st_frozen0; auto.
  - intros x Hx tb. rewrite Hn in Hx. rewrite Bs, Bs'. apply st_shrink0. exact Hx.
  - intros x Hx tb. rewrite Hn in Hx. rewrite Bs', Hc'. apply st_logged0. exact Hx.
  - intros x Hx. rewrite Hn in Hx. rewrite Bs'. apply st_noown0. exact Hx.
  - intros k Hk. rewrite Hc, Hc'. auto.
  - intros r x Hr. rewrite Hc, Hc'. eauto.
  - intros r x Hr. rewrite Hc, Hc', Hn. eauto.
Qed.

Lemma step_trans0 ro s s1 s2 :
  step ro (fun _ => False) s s1 -> step ro (fun _ => False) s1 s2 -> step ro (fun _ => False) s s2.
Proof. intros A B. eapply step_weaken; [| eapply step_trans; eauto]. cbn. tauto. Qed.

(* ---------- the environment of a piece of template ---------- *)
Definition eroot (e : env) : option N := match e_anc e with [] => None | _ => Some (e_root e) end.
(* every provide visible here keeps a reference made before this point *)
Definition AV (avail : list N) (s : st) : Prop :=
  forall P, In P avail -> exists a, a < next s /\ bit (TRef P) a s = true.
(* the hosts are still registered *)
Definition ANC (anc : list N) (s : st) : Prop :=
  forall a, In a anc -> a < next s /\ bit TCctx a s = true.

Lemma AV_step ro s s' avail : step ro (fun _ => False) s s' -> AV avail s -> AV avail s'.
Proof.
  intros A H P HP. destruct (H P HP) as [a [Ha Hb]]. exists a. split.
  - eapply N.lt_le_trans; [exact Ha | apply A].
  - rewrite (st_frozen _ _ _ _ A a Ha); auto.
Qed.
Lemma ANC_step ro (R : N -> Prop) s s' anc :
  step ro R s s' -> (forall a, In a anc -> ~ R a) -> ANC anc s -> ANC anc s'.
Proof.
  intros A HR H a Ha. destruct (H a Ha) as [Hlt Hb]. split.
  - eapply N.lt_le_trans; [exact Hlt | apply A].
  - rewrite (st_frozen _ _ _ _ A a Hlt); auto.
Qed.
Lemma AV_alive avail s P : PI s -> AV avail s -> In P avail -> amem P (prefs s) = true /\ mem P (pcache s) = true.
Proof.
  intros HPI H HP. destruct (H P HP) as [a [_ Hb]]. cbn [bit] in Hb.
  pose proof (aget_nonempty_amem _ _ _ Hb) as Hm. split; [exact Hm|]. rewrite <- (pi_keys s HPI). exact Hm.
Qed.
Lemma select_In mask : forall l x, In x (select mask l) -> In x l.
Proof.
  induction mask as [|b m IH]; intros [|y l] x H; cbn [select] in H; try contradiction.
  - destruct b; contradiction.
  - destruct b; [destruct H as [H|H]; [left; exact H | right; apply IH; exact H] | right; apply IH; exact H].
Qed.
Lemma nth_clamp_In : forall n l p, nth_clamp n l = Some p -> In p l.
Proof.
  intros n l. revert n. induction l as [|x r IH]; intros n p H.
  - destruct n; discriminate H.
  - destruct n; simpl in H.
    + inversion H. left. reflexivity.
    + destruct r; [inversion H; left; reflexivity|]. right. eapply IH. exact H.
Qed.

(* a nested component that was prepared and waits in the post-render queue *)
Record good_info (r : N) (s : st) (inf : info) : Prop := {
  gi_lt : i_id inf < next s;
  gi_rend : bit TRend (i_id inf) s = true;
  gi_cctx : bit TCctx (i_id inf) s = true;
  gi_cbs : mem (i_id inf) (aget r (cbs s)) = true;
  gi_vis : forall P, In P (i_vis inf) -> bit (TRef P) (i_id inf) s = true
}.
Lemma good_info_step r (R : N -> Prop) s s' inf :
  step (Some r) R s s' -> ~ R (i_id inf) -> good_info r s inf -> good_info r s' inf.
Proof.
  intros A HR [G1 G2 G3 G4 G5]. constructor.
  - eapply N.lt_le_trans; [exact G1 | apply A].
  - rewrite (st_frozen _ _ _ _ A _ G1); auto.
  - rewrite (st_frozen _ _ _ _ A _ G1); auto.
  - eapply (st_cbs_mono _ _ _ _ A); eauto.
  - intros P HP. rewrite (st_frozen _ _ _ _ A _ G1); auto.
Qed.

(* ---------- more ways to obtain a step ---------- *)
Lemma step_strengthen ro (R R' : N -> Prop) s s' :
  step ro R s s' -> (forall x, x < next s -> R x -> R' x) -> step ro R' s s'.
Proof.
  intros A H. destruct A. constructor; auto.
Qed.

(* a transition that only removes elements *)
Lemma step_of_shrink ro (R : N -> Prop) s s' :
  PI s -> below s -> PI s' -> next s' = next s -> cbs s' = cbs s -> keys_shrink s s' ->
  (forall t x, bit t x s' = true -> bit t x s = true) ->
  (forall x, ~ R x -> forall t, bit t x s' = bit t x s) ->
  step ro R s s'.
Proof.
  intros HPI HB HPI' Hn Hc Hk Hs Hf.
  assert (HB' : below s') by (eapply below_shrink; eauto).
  constructor; auto.
  - rewrite Hn. apply N.le_refl.
  - intros x Hx t Ht. apply Hs in Ht. rewrite (fr_bit x s (HB x Hx) t) in Ht. discriminate.
  - intros x Hx. destruct (bit (TRef x) x s') eqn:E; [| reflexivity].
    apply Hs in E. rewrite (fr_bit x s (HB x Hx)) in E. discriminate.
  - intros k _. rewrite Hc. reflexivity.
  - intros r x _. rewrite Hc. auto.
  - intros r x _. rewrite Hc. auto.
Qed.

Lemma mem_fold_sadd ids : forall l x, mem x (fold_left (fun acc y => sadd y acc) ids l) = mem x ids || mem x l.
Proof.
  induction ids as [|y ids IH]; intros l x; cbn [fold_left]; [reflexivity|].
  rewrite IH, mem_sadd, mem_cons. destruct (N.eqb x y), (mem x ids), (mem x l); reflexivity.
Qed.

(* child_component_attrs.update(...) for placeholders of components prepared during this step *)
Lemma step_add_cattrs r (R : N -> Prop) s s1 ids :
  step (Some r) R s s1 ->
  (forall x, In x ids -> next s <= x /\ x < next s1 /\ mem x (aget r (cbs s1)) = true) ->
  step (Some r) R s (up_cattrs (fun l => fold_left (fun acc y => sadd y acc) ids l) s1).
Proof.
  intros A H.
  assert (Hb : forall t x, bit t x (up_cattrs (fun l => fold_left (fun acc y => sadd y acc) ids l) s1) =
                           bit t x s1 || (match t with TCattrs => mem x ids | _ => false end)).
  { intros t x. destruct t; cbn [bit]; sst; rewrite ?orb_false_r; try reflexivity.
    rewrite mem_fold_sadd. apply orb_comm. }
  assert (Hold : forall x, x < next s -> mem x ids = false).
  { intros x Hx. destruct (mem x ids) eqn:E; [| reflexivity]. apply mem_In in E. apply H in E. lia. }
  destruct A. constructor.
  - destruct st_pi0; constructor; assumption.
  - intros x Hx. sst in Hx. destruct (st_below0 x Hx) as [F1 F2 F3 F4 F5]. constructor; auto.
    intro t. rewrite Hb, F1. destruct t; try reflexivity.
    destruct (mem x ids) eqn:E; [| reflexivity]. apply mem_In in E. apply H in E. lia.
  - exact st_next0.
  - intros x Hx HR t. rewrite Hb, (st_frozen0 x Hx HR). destruct t; rewrite ?orb_false_r; try reflexivity.
    rewrite (Hold x Hx). apply orb_false_r.
  - intros x Hx t Ht. rewrite Hb in Ht. apply (st_shrink0 x Hx).
    destruct t; rewrite ?orb_false_r in Ht; try exact Ht. rewrite (Hold x Hx), orb_false_r in Ht. exact Ht.
  - intros x Hx t Ht. sst. rewrite Hb in Ht. apply orb_true_iff in Ht. destruct Ht as [Ht|Ht].
    + apply (st_logged0 x Hx t Ht).
    + destruct t; try discriminate. apply mem_In in Ht. apply H in Ht. tauto.
  - intros x Hx. rewrite Hb, orb_false_r. apply st_noown0. exact Hx.
  - exact st_cbs_other0.
  - exact st_cbs_mono0.
  - exact st_cbs_new0.
Qed.

Lemma good_info_bits r s s' inf :
  good_info r s inf -> next s <= next s' -> cbs s' = cbs s ->
  (forall t, t <> TCattrs -> bit t (i_id inf) s' = bit t (i_id inf) s) -> good_info r s' inf.
Proof.
  intros [G1 G2 G3 G4 G5] Hn Hc Hb. constructor.
  - lia.
  - rewrite Hb; [exact G2 | discriminate].
  - rewrite Hb; [exact G3 | discriminate].
  - rewrite Hc. exact G4.
  - intros P HP. rewrite Hb; [auto | discriminate].
Qed.
