(* Basic facts about the set / dictionary operations of Fault/Model.v. *)
From DJC Require Import Lib.Base Fault.Model.

(* simplify projections of updated states (and boolean connectives on constructors) without unfolding the set operations *)
Ltac sst := cbn [next fault cctx rend cattrs pcache prefs allrefs meta rctx cbs cdicts set_next set_fault up_cctx up_rend
                 up_cattrs up_pcache up_prefs up_allrefs up_meta up_rctx up_cbs up_cdicts negb andb orb fst snd option_map].
Tactic Notation "sst" "in" hyp(H) :=
  cbn [next fault cctx rend cattrs pcache prefs allrefs meta rctx cbs cdicts set_next set_fault up_cctx up_rend
       up_cattrs up_pcache up_prefs up_allrefs up_meta up_rctx up_cbs up_cdicts negb andb orb fst snd option_map] in H.
Ltac splits := repeat match goal with |- _ /\ _ => split end.

Lemma mem_nil x : mem x [] = false.
Proof. reflexivity. Qed.
Lemma mem_cons x y l : mem x (y :: l) = N.eqb x y || mem x l.
Proof. reflexivity. Qed.
Lemma mem_In x l : mem x l = true <-> In x l.
Proof.
  unfold mem. rewrite existsb_exists. split.
  - intros [y [Hy He]]. apply N.eqb_eq in He. subst. exact Hy.
  - intro H. exists x. split; [exact H | apply N.eqb_refl].
Qed.
Lemma mem_sadd x y l : mem x (sadd y l) = N.eqb x y || mem x l.
Proof.
  unfold sadd. destruct (mem y l) eqn:E; [| reflexivity].
  destruct (N.eqb x y) eqn:Exy; [| reflexivity].
  apply N.eqb_eq in Exy. subst. exact E.
Qed.
Lemma mem_srem x y l : mem x (srem y l) = negb (N.eqb x y) && mem x l.
Proof.
  unfold srem. induction l as [|z l IH]; cbn [filter].
  - rewrite andb_false_r. reflexivity.
  - destruct (N.eqb y z) eqn:Eyz; cbn [negb].
    + rewrite IH. rewrite mem_cons. apply N.eqb_eq in Eyz. subst z.
      destruct (N.eqb x y); reflexivity.
    + rewrite !mem_cons, IH. destruct (N.eqb x z) eqn:Exz; [| reflexivity].
      apply N.eqb_eq in Exz. subst z. rewrite N.eqb_sym, Eyz. reflexivity.
Qed.
Lemma mem_sdiff x a b : mem x (sdiff a b) = mem x a && negb (mem x b).
Proof.
  unfold sdiff. induction a as [|z a IH]; cbn [filter]; [reflexivity|].
  destruct (mem z b) eqn:Ez; cbn [negb].
  - rewrite IH, mem_cons. destruct (N.eqb x z) eqn:Exz; [| reflexivity].
    apply N.eqb_eq in Exz. subst z. rewrite Ez. cbn. rewrite andb_false_r. reflexivity.
  - rewrite !mem_cons, IH. destruct (N.eqb x z) eqn:Exz; [| reflexivity].
    apply N.eqb_eq in Exz. subst z. rewrite Ez. reflexivity.
Qed.
Lemma mem_false_nil l : (forall x, mem x l = false) -> l = [].
Proof.
  destruct l as [|y l]; [reflexivity|]. intro H. specialize (H y). rewrite mem_cons, N.eqb_refl in H. discriminate.
Qed.
Lemma srem_nil_mem x y l : srem y l = [] -> negb (N.eqb x y) && mem x l = false.
Proof. intro H. rewrite <- mem_srem, H. reflexivity. Qed.
Lemma rem1_cons x l : rem1 x (x :: l) = l.
Proof. cbn. rewrite N.eqb_refl. reflexivity. Qed.
Lemma rem1_tok_cons o x l : rem1_tok x ((o, x) :: l) = l.
Proof. cbn. rewrite N.eqb_refl. reflexivity. Qed.

(* ---------- association lists ---------- *)
Lemma amem_alookup {V} k (l : list (N * V)) : amem k l = true <-> exists v, alookup k l = Some v.
Proof. unfold amem. destruct (alookup k l); split; intro H; eauto; try discriminate. destruct H; discriminate. Qed.
Lemma amem_false_alookup {V} k (l : list (N * V)) : amem k l = false <-> alookup k l = None.
Proof. unfold amem. destruct (alookup k l); split; intro H; congruence. Qed.
Lemma alookup_aupd k k' f l :
  alookup k (aupd k' f l) = if N.eqb k k' then option_map f (alookup k l) else alookup k l.
Proof.
  induction l as [|[q v] l IH]; cbn [aupd alookup].
  - destruct (N.eqb k k'); reflexivity.
  - destruct (N.eqb k' q) eqn:E1; cbn [alookup].
    + apply N.eqb_eq in E1. subst q. destruct (N.eqb k k'); reflexivity.
    + destruct (N.eqb k q) eqn:E2.
      * apply N.eqb_eq in E2. subst q. rewrite N.eqb_sym, E1. reflexivity.
      * exact IH.
Qed.
Lemma alookup_aremove {V} k k' (l : list (N * V)) :
  alookup k (aremove k' l) = if N.eqb k k' then None else alookup k l.
Proof.
  induction l as [|[q v] l IH]; cbn [aremove alookup].
  - destruct (N.eqb k k'); reflexivity.
  - destruct (N.eqb k' q) eqn:E1.
    + rewrite IH. apply N.eqb_eq in E1. subst q. destruct (N.eqb k k'); reflexivity.
    + cbn [alookup]. destruct (N.eqb k q) eqn:E2; [| exact IH].
      apply N.eqb_eq in E2. subst q. rewrite N.eqb_sym, E1. reflexivity.
Qed.
Lemma keys_aupd k f l : map fst (aupd k f l) = map fst l.
Proof.
  induction l as [|[q v] l IH]; cbn [aupd map]; [reflexivity|].
  destruct (N.eqb k q); cbn [map fst]; [reflexivity | rewrite IH; reflexivity].
Qed.
Lemma In_keys_alookup {V} k (l : list (N * V)) : In k (map fst l) <-> amem k l = true.
Proof.
  unfold amem. induction l as [|[q v] l IH]; cbn [map fst In alookup].
  - split; [tauto | discriminate].
  - destruct (N.eqb k q) eqn:E.
    + apply N.eqb_eq in E. subst. split; auto.
    + rewrite <- IH. split; [intros [H|H]; [subst; rewrite N.eqb_refl in E; discriminate | exact H] | auto].
Qed.
Lemma keys_aremove_In {V} k k' (l : list (N * V)) : In k (map fst (aremove k' l)) -> In k (map fst l) /\ k <> k'.
Proof.
  induction l as [|[q v] l IH]; cbn [aremove map fst In]; [tauto|].
  destruct (N.eqb k' q) eqn:E.
  - intro H. destruct (IH H). split; auto.
  - cbn [map fst In]. intros [H|H].
    + subst q. split; [auto|]. intro; subst. rewrite N.eqb_refl in E. discriminate.
    + destruct (IH H). split; auto.
Qed.
Lemma NoDup_keys_aremove {V} k (l : list (N * V)) : NoDup (map fst l) -> NoDup (map fst (aremove k l)).
Proof.
  induction l as [|[q v] l IH]; cbn [aremove map fst]; [auto|].
  intro H. inversion H; subst. destruct (N.eqb k q); [auto|].
  cbn [map fst]. constructor; [| auto]. intro Hin. apply keys_aremove_In in Hin. tauto.
Qed.

Lemma aget_alookup k l : aget k l = match alookup k l with Some v => v | None => [] end.
Proof. reflexivity. Qed.
Lemma alookup_addref k k' x l :
  alookup k (addref k' x l) = if N.eqb k k' then Some (sadd x (aget k' l)) else alookup k l.
Proof.
  unfold addref, aget, amem. destruct (alookup k' l) eqn:E.
  - rewrite alookup_aupd. destruct (N.eqb k k') eqn:E1; [| reflexivity].
    apply N.eqb_eq in E1. subst. rewrite E. reflexivity.
  - cbn [alookup]. destruct (N.eqb k k'); reflexivity.
Qed.
Lemma keys_addref k x l :
  map fst (addref k x l) = if amem k l then map fst l else k :: map fst l.
Proof. unfold addref. destruct (amem k l); [apply keys_aupd | reflexivity]. Qed.
Lemma NoDup_keys_addref k x l : NoDup (map fst l) -> NoDup (map fst (addref k x l)).
Proof.
  intro H. rewrite keys_addref. destruct (amem k l) eqn:E; [exact H|].
  constructor; [| exact H]. rewrite In_keys_alookup, E. discriminate.
Qed.
Lemma amem_addref k k' x l : amem k (addref k' x l) = N.eqb k k' || amem k l.
Proof.
  unfold amem at 1. rewrite alookup_addref. destruct (N.eqb k k'); [reflexivity|]. reflexivity.
Qed.
Lemma amem_aremove {V} k k' (l : list (N * V)) : amem k (aremove k' l) = negb (N.eqb k k') && amem k l.
Proof. unfold amem. rewrite alookup_aremove. destruct (N.eqb k k'); reflexivity. Qed.
Lemma amem_aupd k k' f l : amem k (aupd k' f l) = amem k l.
Proof. unfold amem. rewrite alookup_aupd. destruct (N.eqb k k'); [destruct (alookup k l) |]; reflexivity. Qed.
Lemma aget_aupd k k' f l :
  aget k (aupd k' f l) = if N.eqb k k' then (if amem k l then f (aget k l) else []) else aget k l.
Proof.
  unfold aget, amem. rewrite alookup_aupd. destruct (N.eqb k k'); [destruct (alookup k l) |]; reflexivity.
Qed.
Lemma aget_aremove k k' (l : list (N * list N)) : aget k (aremove k' l) = if N.eqb k k' then [] else aget k l.
Proof. unfold aget. rewrite alookup_aremove. destruct (N.eqb k k'); reflexivity. Qed.
Lemma aget_addref k k' x l : aget k (addref k' x l) = if N.eqb k k' then sadd x (aget k' l) else aget k l.
Proof. unfold aget at 1. rewrite alookup_addref. destruct (N.eqb k k'); reflexivity. Qed.
Lemma aget_nonempty_amem k l x : mem x (aget k l) = true -> amem k l = true.
Proof. unfold aget, amem. destruct (alookup k l); [reflexivity | discriminate]. Qed.

Lemma NoDup_app_intro {A} (a b : list A) :
  NoDup a -> NoDup b -> (forall x, In x a -> In x b -> False) -> NoDup (a ++ b).
Proof.
  induction a as [|y a IH]; intros Ha Hb Hd; cbn [app]; [exact Hb|].
  inversion Ha; subst. constructor.
  - intro Hin. apply in_app_or in Hin. destruct Hin as [Hin|Hin]; [contradiction|].
    apply (Hd y); [left; reflexivity | exact Hin].
  - apply IH; auto. intros x Hx Hx'. apply (Hd x); [right; exact Hx | exact Hx'].
Qed.

Lemma NoDup_app_right {A} (a b : list A) : NoDup (a ++ b) -> NoDup b.
Proof.
  induction a as [|y a IH]; cbn [app]; intro H; [exact H|]. inversion H; subst. auto.
Qed.
