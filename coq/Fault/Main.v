(* The main induction: both passes over any render tree keep the bookkeeping invariants and produce the
   outcome the S-model prescribes (repaired code, cfg_fixed). *)
From DJC Require Import Lib.Base Fault.Model Fault.Lemmas Fault.Inv Fault.Steps Fault.Combs.
Local Open Scope N_scope.

Scheme item_mut := Induction for item Sort Prop
with items_mut := Induction for items Sort Prop
with comp_mut := Induction for comp Sort Prop.
Combined Scheme tree_mutind from item_mut, items_mut, comp_mut.

Section Main.
Variable um : list mline.

Definition Pi (i : item) : Prop :=
  prep_ok (fun top => sp_prep_item um top i) (fun top => nk_item top i) (fun e => prep_item C um e i) /\
  defer_ok (fun p => sp_defer_item um p i) (nk_item false i) (fun e p infos => defer_item C um e p i infos).
Definition Pl (l : items) : Prop :=
  prep_ok (fun top => sp_prep_items um top l) (fun top => nk_items top l) (fun e => prep_items C um e l) /\
  defer_ok (fun p => sp_defer_items um p l) (nk_items false l) (fun e p infos => defer_items C um e p l infos).
Definition Pc (c : comp) : Prop := match c with Comp _ _ body => Pl body end.


(* unfolding equations (cbn would expose the mutual fixpoint bodies) *)
Lemma prep_item_point e : prep_item C um e IPoint = (point um;; ret []).
Proof. reflexivity. Qed.
Lemma prep_item_slot e l b : prep_item C um e (ISlot l b) = slot_wrap l (prep_items C um e b).
Proof. reflexivity. Qed.
Lemma prep_item_provide e b :
  prep_item C um e (IProvide b) = provide (fun pid => prep_items C um (mkEnv (e_avail e ++ [pid]) (e_anc e) (e_root e)) b).
Proof. reflexivity. Qed.
Lemma prep_item_drop e b : prep_item C um e (IDrop b) = (prep_items C um e b;; ret []).
Proof. reflexivity. Qed.
Lemma prep_item_extract e b : prep_item C um e (IExtract b) = with_cd (hd_error (e_anc e)) (prep_items C um e b).
Proof. reflexivity. Qed.
Lemma prep_item_comp e isroot rootel up mask name np body :
  prep_item C um e (IComp isroot rootel up mask (Comp name np body)) =
  match isroot, e_anc e with
  | false, _ :: _ => child_prep C um e rootel up (select mask (e_avail e)) name np
  | _, _ => root_core C um (hd_error (e_anc e)) (select mask (e_avail e)) name np (fun e' => prep_items C um e' body)
              (fun e' p infos => defer_items C um e' p body infos);; ret []
  end.
Proof. reflexivity. Qed.
Lemma prep_items_nil e : prep_items C um e INil = ret [].
Proof. reflexivity. Qed.
Lemma prep_items_cons e i r :
  prep_items C um e (ICons i r) = (a <- prep_item C um e i;; b <- prep_items C um e r;; ret (a ++ b)).
Proof. reflexivity. Qed.
Lemma defer_item_point e p infos : defer_item C um e p IPoint infos = ret infos.
Proof. reflexivity. Qed.
Lemma defer_item_slot e p l b infos : defer_item C um e p (ISlot l b) infos = defer_items C um e p b infos.
Proof. reflexivity. Qed.
Lemma defer_item_provide e p b infos : defer_item C um e p (IProvide b) infos = defer_items C um e p b infos.
Proof. reflexivity. Qed.
Lemma defer_item_drop e p b infos : defer_item C um e p (IDrop b) infos = ret infos.
Proof. reflexivity. Qed.
Lemma defer_item_extract e p b infos : defer_item C um e p (IExtract b) infos = defer_items C um e p b infos.
Proof. reflexivity. Qed.
Lemma defer_item_comp e p isroot rootel up mask name np body infos :
  defer_item C um e p (IComp isroot rootel up mask (Comp name np body)) infos =
  match isroot, e_anc e with
  | false, _ :: _ =>
      match infos with
      | [] => raise (EInternal KAlign)
      | inf :: rest =>
          deferred_core C um (e_anc e) (e_root e) p name inf (fun e' => prep_items C um e' body)
            (fun e' p' infos' => defer_items C um e' p' body infos');; ret rest
      end
  | _, _ => ret infos
  end.
Proof. reflexivity. Qed.
Lemma defer_items_nil e p infos : defer_items C um e p INil infos = ret infos.
Proof. reflexivity. Qed.
Lemma defer_items_cons e p i r infos :
  defer_items C um e p (ICons i r) infos = (rest <- defer_item C um e p i infos;; defer_items C um e p r rest).
Proof. reflexivity. Qed.

Lemma sp_prep_item_point top k : sp_prep_item um top IPoint k = sp_point um k.
Proof. reflexivity. Qed.
Lemma sp_prep_item_slot top l b k : sp_prep_item um top (ISlot l b) k = sp_map (slot_mark l) (sp_prep_items um top b k).
Proof. reflexivity. Qed.
Lemma sp_prep_item_provide top b k : sp_prep_item um top (IProvide b) k = sp_prep_items um top b k.
Proof. reflexivity. Qed.
Lemma sp_prep_item_drop top b k : sp_prep_item um top (IDrop b) k = sp_prep_items um top b k.
Proof. reflexivity. Qed.
Lemma sp_prep_item_extract top b k : sp_prep_item um top (IExtract b) k = sp_prep_items um top b k.
Proof. reflexivity. Qed.
Lemma sp_prep_item_comp top isroot rootel up mask name np body k :
  sp_prep_item um top (IComp isroot rootel up mask (Comp name np body)) k =
  if isroot || top
  then sp_map (annotate C [LName name])
         (sp_bind (sp_points um np k)
            (sp_deferred um [] name (sp_prep_items um false body) (fun p => sp_defer_items um p body)))
  else sp_map (annotate C [LName name]) (sp_points um np k).
Proof. reflexivity. Qed.
Lemma sp_prep_items_nil top k : sp_prep_items um top INil k = SOk k.
Proof. reflexivity. Qed.
Lemma sp_prep_items_cons top i r k :
  sp_prep_items um top (ICons i r) k = sp_bind (sp_prep_item um top i k) (sp_prep_items um top r).
Proof. reflexivity. Qed.
Lemma sp_defer_item_point p k : sp_defer_item um p IPoint k = SOk k.
Proof. reflexivity. Qed.
Lemma sp_defer_item_slot p l b k : sp_defer_item um p (ISlot l b) k = sp_defer_items um p b k.
Proof. reflexivity. Qed.
Lemma sp_defer_item_provide p b k : sp_defer_item um p (IProvide b) k = sp_defer_items um p b k.
Proof. reflexivity. Qed.
Lemma sp_defer_item_drop p b k : sp_defer_item um p (IDrop b) k = SOk k.
Proof. reflexivity. Qed.
Lemma sp_defer_item_extract p b k : sp_defer_item um p (IExtract b) k = sp_defer_items um p b k.
Proof. reflexivity. Qed.
Lemma sp_defer_item_comp p isroot rootel up mask name np body k :
  sp_defer_item um p (IComp isroot rootel up mask (Comp name np body)) k =
  if isroot then SOk k
  else sp_deferred um p name (sp_prep_items um false body) (fun p' => sp_defer_items um p' body) k.
Proof. reflexivity. Qed.
Lemma sp_defer_items_nil p k : sp_defer_items um p INil k = SOk k.
Proof. reflexivity. Qed.
Lemma sp_defer_items_cons p i r k :
  sp_defer_items um p (ICons i r) k = sp_bind (sp_defer_item um p i k) (sp_defer_items um p r).
Proof. reflexivity. Qed.

Lemma nk_item_point top : nk_item top IPoint = O. Proof. reflexivity. Qed.
Lemma nk_item_slot top l b : nk_item top (ISlot l b) = nk_items top b. Proof. reflexivity. Qed.
Lemma nk_item_provide top b : nk_item top (IProvide b) = nk_items top b. Proof. reflexivity. Qed.
Lemma nk_item_drop top b : nk_item top (IDrop b) = O. Proof. reflexivity. Qed.
Lemma nk_item_extract top b : nk_item top (IExtract b) = nk_items top b. Proof. reflexivity. Qed.
Lemma nk_item_comp top isroot rootel up mask c :
  nk_item top (IComp isroot rootel up mask c) = if isroot || top then O else 1%nat.
Proof. reflexivity. Qed.
Lemma nk_items_nil top : nk_items top INil = O. Proof. reflexivity. Qed.
Lemma nk_items_cons top i r : nk_items top (ICons i r) = (nk_item top i + nk_items top r)%nat. Proof. reflexivity. Qed.

Ltac eqs := cbv beta;
  rewrite ?prep_item_point, ?prep_item_slot, ?prep_item_provide, ?prep_item_drop, ?prep_item_extract, ?prep_item_comp,
          ?prep_items_nil, ?prep_items_cons, ?defer_item_point, ?defer_item_slot, ?defer_item_provide,
          ?defer_item_drop, ?defer_item_extract, ?defer_item_comp, ?defer_items_nil, ?defer_items_cons,
          ?sp_prep_item_point, ?sp_prep_item_slot, ?sp_prep_item_provide, ?sp_prep_item_drop, ?sp_prep_item_extract, ?sp_prep_item_comp,
          ?sp_prep_items_nil, ?sp_prep_items_cons, ?sp_defer_item_point, ?sp_defer_item_slot,
          ?sp_defer_item_provide, ?sp_defer_item_drop, ?sp_defer_item_extract, ?sp_defer_item_comp, ?sp_defer_items_nil, ?sp_defer_items_cons,
          ?nk_item_point, ?nk_item_slot, ?nk_item_provide, ?nk_item_drop, ?nk_item_extract, ?nk_item_comp, ?nk_items_nil, ?nk_items_cons.

Lemma nk_top_zero : (forall i, nk_item true i = O) /\ (forall l, nk_items true l = O) /\ (forall c : comp, True).
Proof.
  apply tree_mutind; intros; cbn [nk_item nk_items]; auto.
  - rewrite orb_true_r. reflexivity.
  - rewrite H, H0. reflexivity.
Qed.

(* a defer pass that does nothing *)
Lemma defer_skip sp (m : env -> list lbl -> list info -> M (list info)) :
  (forall e p infos s, m e p infos s = (Val infos, s)) -> (forall p k, sp p k = SOk k) -> defer_ok sp 0 m.
Proof.
  intros Hm Hsp e path infos s HPI HB _ _ _ _ _ _ _.
  exists (Val infos), s. split; [apply Hm|]. split; [apply step_refl; assumption|]. split; [apply stk_refl|].
  rewrite Hsp. cbn [ctl]. split; [split; [eauto | reflexivity]|].
  intros rest Hr. inversion Hr; subst rest. exists []. splits; auto.
Qed.

Lemma P_point : Pi IPoint.
Proof.
  split.
  - intros e s HPI HB _ _ _. eqs.
    destruct (point_spec um s) as [r [s1 [Hp [E [K Cc]]]]].
    assert (S1 : step (eroot e) NoR s s1).
    { eapply step_tabs_eq; [apply tabs_eq_refl | exact E | apply step_refl; assumption]. }
    destruct (sp_point um (fault s)) as [k|ex]; cbn [ctl] in Cc.
    + destruct Cc as [[[] Hr] Hf]. subst r. exists (Val []), s1. rewrite (bind_val _ _ s tt s1 Hp).
      split; [reflexivity|]. split; [exact S1|]. split; [exact K|]. cbn [ctl]. split; [split; [eauto | exact Hf]|].
      intros infos Hi. inversion Hi; subst infos. splits; [reflexivity | constructor | constructor].
    + destruct Cc as [Hr Hf]. subst r. exists (Exn ex), s1. rewrite (bind_exn _ _ s ex s1 Hp).
      split; [reflexivity|]. split; [exact S1|]. split; [exact K|]. cbn [ctl]. split; [split; [reflexivity | exact Hf]|].
      intros infos Hi. discriminate Hi.
  - apply defer_skip; reflexivity.
Qed.

Lemma P_slot l b : Pl b -> Pi (ISlot l b).
Proof.
  intros [Hp Hd]. split.
  - intros e s HPI HB HAV HANC Hr. eqs.
    destruct (Hp e s HPI HB HAV HANC Hr) as [res [s1 [Hrun [A [K [Cc Q]]]]]].
    unfold slot_wrap. rewrite (map_exn_run _ _ _ _ _ Hrun).
    eexists. eexists. split; [reflexivity|]. split; [exact A|]. split; [exact K|].
    split; [apply ctl_map_exn; exact Cc|].
    intros infos Hi. destruct res; [| discriminate Hi]. apply Q. exact Hi.
  - exact Hd.
Qed.

Lemma P_provide b : Pl b -> Pi (IProvide b).
Proof.
  intros [Hp Hd]. split.
  - apply (provide_prep_ok _ _ _ Hp).
  - exact Hd.
Qed.

Lemma P_drop b : Pl b -> Pi (IDrop b).
Proof.
  intros [Hp Hd]. split.
  - intros e s HPI HB HAV HANC Hr. eqs.
    destruct (Hp e s HPI HB HAV HANC Hr) as [res [s1 [Hrun [A [K [Cc Q]]]]]].
    destruct (sp_prep_items um (istop e) b (fault s)) as [k|ex]; cbn [ctl] in Cc.
    + destruct Cc as [[a Ha] Hf]. subst res. rewrite (bind_val _ _ s a s1 Hrun).
      exists (Val []), s1. split; [reflexivity|]. split; [exact A|]. split; [exact K|].
      cbn [ctl]. split; [split; [eauto | exact Hf]|].
      intros infos Hi. inversion Hi; subst infos. splits; [reflexivity | constructor | constructor].
    + destruct Cc as [Ha Hf]. subst res. rewrite (bind_exn _ _ s ex s1 Hrun).
      exists (Exn ex), s1. split; [reflexivity|]. split; [exact A|]. split; [exact K|].
      cbn [ctl]. split; [split; [reflexivity | exact Hf]|]. intros infos Hi. discriminate Hi.
  - apply defer_skip; reflexivity.
Qed.

Lemma P_extract b : Pl b -> Pi (IExtract b).
Proof.
  intros [Hp Hd]. split.
  - intros e s HPI HB HAV HANC Hr. eqs.
    set (s0 := up_cdicts (cons (hd_error (e_anc e), next s)) s).
    assert (E0 : tabs_eq s s0) by apply tabs_eq_up_cdicts.
    destruct (Hp e s0) as [res [s1 [Hrun [A [K [Cc Q]]]]]].
    { eapply tabs_eq_PI; eauto. } { eapply tabs_eq_below; eauto. }
    { intros P HP. destruct (HAV P HP) as [a [Ha Hb]]. exists a. split; [exact Ha | exact Hb]. }
    { intros a Ha. apply (HANC a Ha). }
    { exact Hr. }
    destruct (with_cd_run (hd_error (e_anc e)) (prep_items C um e b) s res s1 Hrun K) as [Hw Kw].
    exists res, (up_cdicts (rem1_tok (next s)) s1). split; [exact Hw|].
    split; [eapply step_tabs_eq; [apply tabs_eq_sym; exact E0 | apply tabs_eq_up_cdicts | exact A]|].
    split; [exact Kw|]. split; [exact Cc|].
    intros infos Hi. destruct (Q infos Hi) as [Hl [Hnd Hall]]. split; [exact Hl|]. split; [exact Hnd|].
    rewrite Forall_forall in *. intros inf Hin. destruct (Hall inf Hin) as [Hge Hg]. split; [exact Hge|].
    intros r Hr'. specialize (Hg r Hr'). destruct Hg as [G1 G2 G3 G4 G5]. constructor; assumption.
  - exact Hd.
Qed.

Lemma P_comp isroot rootel up mask c : Pc c -> Pi (IComp isroot rootel up mask c).
Proof.
  destruct c as [name np body]. intros [Hp Hd]. split.
  - intros e s HPI HB HAV HANC Hr. eqs.
    set (vis := select mask (e_avail e)).
    assert (Hvis : forall P, In P vis -> In P (e_avail e)) by (intros P HP; eapply select_In; exact HP).
    assert (Hroot_case : forall owner,
      isroot || istop e = true ->
      exists res s', (root_core C um owner vis name np (fun e' => prep_items C um e' body)
                        (fun e' p infos => defer_items C um e' p body infos);; ret []) s = (res, s') /\
        step (eroot e) NoR s s' /\ stk s s' /\ ctl (sp_prep_item um (istop e) (IComp isroot rootel up mask (Comp name np body)) (fault s)) res s' /\
        forall infos : list info, res = Val infos ->
          length infos = nk_item (istop e) (IComp isroot rootel up mask (Comp name np body)) /\ NoDup (map i_id infos) /\
          Forall (fun inf => next s <= i_id inf /\ forall r, eroot e = Some r -> good_info r s' inf) infos).
    { intros owner Hb. eqs. rewrite Hb.
      destruct (root_core_spec um (eroot e) _ _ _ _ _ _ owner vis name np s Hp Hd eq_refl HPI HB)
        as [res [s1 [Hrun [A [K Cc]]]]].
      { intros P HP. apply HAV. apply Hvis. exact HP. }
      match type of Cc with ctl ?sp _ _ => destruct sp as [k|ex] end; cbn [ctl] in Cc.
      - destruct Cc as [[[] Ha] Hf]. subst res. rewrite (bind_val _ _ s tt s1 Hrun).
        exists (Val []), s1. split; [reflexivity|]. split; [exact A|]. split; [exact K|].
        cbn [ctl]. split; [split; [eauto | exact Hf]|].
        intros infos Hi. inversion Hi; subst infos. splits; [reflexivity | constructor | constructor].
      - destruct Cc as [Ha Hf]. subst res. rewrite (bind_exn _ _ s ex s1 Hrun).
        exists (Exn ex), s1. split; [reflexivity|]. split; [exact A|]. split; [exact K|].
        cbn [ctl]. split; [split; [reflexivity | exact Hf]|]. intros infos Hi. discriminate Hi. }
    destruct isroot.
    + apply Hroot_case. reflexivity.
    + destruct (e_anc e) as [|a anc] eqn:Eanc.
      * apply Hroot_case. unfold istop. rewrite Eanc. reflexivity.
      * assert (Hist : istop e = false) by (unfold istop; rewrite Eanc; reflexivity).
        assert (Hero : eroot e = Some (e_root e)) by (unfold eroot; rewrite Eanc; reflexivity).
        eqs. rewrite Hist. cbn [orb].
        destruct (child_prep_spec um e rootel up vis name np s HPI HB) as [res [s1 [Hrun [A [K [Cc Q]]]]]].
        { rewrite Eanc. discriminate. }
        { rewrite Eanc. exact HANC. }
        { apply Hr. exact Hero. }
        { exact Hvis. }
        { exact HAV. }
        exists res, s1. split; [exact Hrun|]. rewrite Hero. split; [exact A|]. split; [exact K|]. split; [exact Cc|].
        intros infos Hi. destruct (Q infos Hi) as [inf [-> [Hid Hg]]].
        splits; [reflexivity | constructor; [intros [] | constructor] |].
        constructor; [| constructor]. split; [rewrite Hid; apply N.le_refl|].
        intros r Hr'. inversion Hr'; subst r. exact Hg.
  - intros e path infos s HPI HB Hanc HANC Hroot Hgood Hnd Hlen Hdisj. eqs.
    destruct isroot.
    + cbn [orb] in *. exists (Val infos), s. split; [reflexivity|]. split; [apply step_refl; assumption|].
      split; [apply stk_refl|]. cbn [ctl]. split; [split; [eauto | reflexivity]|].
      intros rest Hi. inversion Hi; subst rest. exists []. splits; auto.
    + cbn [orb] in *. destruct (e_anc e) as [|a anc] eqn:Eanc; [contradiction Hanc; reflexivity|].
      destruct infos as [|inf rest]; [cbn in Hlen; lia|].
      inversion Hgood as [|? ? Hg Hgr]; subst. cbn [map] in Hnd. inversion Hnd as [|? ? Hnin Hndr]; subst.
      destruct (deferred_core_spec um _ _ _ _ _ _ (a :: anc) (e_root e) path name inf s Hp Hd eq_refl HPI HB)
        as [res [s1 [Hrun [A [K Cc]]]]].
      { exact HANC. }
      { exact Hroot. }
      { exact Hg. }
      { intro Hin. apply (Hdisj _ Hin). left. reflexivity. }
      assert (A' : step (Some (e_root e)) (fun x => In x (map i_id (inf :: rest))) s s1).
      { eapply step_weaken; [| exact A]. intros x ->. left. reflexivity. }
      match type of Cc with ctl ?sp _ _ => destruct sp as [k|ex] end; cbn [ctl] in Cc.
      * destruct Cc as [[[] Ha] Hf]. subst res. rewrite (bind_val _ _ s tt s1 Hrun).
        exists (Val rest), s1. split; [reflexivity|]. split; [exact A'|]. split; [exact K|].
        cbn [ctl]. split; [split; [eauto | exact Hf]|].
        intros rest' Hi. inversion Hi; subst rest'. exists [inf]. splits; [reflexivity | reflexivity |].
        intros x Hx t. apply (st_frozen _ _ _ _ A).
        -- apply in_map_iff in Hx. destruct Hx as [i [<- Hi']]. rewrite Forall_forall in Hgr. apply (Hgr i Hi').
        -- intro; subst x. contradiction.
      * destruct Cc as [Ha Hf]. subst res. rewrite (bind_exn _ _ s ex s1 Hrun).
        exists (Exn ex), s1. split; [reflexivity|]. split; [exact A'|]. split; [exact K|].
        cbn [ctl]. split; [split; [reflexivity | exact Hf]|]. intros rest' Hi. discriminate Hi.
Qed.

Lemma P_nil : Pl INil.
Proof.
  split.
  - intros e s HPI HB _ _ _. eqs. exists (Val []), s. split; [reflexivity|].
    split; [apply step_refl; assumption|]. split; [apply stk_refl|]. cbn [ctl]. split; [split; [eauto | reflexivity]|].
    intros infos Hi. inversion Hi; subst infos. splits; [reflexivity | constructor | constructor].
  - intros e path infos s HPI HB _ _ _ _ _ _ _. eqs. exists (Val infos), s. split; [reflexivity|].
    split; [apply step_refl; assumption|]. split; [apply stk_refl|]. cbn [ctl]. split; [split; [eauto | reflexivity]|].
    intros rest Hi. inversion Hi; subst rest. exists []. splits; auto.
Qed.

Lemma good_info_same r s s' inf :
  good_info r s inf -> next s <= next s' -> (forall t, bit t (i_id inf) s' = bit t (i_id inf) s) ->
  (forall x, mem x (aget r (cbs s)) = true -> mem x (aget r (cbs s')) = true) -> good_info r s' inf.
Proof.
  intros [G1 G2 G3 G4 G5] Hn Hb Hc. constructor.
  - lia.
  - rewrite Hb. exact G2.
  - rewrite Hb. exact G3.
  - apply Hc. exact G4.
  - intros P HP. rewrite Hb. auto.
Qed.

Lemma P_cons i r : Pi i -> Pl r -> Pl (ICons i r).
Proof.
  intros [Hpi Hdi] [Hpl Hdl]. split.
  - intros e s HPI HB HAV HANC Hroot. eqs.
    destruct (Hpi e s HPI HB HAV HANC Hroot) as [r1 [s1 [Hrun1 [A1 [K1 [C1 Q1]]]]]].
    destruct (sp_prep_item um (istop e) i (fault s)) as [k1|ex] eqn:Esp; cbn [ctl sp_bind] in *.
    2: { destruct C1 as [Hr Hf]. subst r1. rewrite (bind_exn _ _ s ex s1 Hrun1).
      exists (Exn ex), s1. split; [reflexivity|]. split; [exact A1|]. split; [exact K1|].
      split; [split; [reflexivity | exact Hf]|]. intros infos Hi. discriminate Hi. }
    destruct C1 as [[a Hr] Hf1]. subst r1. rewrite (bind_val _ _ s a s1 Hrun1).
    destruct (Q1 a eq_refl) as [Hla [Hnda Halla]].
    pose proof (st_next _ _ _ _ A1) as Hle1.
    destruct (Hpl e s1) as [r2 [s2 [Hrun2 [A2 [K2 [C2 Q2]]]]]].
    { apply A1. } { apply A1. }
    { eapply AV_step; eauto. }
    { eapply ANC_step; eauto. }
    { intros r0 Hr0. specialize (Hroot r0 Hr0). lia. }
    rewrite Hf1 in C2.
    assert (A12 : step (eroot e) NoR s s2) by (eapply step_trans0; eauto).
    assert (K12 : stk s s2) by (eapply stk_trans; eauto).
    destruct (sp_prep_items um (istop e) r k1) as [k2|ex] eqn:Esp2; cbn [ctl] in *.
    2: { destruct C2 as [Hr Hf]. subst r2. rewrite (bind_exn _ _ s1 ex s2 Hrun2).
      exists (Exn ex), s2. split; [reflexivity|]. split; [exact A12|]. split; [exact K12|].
      split; [split; [reflexivity | exact Hf]|]. intros infos Hi. discriminate Hi. }
    destruct C2 as [[b Hr] Hf2]. subst r2. rewrite (bind_val _ _ s1 b s2 Hrun2).
    destruct (Q2 b eq_refl) as [Hlb [Hndb Hallb]].
    exists (Val (a ++ b)), s2. split; [reflexivity|]. split; [exact A12|]. split; [exact K12|].
    split; [split; [eauto | exact Hf2]|].
    intros infos Hi. inversion Hi; subst infos. rewrite Forall_forall in Halla, Hallb.
    split; [rewrite app_length, Hla, Hlb; reflexivity|]. split.
    + (* ids of a precede ids of b *)
      destruct (eroot e) as [r0|] eqn:Ero.
      * rewrite map_app. apply NoDup_app_intro; [exact Hnda | exact Hndb |].
        intros x Hxa Hxb. apply in_map_iff in Hxa. destruct Hxa as [ia [<- Hia]].
        apply in_map_iff in Hxb. destruct Hxb as [ib [Heq Hib]].
        destruct (Halla ia Hia) as [_ Hga]. specialize (Hga r0 eq_refl).
        destruct (Hallb ib Hib) as [Hgeb _]. pose proof (gi_lt _ _ _ Hga). lia.
      * assert (Hist : istop e = true) by (unfold eroot, istop in *; destruct (e_anc e); [reflexivity | discriminate]).
        rewrite Hist in Hla, Hlb. destruct nk_top_zero as [Hz1 [Hz2 _]]. rewrite Hz1 in Hla. rewrite Hz2 in Hlb.
        destruct a; [| discriminate]. destruct b; [| discriminate]. constructor.
    + rewrite Forall_forall. intros inf Hin. apply in_app_or in Hin. destruct Hin as [Hin|Hin].
      * destruct (Halla inf Hin) as [Hge Hg]. split; [exact Hge|]. intros r0 Hr0.
        specialize (Hg r0 Hr0). rewrite Hr0 in A2. eapply good_info_step; [exact A2 | tauto | exact Hg].
      * destruct (Hallb inf Hin) as [Hge Hg]. split; [lia | exact Hg].
  - intros e path infos s HPI HB Hanc HANC Hroot Hgood Hnd Hlen Hdisj. eqs. rewrite nk_items_cons in Hlen.
    destruct (Hdi e path infos s HPI HB Hanc HANC Hroot Hgood Hnd) as [r1 [s1 [Hrun1 [A1 [K1 [C1 Q1]]]]]].
    { lia. } { exact Hdisj. }
    destruct (sp_defer_item um path i (fault s)) as [k1|ex] eqn:Esp; cbn [ctl sp_bind] in *.
    2: { destruct C1 as [Hr Hf]. subst r1. rewrite (bind_exn _ _ s ex s1 Hrun1).
      exists (Exn ex), s1. split; [reflexivity|]. split; [exact A1|]. split; [exact K1|].
      split; [split; [reflexivity | exact Hf]|]. intros rest Hi. discriminate Hi. }
    destruct C1 as [[rest1 Hr] Hf1]. subst r1. rewrite (bind_val _ _ s rest1 s1 Hrun1).
    destruct (Q1 rest1 eq_refl) as [used1 [Hsplit1 [Hlu1 Hfro1]]].
    pose proof (st_next _ _ _ _ A1) as Hle1.
    assert (Hsub : forall x, In x (map i_id rest1) -> In x (map i_id infos)).
    { intros x Hx. rewrite Hsplit1, map_app. apply in_or_app. right. exact Hx. }
    rewrite Forall_forall in Hgood.
    destruct (Hdl e path rest1 s1) as [r2 [s2 [Hrun2 [A2 [K2 [C2 Q2]]]]]].
    { apply A1. } { apply A1. } { exact Hanc. }
    { eapply ANC_step; [exact A1 | | exact HANC]. intros a Ha. apply Hdisj. exact Ha. }
    { lia. }
    { rewrite Forall_forall. intros inf Hin.
      assert (Hin' : In inf infos) by (rewrite Hsplit1; apply in_or_app; right; exact Hin).
      eapply good_info_same; [apply (Hgood inf Hin') | exact Hle1 | |].
      - intro t. apply Hfro1. apply in_map. exact Hin.
      - intros x Hx. eapply (st_cbs_mono _ _ _ _ A1); [reflexivity | exact Hx]. }
    { rewrite Hsplit1, map_app in Hnd. apply NoDup_app_right in Hnd. exact Hnd. }
    { rewrite Hsplit1, app_length in Hlen. lia. }
    { intros a Ha Hin. apply (Hdisj a Ha). apply Hsub. exact Hin. }
    rewrite Hf1 in C2.
    assert (A12 : step (Some (e_root e)) (fun x => In x (map i_id infos)) s s2).
    { eapply step_weaken; [| eapply step_trans; [exact A1 | exact A2]]. intros x [H|H]; [exact H | apply Hsub; exact H]. }
    assert (K12 : stk s s2) by (eapply stk_trans; eauto).
    destruct (sp_defer_items um path r k1) as [k2|ex] eqn:Esp2; cbn [ctl] in *.
    2: { destruct C2 as [Hr Hf]. subst r2. rewrite Hrun2.
      exists (Exn ex), s2. split; [reflexivity|]. split; [exact A12|]. split; [exact K12|].
      split; [split; [reflexivity | exact Hf]|]. intros rest Hi. discriminate Hi. }
    destruct C2 as [[rest2 Hr] Hf2]. subst r2. rewrite Hrun2.
    destruct (Q2 rest2 eq_refl) as [used2 [Hsplit2 [Hlu2 Hfro2]]].
    exists (Val rest2), s2. split; [reflexivity|]. split; [exact A12|]. split; [exact K12|].
    split; [split; [eauto | exact Hf2]|].
    intros rest Hi. inversion Hi; subst rest. exists (used1 ++ used2).
    split; [rewrite Hsplit1, Hsplit2, app_assoc; reflexivity|].
    split; [rewrite app_length, Hlu1, Hlu2; reflexivity|].
    intros x Hx t. rewrite Hfro2 by exact Hx. apply Hfro1. rewrite Hsplit2, map_app. apply in_or_app. right. exact Hx.
Qed.

Theorem all_ok : (forall i, Pi i) /\ (forall l, Pl l) /\ (forall c, Pc c).
Proof.
  apply tree_mutind.
  - exact P_point.
  - intros l b Hb. apply P_slot. exact Hb.
  - intros b Hb. apply P_provide. exact Hb.
  - intros b Hb. apply P_drop. exact Hb.
  - intros b Hb. apply P_extract. exact Hb.
  - intros isroot rootel up mask c Hc. apply P_comp. exact Hc.
  - exact P_nil.
  - intros i Hi r Hr. apply P_cons; assumption.
  - intros name np body Hb. exact Hb.
Qed.
End Main.
