(* Facts about the S-model (Fault/Model.v, section Spec): which fault indices raise, and what the
   exception looks like when it reaches the caller. *)
From DJC Require Import Lib.Base Fault.Model Fault.Lemmas Fault.Main.

Section SpecFacts.
Variable um : list mline.

(* ---------- counting: invocation k raises iff k is smaller than the number of callback points ---------- *)
Definition cnt (n : nat) (k : option nat) (r : sres) : Prop :=
  match k with
  | None => r = SOk None
  | Some j => if Nat.ltb j n then exists e, r = SExn e else r = SOk (Some (j - n))
  end.

Lemma cnt_zero k : cnt 0 k (SOk k).
Proof. destruct k as [j|]; cbn; [rewrite Nat.sub_0_r|]; reflexivity. Qed.
Lemma cnt_point k : cnt 1 k (sp_point um k).
Proof.
  destruct k as [[|j]|]; cbn; eauto. rewrite Nat.sub_0_r. reflexivity.
Qed.
Lemma cnt_bind n m k r f : cnt n k r -> (forall k', cnt m k' (f k')) -> cnt (n + m) k (sp_bind r f).
Proof.
  intros Hr Hf. destruct k as [j|]; cbn [cnt] in *.
  - destruct (Nat.ltb j n) eqn:E.
    + destruct Hr as [e ->]. apply Nat.ltb_lt in E.
      assert (H : Nat.ltb j (n + m) = true) by (apply Nat.ltb_lt; lia). rewrite H. cbn. eauto.
    + subst r. cbn [sp_bind]. apply Nat.ltb_ge in E. specialize (Hf (Some (j - n))). cbn [cnt] in Hf.
      destruct (Nat.ltb (j - n) m) eqn:E2.
      * apply Nat.ltb_lt in E2. assert (H : Nat.ltb j (n + m) = true) by (apply Nat.ltb_lt; lia). rewrite H. exact Hf.
      * apply Nat.ltb_ge in E2. assert (H : Nat.ltb j (n + m) = false) by (apply Nat.ltb_ge; lia). rewrite H.
        rewrite Hf. f_equal. f_equal. lia.
  - subst r. cbn [sp_bind]. apply (Hf None).
Qed.
Lemma cnt_map n k r h : cnt n k r -> cnt n k (sp_map h r).
Proof.
  intro Hr. destruct k as [j|]; cbn [cnt] in *.
  - destruct (Nat.ltb j n); [destruct Hr as [e ->]; cbn; eauto | subst r; reflexivity].
  - subst r. reflexivity.
Qed.
Lemma cnt_eq n m k r : n = m -> cnt n k r -> cnt m k r.
Proof. intros ->. auto. Qed.
Lemma cnt_points n : forall k, cnt n k (sp_points um n k).
Proof.
  induction n as [|n IH]; intro k; cbn [sp_points]; [apply cnt_zero|].
  change (cnt (1 + n) k (sp_bind (sp_point um k) (sp_points um n))).
  apply cnt_bind; [apply cnt_point | exact IH].
Qed.

Lemma cnt_all :
  (forall i, (forall top k, cnt (pp_item top i) k (sp_prep_item um top i k)) /\
             (forall p k, cnt (dp_item i) k (sp_defer_item um p i k))) /\
  (forall l, (forall top k, cnt (pp_items top l) k (sp_prep_items um top l k)) /\
             (forall p k, cnt (dp_items l) k (sp_defer_items um p l k))) /\
  (forall c, match c with Comp _ _ body =>
               (forall top k, cnt (pp_items top body) k (sp_prep_items um top body k)) /\
               (forall p k, cnt (dp_items body) k (sp_defer_items um p body k)) end).
Proof.
  apply tree_mutind.
  - split; intros; [apply cnt_point | apply cnt_zero].
  - intros l b [Hp Hd]. split; intros.
    + rewrite sp_prep_item_slot. apply cnt_map. apply Hp.
    + rewrite sp_defer_item_slot. apply Hd.
  - intros b [Hp Hd]. split; intros; [rewrite sp_prep_item_provide; apply Hp | rewrite sp_defer_item_provide; apply Hd].
  - intros b [Hp Hd]. split; intros; [rewrite sp_prep_item_drop; apply Hp | rewrite sp_defer_item_drop; apply cnt_zero].
  - intros b [Hp Hd]. split; intros; [rewrite sp_prep_item_extract; apply Hp | rewrite sp_defer_item_extract; apply Hd].
  - intros isroot rootel up mask [name np body] [Hp Hd].
    assert (Hdef : forall path k, cnt (1 + pp_items false body + dp_items body + 1) k
                     (sp_deferred um path name (sp_prep_items um false body) (fun p => sp_defer_items um p body) k)).
    { intros path k. unfold sp_deferred.
      eapply cnt_eq; [| apply cnt_bind; [apply cnt_map; apply cnt_bind; [apply cnt_point | apply Hp] |
                                         intro k'; apply cnt_bind; [apply Hd | apply cnt_point]]].
      lia. }
    split; intros.
    + rewrite sp_prep_item_comp. cbn [pp_item]. destruct (isroot || top).
      * apply cnt_map. apply cnt_bind; [apply cnt_points | apply Hdef].
      * apply cnt_map. apply cnt_points.
    + rewrite sp_defer_item_comp. cbn [dp_item]. destruct isroot; [apply cnt_zero | apply Hdef].
  - split; intros; apply cnt_zero.
  - intros i [Hpi Hdi] r [Hpr Hdr]. split; intros.
    + rewrite sp_prep_items_cons. cbn [pp_items]. apply cnt_bind; [apply Hpi | intro; apply Hpr].
    + rewrite sp_defer_items_cons. cbn [dp_items]. apply cnt_bind; [apply Hdi | intro; apply Hdr].
  - intros name np body H. exact H.
Qed.

(* ---------- the exception that comes out is the user's, annotated ---------- *)
Definition slots_only (c : list lbl) : Prop := forall x, In x c -> exists l, x = LSlot l.
Definition good_exn (e : exn) : Prop :=
  exists c m, e = EUser c m /\
    ((m = um /\ slots_only c) \/ (exists sl c0, c = sl ++ c0 /\ slots_only sl /\ m = MPrefix c0 :: um)).
Definition gd (r : sres) : Prop := match r with SOk _ => True | SExn e => good_exn e end.

Hypothesis Hum : strip_prefix um = um.     (* the user's own text has no line of the reserved prefix kind *)

Lemma gd_point k : gd (sp_point um k).
Proof.
  destruct k as [[|j]|]; cbn; auto. exists [], um. split; [reflexivity|]. left. split; [reflexivity|]. intros x [].
Qed.
Lemma gd_bind r f : gd r -> (forall k, gd (f k)) -> gd (sp_bind r f).
Proof. destruct r; cbn; auto. Qed.
Lemma gd_annotate path r : gd r -> gd (sp_map (annotate cfg_fixed path) r).
Proof.
  destruct r as [k|e]; cbn [gd sp_map]; auto. intros [c [m [-> H]]].
  exists (path ++ c), (MPrefix (path ++ c) :: um). split.
  - cbn [annotate msg_fix cfg_fixed]. f_equal. f_equal.
    destruct H as [[-> _]|[sl [c0 [_ [_ ->]]]]]; [exact Hum | reflexivity].
  - right. exists [], (path ++ c). split; [reflexivity|]. split; [intros x [] | reflexivity].
Qed.
Lemma gd_slot l r : gd r -> gd (sp_map (slot_mark l) r).
Proof.
  destruct r as [k|e]; cbn [gd sp_map]; auto. intros [c [m [-> H]]].
  exists (LSlot l :: c), m. split; [reflexivity|].
  destruct H as [[-> Hs]|[sl [c0 [-> [Hs ->]]]]].
  - left. split; [reflexivity|]. intros x [<-|Hx]; eauto.
  - right. exists (LSlot l :: sl), c0. split; [reflexivity|]. split; [| reflexivity]. intros x [<-|Hx]; eauto.
Qed.
Lemma gd_points n : forall k, gd (sp_points um n k).
Proof.
  induction n as [|n IH]; intro k; cbn [sp_points]; [exact I|].
  change (gd (sp_bind (sp_point um k) (sp_points um n))). apply gd_bind; [apply gd_point | exact IH].
Qed.

Lemma gd_all :
  (forall i, (forall top k, gd (sp_prep_item um top i k)) /\ (forall p k, gd (sp_defer_item um p i k))) /\
  (forall l, (forall top k, gd (sp_prep_items um top l k)) /\ (forall p k, gd (sp_defer_items um p l k))) /\
  (forall c, match c with Comp _ _ body =>
               (forall top k, gd (sp_prep_items um top body k)) /\ (forall p k, gd (sp_defer_items um p body k)) end).
Proof.
  apply tree_mutind.
  - split; intros; [apply gd_point | exact I].
  - intros l b [Hp Hd]. split; intros.
    + rewrite sp_prep_item_slot. apply gd_slot. apply Hp.
    + rewrite sp_defer_item_slot. apply Hd.
  - intros b [Hp Hd]. split; intros; [rewrite sp_prep_item_provide; apply Hp | rewrite sp_defer_item_provide; apply Hd].
  - intros b [Hp Hd]. split; intros; [rewrite sp_prep_item_drop; apply Hp | rewrite sp_defer_item_drop; exact I].
  - intros b [Hp Hd]. split; intros; [rewrite sp_prep_item_extract; apply Hp | rewrite sp_defer_item_extract; apply Hd].
  - intros isroot rootel up mask [name np body] [Hp Hd].
    assert (Hdef : forall path k, gd (sp_deferred um path name (sp_prep_items um false body)
                                         (fun p => sp_defer_items um p body) k)).
    { intros path k. unfold sp_deferred. apply gd_bind.
      - apply gd_annotate. apply gd_bind; [apply gd_point | apply Hp].
      - intro k'. apply gd_bind; [apply Hd | apply gd_point]. }
    split; intros.
    + rewrite sp_prep_item_comp. destruct (isroot || top); apply gd_annotate.
      * apply gd_bind; [apply gd_points | apply Hdef].
      * apply gd_points.
    + rewrite sp_defer_item_comp. destruct isroot; [exact I | apply Hdef].
  - split; intros; exact I.
  - intros i [Hpi Hdi] r [Hpr Hdr]. split; intros.
    + rewrite sp_prep_items_cons. apply gd_bind; [apply Hpi | intro; apply Hpr].
    + rewrite sp_defer_items_cons. apply gd_bind; [apply Hdi | intro; apply Hdr].
  - intros name np body H. exact H.
Qed.
End SpecFacts.
