(* Proofs for property C06 (model: Fault/Model.v).
   Fault/Lemmas.v, Inv.v, Steps.v, Combs.v, Main.v carry the induction over render trees (Main.all_ok);
   Fault/SpecProofs.v the facts about the S-model.  Here: the top-level theorems about `run` / `run_seq`
   for the repaired code (cfg_fixed), and the witnesses against the code before the repair (cfg_old). *)
From DJC Require Import Lib.Base Fault.Model Fault.Lemmas Fault.Inv Fault.Steps Fault.Combs Fault.Main Fault.SpecProofs.
Local Open Scope N_scope.

(* a state whose tables hold nothing (ids already handed out and the stacks are arbitrary) *)
Definition clean (s : st) : Prop :=
  cctx s = [] /\ rend s = [] /\ cattrs s = [] /\ pcache s = [] /\ prefs s = [] /\ allrefs s = [] /\ cbs s = [].

Lemma clean_init : clean init.
Proof. repeat split. Qed.
Lemma clean_tables_empty s : clean s -> tables_empty s = true.
Proof. intros [H1 [H2 [H3 [H4 [H5 [H6 _]]]]]]. unfold tables_empty. rewrite H1, H2, H3, H4, H5, H6. reflexivity. Qed.
Lemma clean_bits s : clean s -> forall t x, bit t x s = false.
Proof. intros [H1 [H2 [H3 [H4 [H5 [H6 H7]]]]]] t x. destruct t; cbn [bit]; rewrite ?H1, ?H2, ?H3, ?H5, ?H6; reflexivity. Qed.
Lemma clean_PI s : clean s -> PI s.
Proof.
  intros [H1 [H2 [H3 [H4 [H5 [H6 H7]]]]]]. constructor; rewrite ?H4, ?H5, ?H6.
  - constructor.
  - reflexivity.
  - intros P l Hl. discriminate Hl.
  - intros P x Hx. discriminate Hx.
Qed.
Lemma clean_below s : clean s -> below s.
Proof.
  intros Hc x _. pose proof (clean_bits s Hc) as Hb. destruct Hc as [H1 [H2 [H3 [H4 [H5 [H6 H7]]]]]].
  constructor; rewrite ?H4, ?H5, ?H7; auto.
Qed.
Lemma alookup_none_nil {V} (l : list (N * V)) : (forall k, alookup k l = None) -> l = [].
Proof.
  destruct l as [|[k v] l]; [reflexivity|]. intro H. specialize (H k). cbn in H. rewrite N.eqb_refl in H. discriminate.
Qed.

Lemma step_none_clean s s' : clean s -> step None NoR s s' -> clean s'.
Proof.
  intros Hc A. pose proof (clean_bits s Hc) as Hb.
  assert (Hb' : forall t x, bit t x s' = false).
  { intros t x. destruct (bit t x s') eqn:E; [| reflexivity]. exfalso.
    destruct (N.lt_ge_cases x (next s)) as [Hlt|Hge].
    - apply (st_shrink _ _ _ _ A x Hlt) in E. rewrite Hb in E. discriminate.
    - apply (st_logged _ _ _ _ A x Hge t E). }
  assert (Hprefs : prefs s' = []).
  { apply alookup_none_nil. intro k. destruct (alookup k (prefs s')) as [l|] eqn:E; [| reflexivity]. exfalso.
    apply (pi_nonempty s' (st_pi _ _ _ _ A) k l E). apply mem_false_nil. intro x.
    specialize (Hb' (TRef k) x). cbn [bit] in Hb'. unfold aget in Hb'. rewrite E in Hb'. exact Hb'. }
  destruct Hc as [H1 [H2 [H3 [H4 [H5 [H6 H7]]]]]].
  repeat split.
  - apply mem_false_nil. intro x. apply (Hb' TCctx x).
  - apply mem_false_nil. intro x. apply (Hb' TRend x).
  - apply mem_false_nil. intro x. apply (Hb' TCattrs x).
  - apply mem_false_nil. intro x. rewrite <- (pi_keys s' (st_pi _ _ _ _ A)), Hprefs. reflexivity.
  - exact Hprefs.
  - apply mem_false_nil. intro x. apply (Hb' TAll x).
  - apply alookup_none_nil. intro k. rewrite (st_cbs_other _ _ _ _ A k); [rewrite H7; reflexivity | discriminate].
Qed.

(* ------------------------------------------------------------------------------------------------ *)
(* One render                                                                                        *)
(* ------------------------------------------------------------------------------------------------ *)
Lemma run_main um t f s0 :
  clean s0 ->
  clean (snd (run C um t f s0)) /\
  meta (snd (run C um t f s0)) = meta s0 /\ rctx (snd (run C um t f s0)) = rctx s0 /\
  cdicts (snd (run C um t f s0)) = cdicts s0 /\
  next s0 <= next (snd (run C um t f s0)) /\
  fst (run C um t f s0) = spec_outcome um t f.
Proof.
  intro Hc. set (s := set_fault f s0).
  assert (Hcs : clean s) by exact Hc.
  destruct (all_ok um) as [_ [Hl _]]. destruct (Hl t) as [Hp _].
  destruct (Hp top_env s (clean_PI s Hcs) (clean_below s Hcs)) as [res [s' [Hrun [A [K [Cc _]]]]]].
  { intros P []. } { intros a []. } { intros r Hr. discriminate Hr. }
  cbn [eroot top_env e_anc] in A. cbv beta in Cc. cbn [istop top_env e_anc] in Cc.
  assert (Hf : fault s = f) by reflexivity. rewrite Hf in Cc.
  pose proof (step_none_clean s s' Hcs A) as Hc'.
  unfold run, spec_outcome. fold s. rewrite Hrun.
  destruct K as [K1 [K2 K3]]. pose proof (st_next _ _ _ _ A) as Hn.
  destruct (sp_prep_items um true t f) as [k|e]; cbn [ctl] in Cc.
  - destruct Cc as [[a ->] _]. cbn [fst snd]. repeat split; try apply Hc'; auto.
  - destruct Cc as [-> _]. destruct e as [c m|k]; cbn [fst snd]; repeat split; try apply Hc'; auto.
Qed.

Lemma tables_empty_lemma um t f : tables_empty (snd (run C um t f init)) = true.
Proof. apply clean_tables_empty. apply (run_main um t f init clean_init). Qed.

Lemma tables_empty_from_clean_lemma um t f s0 : clean s0 -> clean (snd (run C um t f s0)).
Proof. intro H. apply (run_main um t f s0 H). Qed.

Lemma stacks_restored_lemma um t f s0 :
  clean s0 -> meta (snd (run C um t f s0)) = meta s0 /\ rctx (snd (run C um t f s0)) = rctx s0 /\
              cdicts (snd (run C um t f s0)) = cdicts s0.
Proof. intro H. destruct (run_main um t f s0 H) as [_ [H1 [H2 [H3 _]]]]. repeat split; assumption. Qed.

Lemma stacks_empty_lemma um t f : stacks_empty (snd (run C um t f init)) = true.
Proof.
  destruct (stacks_restored_lemma um t f init clean_init) as [H1 [H2 H3]]. unfold stacks_empty. rewrite H1, H2, H3. reflexivity.
Qed.

Lemma outcome_is_spec_lemma um t f s0 : clean s0 -> fst (run C um t f s0) = spec_outcome um t f.
Proof. intro H. apply (run_main um t f s0 H). Qed.

(* the outcome prescribed by the S-model: the user's exception, exactly for the fault indices below the
   number of callback invocations; its message is the prefix line followed by the original text *)
Lemma spec_outcome_lemma um t f :
  strip_prefix um = um ->
  match spec_outcome um t f with
  | OOk => f = None \/ exists k, f = Some k /\ (npoints t <= k)%nat
  | OUser c m => (exists k, f = Some k /\ (k < npoints t)%nat) /\
                 ((m = um /\ slots_only c) \/
                  (exists sl c0, c = sl ++ c0 /\ slots_only sl /\ m = MPrefix c0 :: um))
  | OInternal _ => False
  end.
Proof.
  intro Hum. unfold spec_outcome.
  destruct (cnt_all um) as [_ [Hc _]]. destruct (Hc t) as [Hcp _]. specialize (Hcp true f).
  destruct (gd_all um Hum) as [_ [Hg _]]. destruct (Hg t) as [Hgp _]. specialize (Hgp true f).
  fold (npoints t) in Hcp.
  destruct (sp_prep_items um true t f) as [k'|e].
  - destruct f as [k|]; [| left; reflexivity]. right. exists k. split; [reflexivity|].
    cbn [cnt] in Hcp. destruct (Nat.ltb k (npoints t)) eqn:E; [destruct Hcp as [e He]; discriminate He|].
    apply Nat.ltb_ge in E. exact E.
  - cbn [gd] in Hgp. destruct Hgp as [c [m [-> Hm]]]. split; [| exact Hm].
    destruct f as [k|]; cbn [cnt] in Hcp; [| discriminate Hcp]. exists k. split; [reflexivity|].
    destruct (Nat.ltb k (npoints t)) eqn:E; [apply Nat.ltb_lt in E; exact E | discriminate Hcp].
Qed.

Lemma exception_class_preserved_lemma um t f :
  strip_prefix um = um ->
  match fst (run C um t f init) with
  | OOk => f = None \/ exists k, f = Some k /\ (npoints t <= k)%nat
  | OUser c m => (exists k, f = Some k /\ (k < npoints t)%nat) /\
                 ((m = um /\ slots_only c) \/
                  (exists sl c0, c = sl ++ c0 /\ slots_only sl /\ m = MPrefix c0 :: um))
  | OInternal _ => False
  end.
Proof. intro Hum. rewrite (outcome_is_spec_lemma um t f init clean_init). apply spec_outcome_lemma. exact Hum. Qed.

(* whatever was rendered before (and however it ended), a render behaves as from the empty state *)
Lemma later_render_unaffected_lemma um0 t0 f0 um t f :
  let s1 := snd (run C um0 t0 f0 init) in
  fst (run C um t f s1) = fst (run C um t f init) /\ tables_empty (snd (run C um t f s1)) = true.
Proof.
  intro s1. assert (Hc : clean s1) by (apply (run_main um0 t0 f0 init clean_init)).
  split.
  - rewrite (outcome_is_spec_lemma um t f s1 Hc), (outcome_is_spec_lemma um t f init clean_init). reflexivity.
  - apply clean_tables_empty. apply (run_main um t f s1 Hc).
Qed.

(* ------------------------------------------------------------------------------------------------ *)
(* Histories                                                                                         *)
(* ------------------------------------------------------------------------------------------------ *)
Lemma run_seq_lemma um : forall h s0,
  clean s0 ->
  fst (run_seq C um h s0) = map (fun tf => spec_outcome um (fst tf) (snd tf)) h /\
  clean (snd (run_seq C um h s0)) /\
  meta (snd (run_seq C um h s0)) = meta s0 /\ rctx (snd (run_seq C um h s0)) = rctx s0 /\
  cdicts (snd (run_seq C um h s0)) = cdicts s0.
Proof.
  induction h as [|[t f] h IH]; intros s0 Hc; cbn [run_seq map fst snd].
  - splits; auto.
  - destruct (run_main um t f s0 Hc) as [Hc1 [Hm1 [Hr1 [Hd1 [_ Ho]]]]].
    destruct (run C um t f s0) as [o s1] eqn:Er. cbn [fst snd] in *.
    destruct (IH s1 Hc1) as [Ho2 [Hc2 [Hm2 [Hr2 Hd2]]]].
    destruct (run_seq C um h s1) as [os s2]. cbn [fst snd] in *.
    splits; [congruence | exact Hc2 | congruence | congruence | congruence].
Qed.

Lemma history_lemma um h :
  fst (run_seq C um h init) = map (fun tf => fst (run C um (fst tf) (snd tf) init)) h /\
  tables_empty (snd (run_seq C um h init)) = true /\ stacks_empty (snd (run_seq C um h init)) = true.
Proof.
  destruct (run_seq_lemma um h init clean_init) as [Ho [Hc [Hm [Hr Hd]]]]. split; [| split].
  - rewrite Ho. apply map_ext. intros [t f]. cbn [fst snd]. symmetry. apply outcome_is_spec_lemma. exact clean_init.
  - apply clean_tables_empty. exact Hc.
  - unfold stacks_empty. rewrite Hm, Hr, Hd. reflexivity.
Qed.

Local Close Scope N_scope.
(* ------------------------------------------------------------------------------------------------ *)
(* Witnesses against the code before the C06 repair (cfg_old), closed by computation.                 *)
(* They are replayed on the implementation from corpus/C06/*.json.                                    *)
(* ------------------------------------------------------------------------------------------------ *)
Local Open Scope items_scope.

(* W1: one top-level component; its get_context_data raises *)
Definition w1 : items := [: IComp true false 0 [] (Comp 0 1 INil) :].
(* W2: a root rendering three children inside a provide body; the second child's get_context_data raises *)
Definition w2_leaf (m : list bool) : item := IComp false true 0 m (Comp 1 2 INil).
Definition w2 : items :=
  [: IComp true false 0 [] (Comp 0 1 [: IProvide [: w2_leaf [true] ; w2_leaf [true] ; w2_leaf [true] :] ; IPoint :]) :].
(* W4: the output of a region containing a nested component is thrown away; nothing raises *)
Definition w4 : items :=
  [: IComp true false 0 [] (Comp 0 1 [: IDrop [: w2_leaf [] :] ; w2_leaf [] :]) :].

Lemma old_tables_refuted_lemma :
  exists t f, f < npoints t /\ tables_empty (snd (run cfg_old [MUser 0] t (Some f) init)) = false.
Proof. exists w2, 5. split; [vm_compute; lia | vm_compute; reflexivity]. Qed.

Lemma old_stacks_refuted_lemma :
  exists t f, f < npoints t /\ stacks_empty (snd (run cfg_old [MUser 0] t (Some f) init)) = false.
Proof. exists w1, 0. split; [vm_compute; lia | vm_compute; reflexivity]. Qed.

Lemma old_finished_render_refuted_lemma :
  exists t, fst (run cfg_old [MUser 0] t None init) = OOk /\
            tables_empty (snd (run cfg_old [MUser 0] t None init)) = false.
Proof. exists w4. split; vm_compute; reflexivity. Qed.

(* the first line of a two-line user message is lost *)
Lemma old_message_refuted_lemma :
  exists t f, fst (run cfg_old [MUser 0; MUser 1] t (Some f) init)
              = OUser [LName 0] [MPrefix [LName 0]; MUser 1].
Proof. exists w1, 0. vm_compute. reflexivity. Qed.

(* the same witnesses under the repaired code *)
Example fixed_on_witnesses :
  forallb (fun tf => let r := run cfg_fixed [MUser 0; MUser 1] (fst tf) (snd tf) init in
                     tables_empty (snd r) && stacks_empty (snd r))
          [(w1, Some 0); (w1, Some 1); (w2, Some 5); (w2, Some 8); (w2, None); (w4, None); (w4, Some 3)] = true.
Proof. vm_compute. reflexivity. Qed.
