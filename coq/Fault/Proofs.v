(* Proofs for property C06 (model: Fault/Model.v). *)
From DJC Require Import Lib.Base Fault.Model.

(* ------------------------------------------------------------------------------------------------ *)
(* Witnesses against the code before the C06 repair (cfg_old), closed by computation.                 *)
(* They are replayed on the implementation from corpus/C06/*.json.                                    *)
(* ------------------------------------------------------------------------------------------------ *)
Local Open Scope items_scope.

(* W1: one top-level component; its get_context_data raises *)
Definition w1 : items := [: IComp true false 0 [] (Comp 0 1 INil) :].
(* W2: a root rendering three children inside a provide body; the second child's get_context_data raises *)
Definition w2_leaf (m : list bool) : item := IComp false true 0 m (Comp 1 2 INil).
Definition w2 : items :=
  [: IComp true false 0 [] (Comp 0 1 [: IProvide [: w2_leaf [true] ; w2_leaf [true] ; w2_leaf [true] :] ; IPoint :]) :].
(* W4: the output of a region containing a nested component is thrown away; nothing raises *)
Definition w4 : items :=
  [: IComp true false 0 [] (Comp 0 1 [: IDrop [: w2_leaf [] :] ; w2_leaf [] :]) :].

Lemma old_tables_refuted_lemma :
  exists t f, f < npoints t /\ tables_empty (snd (run cfg_old [MUser 0] t (Some f) init)) = false.
Proof. exists w2, 5. split; [vm_compute; lia | vm_compute; reflexivity]. Qed.

Lemma old_stacks_refuted_lemma :
  exists t f, f < npoints t /\ stacks_empty (snd (run cfg_old [MUser 0] t (Some f) init)) = false.
Proof. exists w1, 0. split; [vm_compute; lia | vm_compute; reflexivity]. Qed.

Lemma old_finished_render_refuted_lemma :
  exists t, fst (run cfg_old [MUser 0] t None init) = OOk /\
            tables_empty (snd (run cfg_old [MUser 0] t None init)) = false.
Proof. exists w4. split; vm_compute; reflexivity. Qed.

(* the first line of a two-line user message is lost *)
Lemma old_message_refuted_lemma :
  exists t f, fst (run cfg_old [MUser 0; MUser 1] t (Some f) init)
              = OUser [LName 0] [MPrefix [LName 0]; MUser 1].
Proof. exists w1, 0. vm_compute. reflexivity. Qed.

(* the same witnesses under the repaired code *)
Example fixed_on_witnesses :
  forallb (fun tf => let r := run cfg_fixed [MUser 0; MUser 1] (fst tf) (snd tf) init in
                     tables_empty (snd r) && stacks_empty (snd r))
          [(w1, Some 0); (w1, Some 1); (w2, Some 5); (w2, Some 8); (w2, None); (w4, None); (w4, Some 3)] = true.
Proof. vm_compute. reflexivity. Qed.
