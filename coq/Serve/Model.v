(* Model of the component-media cache and its URL endpoint (property C19).

   Source modelled (django_components, M-model = transliteration):
     dependencies.py  _gen_cache_key, _is_script_in_cache, _cache_script, cache_component_js/css,
                      cache_component_js_vars/css_vars, _process_dep_declarations (the part that decides
                      which endpoint URLs are announced), _prepare_tags_and_urls, get_script_tag,
                      get_script_url, cached_script_view, _get_content_types, urlpatterns
     urls.py          the mount point "components/"
     component.py     _render_impl lines "Process Component's JS and CSS" (caching happens on every render,
                      before anything is emitted)
     util/misc.py     is_nonempty_str
   The media cache is the default LocMemCache without timeout / size limit: a dictionary that loses entries
   only through delete()/clear().  The state of the model is that dictionary; the class table
   (comp_hash_mapping) is a static parameter.  Definitions only - proofs are in Serve/Proofs.v. *)
From DJC Require Import Lib.Base.
From Coq Require Strings.String.
Import Coq.Strings.String.StringSyntax.

(* string literals *)
Local Open Scope string_scope.
Definition L_components_cache : str := Eval compute in s2n "/components/cache/".
Definition L_script : str := Eval compute in s2n "</script".
Definition L_style : str := Eval compute in s2n "</style".
Definition L_GET : str := Eval compute in s2n "GET".
Definition L_components : str := Eval compute in s2n "__components:".
Definition L_css : str := Eval compute in s2n "css".
Definition L_js : str := Eval compute in s2n "js".
Definition L_text_css : str := Eval compute in s2n "text/css".
Definition L_text_javascript : str := Eval compute in s2n "text/javascript".
Local Close Scope string_scope.

Definition colon : N := 58%N.
Definition dot : N := 46%N.
Definition slash : N := 47%N.

(* ---------- Python str.isspace / str.strip ---------- *)
Definition py_isspace (c : N) : bool :=
  ((9 <=? c) && (c <=? 13) || (28 <=? c) && (c <=? 32) || (c =? 133) || (c =? 160) || (c =? 5760)
   || (8192 <=? c) && (c <=? 8202) || (c =? 8232) || (c =? 8233) || (c =? 8239) || (c =? 8287)
   || (c =? 12288))%N.

Fixpoint lstrip (s : str) : str :=
  match s with
  | [] => []
  | c :: r => if py_isspace c then lstrip r else s
  end.
Definition strip (s : str) : str := rev (lstrip (rev (lstrip s))).

Definition is_nil {A} (l : list A) : bool := match l with [] => true | _ => false end.

(* util/misc.py is_nonempty_str : `txt is not None and bool(txt.strip())` *)
Definition nonempty_code (o : option str) : bool :=
  match o with None => false | Some s => negb (is_nil (strip s)) end.

(* ---------- the cache: a dictionary str -> str ---------- *)
Notation cache := (list (str * str)) (only parsing).

Fixpoint cget (k : str) (c : cache) : option str :=
  match c with
  | [] => None
  | (k', v) :: r => if str_eqb k k' then Some v else cget k r
  end.
Definition chas (k : str) (c : cache) : bool := match cget k c with Some _ => true | None => false end.
Fixpoint cdel (k : str) (c : cache) : cache :=
  match c with
  | [] => []
  | (k', v) :: r => if str_eqb k k' then cdel k r else (k', v) :: cdel k r
  end.
Definition cset (k v : str) (c : cache) : cache := (k, v) :: cdel k c.

(* ---------- component classes ---------- *)
Inductive kind := KJs | KCss.
Definition kstr (k : kind) : str := match k with KJs => L_js | KCss => L_css end.
Definition ctype (k : kind) : str :=
  match k with KJs => L_text_javascript | KCss => L_text_css end.

(* chash = Component._class_hash, cjs/ccss = Component.js / Component.css *)
Record cdef := { chash : str; cjs : option str; ccss : option str }.
Definition code (c : cdef) (k : kind) : option str := match k with KJs => cjs c | KCss => ccss c end.
Definition stripped (c : cdef) (k : kind) : str :=
  match code c k with Some s => strip s | None => [] end.

Notation ctable := (list cdef) (only parsing).

(* comp_hash_mapping.get(h) *)
Fixpoint find_cls (tbl : ctable) (h : str) : option cdef :=
  match tbl with
  | [] => None
  | c :: r => if str_eqb h (chash c) then Some c else find_cls r h
  end.

(* ---------- cache keys and URLs ---------- *)
Definition key_prefix : str := L_components.

(* _gen_cache_key: `if input_hash:` - None and "" both give the short form *)
Definition gen_cache_key (h k : str) (ih : option str) : str :=
  match ih with
  | Some (x :: i) => key_prefix ++ h ++ colon :: k ++ colon :: x :: i
  | _ => key_prefix ++ h ++ colon :: k
  end.

Definition url_prefix : str := L_components_cache.

(* get_script_url = reverse("components_cached_script", kwargs) up to percent-encoding: this is the path
   the server sees (PATH_INFO) when the emitted URL is requested *)
Definition url (h : str) (k : kind) (ih : option str) : str :=
  match ih with
  | Some i => url_prefix ++ h ++ dot :: i ++ dot :: kstr k
  | None => url_prefix ++ h ++ dot :: kstr k
  end.

(* ---------- rendering: the caching half (component.py:1093-1097) ---------- *)
(* one rendered component instance: its class, and the input hashes of non-empty get_js_data() /
   get_css_data() results (None = the hook is absent or returned {}) *)
Notation inst := (cdef * option str * option str)%type (only parsing).
(* what the `<!-- _RENDERED hash,id,js,css -->` marker of the instance says *)
Notation part := (str * option str * option str)%type (only parsing).

(* cache_component_js / cache_component_css *)
Definition cache_component (c : cdef) (k : kind) (ch : cache) : cache :=
  let key := gen_cache_key (chash c) (kstr k) None in
  if nonempty_code (code c k) && negb (chas key ch) then cset key (stripped c k) ch else ch.

(* `cache_component_js_vars(cls, js_data) if js_data else None`: the cache effect (the returned input hash
   is `part_of` below - it does not depend on the cache) *)
Definition cache_vars (c : cdef) (k : kind) (d : option str) (ch : cache) : cache :=
  match d with
  | None => ch
  | Some ih =>
      if nonempty_code (code c k) then
        let key := gen_cache_key (chash c) (kstr k) (Some ih) in
        if chas key ch then ch else cset key [] ch
      else ch
  end.

Definition body_inst (i : inst) (ch : cache) : cache :=
  let '(c, jd, cd) := i in
  cache_vars c KCss cd (cache_component c KCss (cache_vars c KJs jd (cache_component c KJs ch))).

Definition body (insts : list inst) (ch : cache) : cache := fold_left (fun a i => body_inst i a) insts ch.

(* The marker of an instance: class hash, and each input hash iff the class has that kind of code.
   (`js_input_hash or ''` and, on the reading side, `group("js") or None`.) *)
Definition norm_ih (o : option str) : option str :=
  match o with Some (x :: i) => Some (x :: i) | _ => None end.
Definition part_of (i : inst) : part :=
  let '(c, jd, cd) := i in
  (chash c,
   norm_ih (match jd with Some ih => if nonempty_code (cjs c) then Some ih else None | None => None end),
   norm_ih (match cd with Some ih => if nonempty_code (ccss c) then Some ih else None | None => None end)).

(* ---------- rendering: the announcing half (_process_dep_declarations) ---------- *)
Fixpoint mem_str (x : str) (l : list str) : bool :=
  match l with [] => false | y :: r => str_eqb x y || mem_str x r end.

(* `if comp_cls_hash in seen_comp_hashes: continue` *)
Fixpoint dedup_parts (seen : list str) (ps : list part) : list part :=
  match ps with
  | [] => []
  | (h, j, c) :: r => if mem_str h seen then dedup_parts seen r
                      else (h, j, c) :: dedup_parts (h :: seen) r
  end.

Notation datum := (str * kind * option str)%type (only parsing).
Definition comp_data (ps : list part) : list datum :=
  flat_map (fun p : part => let '(h, _, _) := p in [(h, KJs, None); (h, KCss, None)]) ps.
Definition inputs_data (ps : list part) : list datum :=
  flat_map (fun p : part => let '(h, j, c) := p in
     (match j with Some i => [(h, KJs, Some i)] | None => [] end) ++
     (match c with Some i => [(h, KCss, Some i)] | None => [] end)) ps.

Inductive mode := Document | Fragment.
Inductive err :=
  | EKey      (* KeyError: comp_hash_mapping[hash] of a marker naming no live class *)
  | EMissing  (* RuntimeError "Could not find JS/CSS for component" (get_script_tag, document mode) *)
  | EWrap.    (* RuntimeError "contains '</script>' end tag" (wrap_component_js/css, document mode) *)

Definition lower_ascii (c : N) : N := if ((65 <=? c) && (c <=? 90))%N then (c + 32)%N else c.
Definition end_tag (k : kind) : str := match k with KJs => L_script | KCss => L_style end.
Definition has_end_tag (k : kind) (s : str) : bool := contains (end_tag k) (map lower_ascii s).

(* _prepare_tags_and_urls: the endpoint URLs announced for the data rows (loaded_* in document mode,
   to_load_* in fragment mode), or the first exception *)
Fixpoint prepare (tbl : ctable) (ch : cache) (m : mode) (data : list datum)
  : err + list (kind * str) :=
  match data with
  | [] => inr []
  | (h, k, ih) :: r =>
      match find_cls tbl h with
      | None => inl EKey
      | Some c =>
          if nonempty_code (code c k) then
            match m with
            | Document =>
                match cget (gen_cache_key (chash c) (kstr k) ih) ch with
                | None => inl EMissing
                | Some s =>
                    if has_end_tag k s then inl EWrap
                    else match prepare tbl ch m r with
                         | inl e => inl e
                         | inr us => inr ((k, url (chash c) k ih) :: us)
                         end
                end
            | Fragment =>
                match prepare tbl ch m r with
                | inl e => inl e
                | inr us => inr ((k, url (chash c) k ih) :: us)
                end
            end
          else prepare tbl ch m r
      end
  end.

Definition is_js (k : kind) : bool := match k with KJs => true | KCss => false end.
Definition urls_of (k : kind) (us : list (kind * str)) : list str :=
  map snd (filter (fun p => Bool.eqb (is_js (fst p)) (is_js k)) us).

Inductive resp :=
  | R200 (body ctype : str)
  | R404
  | R405
  | R500.    (* server error; the current view never answers it (it did before fix 85ec7c6) *)

Inductive out :=
  | OutUnit
  | OutUrls (js css : list str)     (* endpoint URLs announced: component URLs then input URLs *)
  | OutErr (e : err)
  | OutResp (r : resp)
  | OutOther (n : N).   (* never produced by the model: an observation outside the model's vocabulary *)

(* render_dependencies(html, type) for html carrying the markers `ps` *)
Definition deps (tbl : ctable) (ch : cache) (m : mode) (ps : list part) : out :=
  let ps' := dedup_parts [] ps in
  match prepare tbl ch m (inputs_data ps') with
  | inl e => OutErr e
  | inr ui =>
      match prepare tbl ch m (comp_data ps') with
      | inl e => OutErr e
      | inr uc => OutUrls (urls_of KJs uc ++ urls_of KJs ui) (urls_of KCss uc ++ urls_of KCss ui)
      end
  end.

(* ---------- the endpoint ---------- *)
(* All ways of writing s = a ++ "." ++ b with a, b non-empty, longest a first: the order in which a
   backtracking matcher tries `(?P<a>[^/]+)\.(?P<b>[^/]+)\Z` on a string without "/". *)
Fixpoint splits_dot (s : str) : list (str * str) :=
  match s with
  | [] => []
  | c :: r =>
      map (fun p => (c :: fst p, snd p)) (splits_dot r) ++
      match r with
      | d :: (_ :: _) as b => if N.eqb d dot then [([c], b)] else []
      | _ => []
      end
  end.

(* route "cache/<str:comp_cls_hash>.<str:script_type>" *)
Definition match2 (s : str) : option (str * str) :=
  match splits_dot s with [] => None | p :: _ => Some p end.

(* route "cache/<str:comp_cls_hash>.<str:input_hash>.<str:script_type>" *)
Fixpoint first_match3 (l : list (str * str)) : option (str * str * str) :=
  match l with
  | [] => None
  | (h, rest) :: r =>
      match match2 rest with
      | Some (i, t) => Some (h, i, t)
      | None => first_match3 r
      end
  end.
Definition match3 (s : str) : option (str * str * str) := first_match3 (splits_dot s).

Fixpoint strip_prefix (p s : str) : option str :=
  match p, s with
  | [], _ => Some s
  | x :: p', y :: s' => if N.eqb x y then strip_prefix p' s' else None
  | _ :: _, [] => None
  end.

(* URL resolution of PATH_INFO: (comp_cls_hash, script_type, input_hash) of the first matching route *)
Definition route (p : str) : option (str * str * option str) :=
  match strip_prefix url_prefix p with
  | None => None
  | Some s =>
      if existsb (N.eqb slash) s then None
      else match match3 s with
           | Some (h, i, t) => Some (h, t, Some i)
           | None => match match2 s with
                     | Some (h, t) => Some (h, t, None)
                     | None => None
                     end
           end
  end.

(* _CONTENT_TYPES.get *)
Definition content_type (k : str) : option str :=
  if str_eqb k (kstr KJs) then Some (ctype KJs)
  else if str_eqb k (kstr KCss) then Some (ctype KCss) else None.

Definition GET : str := L_GET.

(* URL resolver + cached_script_view (after fix 85ec7c6: the kind is validated before anything is looked up) *)
Definition serve (tbl : ctable) (ch : cache) (meth path : str) : resp :=
  match route path with
  | None => R404
  | Some (h, k, ih) =>
      if negb (str_eqb meth GET) then R405
      else match content_type k with
           | None => R404
           | Some ct =>
               match find_cls tbl h with
               | None => R404
               | Some c =>
                   match cget (gen_cache_key (chash c) k ih) ch with
                   | None => R404
                   | Some s => R200 s ct
                   end
               end
           end
  end.

(* The view as it was before fix 85ec7c6 (kept only to document the defect, see Serve/Proofs.v
   `before_fix_server_error`): the kind went into the cache key unvalidated, and the content-type lookup of
   an unknown kind raised ValueError (= R500) when the key happened to exist. *)
Definition serve_before_fix (tbl : ctable) (ch : cache) (meth path : str) : resp :=
  match route path with
  | None => R404
  | Some (h, k, ih) =>
      if negb (str_eqb meth GET) then R405
      else match find_cls tbl h with
           | None => R404
           | Some c =>
               match cget (gen_cache_key (chash c) k ih) ch with
               | None => R404
               | Some s => match content_type k with
                           | None => R500
                           | Some ct => R200 s ct
                           end
               end
           end
  end.

(* ---------- histories ---------- *)
Inductive op :=
  | OBody (insts : list inst)              (* components rendered, dependencies not yet processed *)
  | ODeps (m : mode) (insts : list inst)   (* render_dependencies over html carrying these markers *)
  | ORender (m : mode) (insts : list inst) (* Component.render(type=m): both, atomically *)
  | OEvict (key : str)                     (* cache.delete(key) *)
  | OClear                                 (* cache.clear() *)
  | OGet (meth path : str).                (* request to the endpoint *)

Definition step (tbl : ctable) (ch : cache) (o : op) : cache * out :=
  match o with
  | OBody insts => (body insts ch, OutUnit)
  | ODeps m insts => (ch, deps tbl ch m (map part_of insts))
  | ORender m insts => let ch' := body insts ch in (ch', deps tbl ch' m (map part_of insts))
  | OEvict k => (cdel k ch, OutUnit)
  | OClear => ([], OutUnit)
  | OGet meth path => (ch, OutResp (serve tbl ch meth path))
  end.

Fixpoint run (tbl : ctable) (ch : cache) (ops : list op) : cache * list out :=
  match ops with
  | [] => (ch, [])
  | o :: r => let '(ch1, x) := step tbl ch o in
              let '(ch2, xs) := run tbl ch1 r in (ch2, x :: xs)
  end.
Definition final (tbl : ctable) (ch : cache) (ops : list op) : cache := fst (run tbl ch ops).

(* ---------- correspondence ---------- *)
Fixpoint str_leb (a b : str) : bool :=
  match a, b with
  | [], _ => true
  | _ :: _, [] => false
  | x :: a', y :: b' => if N.ltb x y then true else if N.ltb y x then false else str_leb a' b'
  end.
Fixpoint insert_str (x : str) (l : list str) : list str :=
  match l with
  | [] => [x]
  | y :: r => if str_leb x y then x :: l else y :: insert_str x r
  end.
Definition sort_strs (l : list str) : list str := fold_right insert_str [] l.

Definition err_class (e : err) : N := match e with EKey => 0%N | EMissing | EWrap => 1%N end.

Definition resp_eqb (a b : resp) : bool :=
  match a, b with
  | R200 x c, R200 y d => str_eqb x y && str_eqb c d
  | R404, R404 | R405, R405 | R500, R500 => true
  | _, _ => false
  end.

(* observed URL lists are compared as multisets (the harness sends them sorted by code point);
   exceptions by their class *)
Definition out_eqb (model obs : out) : bool :=
  match model, obs with
  | OutUnit, OutUnit => true
  | OutUrls j c, OutUrls j' c' =>
      list_eqb str_eqb (sort_strs j) j' && list_eqb str_eqb (sort_strs c) c'
  | OutErr e, OutErr e' => N.eqb (err_class e) (err_class e')
  | OutResp r, OutResp r' => resp_eqb r r'
  | _, _ => false
  end.

(* case = (class table, history, outputs observed on the implementation, cache keys at the end sorted) *)
Definition hist_case := (list cdef * list op * list out * list str)%type.
Definition check_hist (c : hist_case) : bool :=
  let '(tbl, ops, outs, keys) := c in
  let '(ch, outs') := run tbl [] ops in
  list_eqb out_eqb outs' outs && list_eqb str_eqb (sort_strs (map fst ch)) keys.

(* case = (PATH_INFO, what django.urls.resolve returned: kwargs or Resolver404) *)
Definition route_case := (str * option (str * str * option str))%type.
Definition route_res_eqb (a b : option (str * str * option str)) : bool :=
  option_eqb (fun x y => str_eqb (fst (fst x)) (fst (fst y)) && str_eqb (snd (fst x)) (snd (fst y))
                         && option_eqb str_eqb (snd x) (snd y)) a b.
Definition check_route (c : route_case) : bool := route_res_eqb (route (fst c)) (snd c).

(* case = (s, s.strip(), is_nonempty_str(s)) *)
Definition strip_case := (str * str * bool)%type.
Definition check_strip (c : strip_case) : bool :=
  let '(s, t, b) := c in str_eqb (strip s) t && Bool.eqb (nonempty_code (Some s)) b.

(* case = all code points below 70000 for which chr(c).isspace() *)
Fixpoint nrange (fuel : nat) (i : N) : list N :=
  match fuel with O => [] | S f => i :: nrange f (N.succ i) end.
Definition check_spaces (l : list N) : bool :=
  list_eqb N.eqb l (filter py_isspace (nrange (N.to_nat 70000%N) 0%N)).
