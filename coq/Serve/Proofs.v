(* Proofs about the media cache / endpoint model (property C19).  Statements used by Props/C19.v. *)
From DJC Require Import Lib.Base Serve.Model.

Arguments gen_cache_key : simpl never.
Arguments url : simpl never.

(* ================================================================================================ *)
(* Well-formedness of the inputs the theorems quantify over                                          *)
(* ================================================================================================ *)
(* a URL segment produced by the library: non-empty, free of the three separators *)
Definition sep_free (s : str) : Prop := ~ In dot s /\ ~ In slash s /\ ~ In colon s.
Definition seg_ok (s : str) : Prop := s <> [] /\ sep_free s.
Definition opt_ok (o : option str) : Prop := match o with Some i => seg_ok i | None => True end.

Definition icls (i : cdef * option str * option str) : cdef := fst (fst i).
Definition inst_ih (i : cdef * option str * option str) (k : kind) : option str :=
  match k with KJs => snd (fst i) | KCss => snd i end.

(* class table: hashes are segments and identify the class *)
Definition wf_table (tbl : list cdef) : Prop :=
  NoDup (map chash tbl) /\ Forall (fun c => seg_ok (chash c)) tbl.
Definition wf_inst (tbl : list cdef) (i : cdef * option str * option str) : Prop :=
  In (icls i) tbl /\ opt_ok (inst_ih i KJs) /\ opt_ok (inst_ih i KCss).
Definition wf_op (tbl : list cdef) (o : op) : Prop :=
  match o with
  | OBody insts | ORender _ insts => Forall (wf_inst tbl) insts
  | _ => True
  end.

(* what a rendered instance entitles the page to announce: the component's own script of a kind it has
   code for, or the script of the input hash of this very instance *)
Definition produced (i : cdef * option str * option str) (k : kind) (ih : option str) : Prop :=
  nonempty_code (code (icls i) k) = true /\ (ih = None \/ (ih = inst_ih i k /\ ih <> None)).

(* the body the endpoint must answer with *)
Definition expected (c : cdef) (k : kind) (ih : option str) : str :=
  match norm_ih ih with None => stripped c k | Some _ => [] end.

Definition evictsb (key : str) (o : op) : bool :=
  match o with OClear => true | OEvict k => str_eqb k key | _ => false end.
Definition no_evict (key : str) (ops : list op) : Prop :=
  forallb (fun o => negb (evictsb key o)) ops = true.

(* no `</script` / `</style` in the code that would be inlined *)
Definition clean (tbl : list cdef) : Prop :=
  forall c k, In c tbl -> has_end_tag k (stripped c k) = false.

(* ================================================================================================ *)
(* Dictionary facts                                                                                   *)
(* ================================================================================================ *)
Lemma str_eqb_neq a b : a <> b -> str_eqb a b = false.
Proof.
  intro H. destruct (str_eqb a b) eqn:E; [|reflexivity]. apply str_eqb_eq in E. contradiction.
Qed.

Lemma str_eq_dec (a b : str) : {a = b} + {a <> b}.
Proof. destruct (str_eqb a b) eqn:E; [left; apply str_eqb_eq; exact E | right; intro H; subst; rewrite str_eqb_refl in E; discriminate]. Qed.

Lemma cget_cdel_same k c : cget k (cdel k c) = None.
Proof.
  induction c as [|[k' v] c IH]; simpl; [reflexivity|].
  destruct (str_eqb k k') eqn:E; [exact IH|]. simpl. rewrite E. exact IH.
Qed.

Lemma cget_cdel_other x k c : x <> k -> cget x (cdel k c) = cget x c.
Proof.
  intro Hx. induction c as [|[k' v] c IH]; simpl; [reflexivity|].
  destruct (str_eqb k k') eqn:E.
  - apply str_eqb_eq in E. subst k'. rewrite (str_eqb_neq x k Hx). exact IH.
  - simpl. destruct (str_eqb x k'); [reflexivity | exact IH].
Qed.

Lemma cget_cdel_some x k c v : cget x (cdel k c) = Some v -> cget x c = Some v /\ x <> k.
Proof.
  intro H. destruct (str_eq_dec x k) as [->|Hn].
  - rewrite cget_cdel_same in H. discriminate.
  - rewrite cget_cdel_other in H by exact Hn. auto.
Qed.

Lemma cget_cset_same k v c : cget k (cset k v c) = Some v.
Proof. unfold cset. simpl. rewrite str_eqb_refl. reflexivity. Qed.

Lemma cget_cset_other x k v c : x <> k -> cget x (cset k v c) = cget x c.
Proof. intro H. unfold cset. simpl. rewrite (str_eqb_neq x k H). apply cget_cdel_other. exact H. Qed.

Lemma chas_true k c : chas k c = true <-> exists v, cget k c = Some v.
Proof.
  unfold chas. destruct (cget k c) as [v|]; split; intro H; try reflexivity; try discriminate.
  - exists v. reflexivity.
  - destruct H as [v H]. discriminate.
Qed.

Lemma chas_false k c : chas k c = false <-> cget k c = None.
Proof. unfold chas. destruct (cget k c); split; intro H; try reflexivity; discriminate. Qed.

(* ================================================================================================ *)
(* Cache keys are injective (on colon-free hash and kind)                                             *)
(* ================================================================================================ *)
Lemma sep_split (sep : N) (a b x y : str) :
  ~ In sep a -> ~ In sep b -> a ++ sep :: x = b ++ sep :: y -> a = b /\ x = y.
Proof.
  revert b. induction a as [|c a IH]; intros [|d b] Ha Hb H; simpl in *.
  - inversion H. auto.
  - inversion H; subst. exfalso. apply Hb. left. reflexivity.
  - inversion H; subst. exfalso. apply Ha. left. reflexivity.
  - inversion H; subst. destruct (IH b) as [E1 E2]; auto. subst. auto.
Qed.

Lemma sep_absurd (sep : N) (a b y : str) : ~ In sep a -> a = b ++ sep :: y -> False.
Proof. intros Ha E. apply Ha. rewrite E. apply in_or_app. right. left. reflexivity. Qed.

Definition key_tail (k : str) (ih : option str) : str :=
  match ih with Some (x :: i) => k ++ colon :: x :: i | _ => k end.

Lemma gen_cache_key_tail h k ih : gen_cache_key h k ih = key_prefix ++ h ++ colon :: key_tail k ih.
Proof. destruct ih as [[|x i]|]; reflexivity. Qed.

Lemma key_tail_inj k1 k2 ih1 ih2 :
  ~ In colon k1 -> ~ In colon k2 -> key_tail k1 ih1 = key_tail k2 ih2 -> k1 = k2 /\ norm_ih ih1 = norm_ih ih2.
Proof.
  intros H1 H2 E.
  destruct ih1 as [[|x1 i1]|], ih2 as [[|x2 i2]|]; simpl in *; auto;
    try (exfalso; eapply sep_absurd; [| exact E]; assumption);
    try (exfalso; eapply sep_absurd; [| symmetry; exact E]; assumption).
  apply sep_split in E; auto. destruct E as [-> E]. rewrite E. auto.
Qed.

Lemma key_inj h1 h2 k1 k2 ih1 ih2 :
  ~ In colon h1 -> ~ In colon h2 -> ~ In colon k1 -> ~ In colon k2 ->
  gen_cache_key h1 k1 ih1 = gen_cache_key h2 k2 ih2 ->
  h1 = h2 /\ k1 = k2 /\ norm_ih ih1 = norm_ih ih2.
Proof.
  intros Hh1 Hh2 Hk1 Hk2 E. rewrite !gen_cache_key_tail in E.
  apply app_inv_head in E. apply sep_split in E; auto. destruct E as [-> E].
  apply key_tail_inj in E; auto; tauto.
Qed.

Lemma kstr_nocolon k : ~ In colon (kstr k).
Proof. destruct k; simpl; unfold colon; intuition discriminate. Qed.

Lemma kstr_inj k1 k2 : kstr k1 = kstr k2 -> k1 = k2.
Proof. destruct k1, k2; simpl; intro H; try reflexivity; discriminate. Qed.

Lemma content_type_kstr k : content_type (kstr k) = Some (ctype k).
Proof. destruct k; reflexivity. Qed.

Lemma content_type_some kr ct : content_type kr = Some ct -> exists k, kr = kstr k /\ ct = ctype k.
Proof.
  unfold content_type. destruct (str_eqb kr (kstr KJs)) eqn:E1.
  - intro H. inversion H. apply str_eqb_eq in E1. exists KJs. auto.
  - destruct (str_eqb kr (kstr KCss)) eqn:E2; [|discriminate].
    intro H. inversion H. apply str_eqb_eq in E2. exists KCss. auto.
Qed.

(* ================================================================================================ *)
(* Class table                                                                                        *)
(* ================================================================================================ *)
Lemma find_cls_some tbl h c : find_cls tbl h = Some c -> In c tbl /\ chash c = h.
Proof.
  induction tbl as [|d tbl IH]; simpl; [discriminate|].
  destruct (str_eqb h (chash d)) eqn:E.
  - intro H. inversion H; subst. apply str_eqb_eq in E. auto.
  - intro H. apply IH in H. tauto.
Qed.

Lemma find_cls_in tbl c : NoDup (map chash tbl) -> In c tbl -> find_cls tbl (chash c) = Some c.
Proof.
  induction tbl as [|d tbl IH]; simpl; intros Hnd Hin; [contradiction|].
  inversion Hnd as [|? ? Hni Hnd']; subst.
  destruct Hin as [->|Hin]; [rewrite str_eqb_refl; reflexivity|].
  destruct (str_eqb (chash c) (chash d)) eqn:E.
  - apply str_eqb_eq in E. exfalso. apply Hni. rewrite <- E. apply in_map. exact Hin.
  - apply IH; assumption.
Qed.

Lemma hash_inj tbl c d : NoDup (map chash tbl) -> In c tbl -> In d tbl -> chash c = chash d -> c = d.
Proof.
  intros Hnd Hc Hd E. pose proof (find_cls_in tbl c Hnd Hc) as F1.
  pose proof (find_cls_in tbl d Hnd Hd) as F2. rewrite E in F1. congruence.
Qed.

Lemma wf_table_seg tbl c : wf_table tbl -> In c tbl -> seg_ok (chash c).
Proof. intros [_ H] Hin. rewrite Forall_forall in H. apply H. exact Hin. Qed.

Lemma wf_table_nocolon tbl c : wf_table tbl -> In c tbl -> ~ In colon (chash c).
Proof. intros Hw Hin. destruct (wf_table_seg tbl c Hw Hin) as [_ [_ [_ H]]]. exact H. Qed.

(* ================================================================================================ *)
(* The invariant: every entry is the code of the class its key names                                  *)
(* ================================================================================================ *)
Definition cache_ok (tbl : list cdef) (ch : list (str * str)) : Prop :=
  forall key v, cget key ch = Some v ->
    exists c k ih, In c tbl /\ nonempty_code (code c k) = true /\
                   key = gen_cache_key (chash c) (kstr k) ih /\ v = expected c k ih.

Lemma cache_ok_nil tbl : cache_ok tbl [].
Proof. intros key v H. discriminate. Qed.

Lemma cache_ok_cdel tbl k ch : cache_ok tbl ch -> cache_ok tbl (cdel k ch).
Proof. intros H key v Hg. apply cget_cdel_some in Hg. apply H. tauto. Qed.

Lemma cache_ok_cset tbl ch c k ih :
  cache_ok tbl ch -> In c tbl -> nonempty_code (code c k) = true ->
  cache_ok tbl (cset (gen_cache_key (chash c) (kstr k) ih) (expected c k ih) ch).
Proof.
  intros H Hin Hne key v Hg.
  destruct (str_eq_dec key (gen_cache_key (chash c) (kstr k) ih)) as [->|Hn].
  - rewrite cget_cset_same in Hg. inversion Hg; subst. exists c, k, ih. auto.
  - rewrite cget_cset_other in Hg by exact Hn. apply H. exact Hg.
Qed.

Lemma cache_ok_component tbl ch c k :
  cache_ok tbl ch -> In c tbl -> cache_ok tbl (cache_component c k ch).
Proof.
  intros H Hin. unfold cache_component.
  destruct (nonempty_code (code c k)) eqn:Hne; simpl; [|exact H].
  destruct (chas (gen_cache_key (chash c) (kstr k) None) ch); simpl; [exact H|].
  change (stripped c k) with (expected c k None). apply cache_ok_cset; assumption.
Qed.

Lemma cache_ok_vars tbl ch c k d :
  cache_ok tbl ch -> In c tbl -> opt_ok d -> cache_ok tbl (cache_vars c k d ch).
Proof.
  intros H Hin Hd. unfold cache_vars. destruct d as [ih|]; [|exact H].
  destruct (nonempty_code (code c k)) eqn:Hne; [|exact H].
  destruct (chas (gen_cache_key (chash c) (kstr k) (Some ih)) ch); [exact H|].
  assert (E : [] = expected c k (Some ih)).
  { unfold expected. destruct ih as [|x i]; [destruct Hd as [Hd _]; congruence | reflexivity]. }
  rewrite E. apply cache_ok_cset; assumption.
Qed.

Lemma cache_ok_body_inst tbl ch i : cache_ok tbl ch -> wf_inst tbl i -> cache_ok tbl (body_inst i ch).
Proof.
  destruct i as [[c jd] cd]. intros H [Hin [Hj Hc]]. unfold icls, inst_ih in *. simpl in *.
  apply cache_ok_vars; auto. apply cache_ok_component; auto.
  apply cache_ok_vars; auto. apply cache_ok_component; auto.
Qed.

Lemma cache_ok_body tbl insts ch : cache_ok tbl ch -> Forall (wf_inst tbl) insts -> cache_ok tbl (body insts ch).
Proof.
  unfold body. revert ch. induction insts as [|i r IH]; intros ch H Hw; simpl; [exact H|].
  inversion Hw; subst. apply IH; [apply cache_ok_body_inst|]; assumption.
Qed.

Lemma cache_ok_step tbl ch o : cache_ok tbl ch -> wf_op tbl o -> cache_ok tbl (fst (step tbl ch o)).
Proof.
  intros H Hw. destruct o; simpl in *; auto.
  - apply cache_ok_body; assumption.
  - apply cache_ok_body; assumption.
  - apply cache_ok_cdel; assumption.
  - apply cache_ok_nil.
Qed.

Lemma final_cons tbl ch o ops : final tbl ch (o :: ops) = final tbl (fst (step tbl ch o)) ops.
Proof.
  unfold final. simpl. destruct (step tbl ch o) as [ch1 x]. simpl.
  destruct (run tbl ch1 ops) as [ch2 xs]. reflexivity.
Qed.

Lemma final_app tbl ch a b : final tbl ch (a ++ b) = final tbl (final tbl ch a) b.
Proof.
  revert ch. induction a as [|o a IH]; intro ch; [reflexivity|].
  rewrite <- app_comm_cons, !final_cons. apply IH.
Qed.

Lemma cache_ok_final tbl ops ch : cache_ok tbl ch -> Forall (wf_op tbl) ops -> cache_ok tbl (final tbl ch ops).
Proof.
  revert ch. induction ops as [|o ops IH]; intros ch H Hw; [exact H|].
  inversion Hw; subst. rewrite final_cons. apply IH; [apply cache_ok_step|]; assumption.
Qed.

(* the value under the key of (c, k, ih) is the expected one *)
Lemma cache_ok_value tbl ch c k ih v :
  wf_table tbl -> cache_ok tbl ch -> In c tbl ->
  cget (gen_cache_key (chash c) (kstr k) ih) ch = Some v -> v = expected c k ih.
Proof.
  intros Hw Hok Hin Hg. destruct (Hok _ _ Hg) as [c' [k' [ih' [Hin' [_ [E ->]]]]]].
  apply key_inj in E; try apply kstr_nocolon; try (eapply wf_table_nocolon; eassumption).
  destruct E as [Eh [Ek Ei]]. apply kstr_inj in Ek. subst k'.
  assert (c = c') by (eapply hash_inj; [apply Hw | assumption | assumption | exact Eh]). subst c'.
  unfold expected. rewrite Ei. reflexivity.
Qed.

(* ================================================================================================ *)
(* Rendering never overwrites or removes; entries survive everything but their own eviction            *)
(* ================================================================================================ *)
Lemma keep_cset_absent key v k w ch : cget key ch = Some v -> chas k ch = false -> cget key (cset k w ch) = Some v.
Proof.
  intros Hg Hn. apply chas_false in Hn. rewrite cget_cset_other; [exact Hg|]. intro E. subst. congruence.
Qed.

Lemma keep_component key v c k ch : cget key ch = Some v -> cget key (cache_component c k ch) = Some v.
Proof.
  intro Hg. unfold cache_component. destruct (nonempty_code (code c k)); simpl; [|exact Hg].
  destruct (chas (gen_cache_key (chash c) (kstr k) None) ch) eqn:E; simpl; [exact Hg|].
  apply keep_cset_absent; assumption.
Qed.

Lemma keep_vars key v c k d ch : cget key ch = Some v -> cget key (cache_vars c k d ch) = Some v.
Proof.
  intro Hg. unfold cache_vars. destruct d as [ih|]; [|exact Hg].
  destruct (nonempty_code (code c k)); [|exact Hg].
  destruct (chas (gen_cache_key (chash c) (kstr k) (Some ih)) ch) eqn:E; [exact Hg|].
  apply keep_cset_absent; assumption.
Qed.

Lemma keep_body_inst key v i ch : cget key ch = Some v -> cget key (body_inst i ch) = Some v.
Proof.
  destruct i as [[c jd] cd]. intro Hg. unfold body_inst.
  apply keep_vars, keep_component, keep_vars, keep_component. exact Hg.
Qed.

Lemma keep_body key v insts ch : cget key ch = Some v -> cget key (body insts ch) = Some v.
Proof.
  unfold body. revert ch. induction insts as [|i r IH]; intros ch Hg; simpl; [exact Hg|].
  apply IH. apply keep_body_inst. exact Hg.
Qed.

Lemma keep_step tbl key v o ch :
  cget key ch = Some v -> evictsb key o = false -> cget key (fst (step tbl ch o)) = Some v.
Proof.
  intros Hg He. destruct o; simpl in *; auto.
  - apply keep_body; assumption.
  - apply keep_body; assumption.
  - rewrite cget_cdel_other; [exact Hg|]. intro E. subst. rewrite str_eqb_refl in He. discriminate.
  - discriminate.
Qed.

Lemma keep_final tbl key v ops ch :
  cget key ch = Some v -> no_evict key ops -> cget key (final tbl ch ops) = Some v.
Proof.
  unfold no_evict. revert ch. induction ops as [|o ops IH]; intros ch Hg Hn; [exact Hg|].
  simpl in Hn. apply andb_true_iff in Hn as [H1 H2]. rewrite final_cons.
  apply IH; [|exact H2]. apply keep_step; [exact Hg|]. destruct (evictsb key o); [discriminate|reflexivity].
Qed.

(* ================================================================================================ *)
(* Rendering an instance caches everything it entitles the page to announce                           *)
(* ================================================================================================ *)
Lemma component_has c k ch :
  nonempty_code (code c k) = true -> chas (gen_cache_key (chash c) (kstr k) None) (cache_component c k ch) = true.
Proof.
  intro Hne. unfold cache_component. rewrite Hne. simpl.
  destruct (chas (gen_cache_key (chash c) (kstr k) None) ch) eqn:E; simpl; [exact E|].
  apply chas_true. eexists. apply cget_cset_same.
Qed.

Lemma vars_has c k ih ch :
  nonempty_code (code c k) = true ->
  chas (gen_cache_key (chash c) (kstr k) (Some ih)) (cache_vars c k (Some ih) ch) = true.
Proof.
  intro Hne. unfold cache_vars. rewrite Hne.
  destruct (chas (gen_cache_key (chash c) (kstr k) (Some ih)) ch) eqn:E; [exact E|].
  apply chas_true. eexists. apply cget_cset_same.
Qed.

Lemma chas_keep_component key c k ch : chas key ch = true -> chas key (cache_component c k ch) = true.
Proof. rewrite !chas_true. intros [v H]. exists v. apply keep_component. exact H. Qed.
Lemma chas_keep_vars key c k d ch : chas key ch = true -> chas key (cache_vars c k d ch) = true.
Proof. rewrite !chas_true. intros [v H]. exists v. apply keep_vars. exact H. Qed.

Lemma body_inst_has i k ih ch :
  produced i k ih -> chas (gen_cache_key (chash (icls i)) (kstr k) ih) (body_inst i ch) = true.
Proof.
  destruct i as [[c jd] cd]. unfold produced, icls, inst_ih. simpl. intros [Hne [->|[E Hnn]]].
  - destruct k; unfold body_inst.
    + apply chas_keep_vars, chas_keep_component, chas_keep_vars, component_has. exact Hne.
    + apply chas_keep_vars, component_has. exact Hne.
  - destruct k; unfold body_inst; subst ih.
    + destruct jd as [i|]; [|congruence].
      apply chas_keep_vars, chas_keep_component, vars_has. exact Hne.
    + destruct cd as [i|]; [|congruence]. apply vars_has. exact Hne.
Qed.

Lemma body_has insts i k ih ch :
  In i insts -> produced i k ih -> chas (gen_cache_key (chash (icls i)) (kstr k) ih) (body insts ch) = true.
Proof.
  unfold body. revert ch. induction insts as [|j r IH]; intros ch Hin Hp; [contradiction|]. simpl.
  destruct Hin as [->|Hin].
  - pose proof (body_inst_has i k ih ch Hp) as H. apply chas_true in H as [v H].
    apply chas_true. exists v. apply (keep_body _ _ r). exact H.
  - apply IH; assumption.
Qed.

(* ================================================================================================ *)
(* What render_dependencies announces                                                                 *)
(* ================================================================================================ *)
Lemma prepare_sound tbl ch m data us k u :
  prepare tbl ch m data = inr us -> In (k, u) us ->
  exists h ih c, In (h, k, ih) data /\ find_cls tbl h = Some c /\ nonempty_code (code c k) = true /\
                 u = url (chash c) k ih /\
                 (m = Document -> exists s, cget (gen_cache_key (chash c) (kstr k) ih) ch = Some s).
Proof.
  revert us. induction data as [|[[h k'] ih] r IH]; intros us Hp Hin; simpl in Hp.
  - inversion Hp; subst. contradiction.
  - destruct (find_cls tbl h) as [c|] eqn:Hf; [|discriminate].
    destruct (nonempty_code (code c k')) eqn:Hne.
    + assert (Hcase : forall us', prepare tbl ch m r = inr us' -> us = (k', url (chash c) k' ih) :: us' ->
                (m = Document -> exists s, cget (gen_cache_key (chash c) (kstr k') ih) ch = Some s) ->
                exists h0 ih0 c0, In (h0, k, ih0) ((h, k', ih) :: r) /\ find_cls tbl h0 = Some c0 /\
                  nonempty_code (code c0 k) = true /\ u = url (chash c0) k ih0 /\
                  (m = Document -> exists s, cget (gen_cache_key (chash c0) (kstr k) ih0) ch = Some s)).
      { intros us' Hr -> Hdoc. destruct Hin as [E|Hin].
        - inversion E; subst. exists h, ih, c. repeat split; auto. left. reflexivity.
        - destruct (IH us' Hr Hin) as [h0 [ih0 [c0 [H1 H2]]]]. exists h0, ih0, c0. split; [right; exact H1 | exact H2]. }
      destruct m.
      * destruct (cget (gen_cache_key (chash c) (kstr k') ih) ch) as [s|] eqn:Hg; [|discriminate].
        destruct (has_end_tag k' s); [discriminate|].
        destruct (prepare tbl ch Document r) as [e|us'] eqn:Hr; [discriminate|].
        inversion Hp; subst. eapply Hcase; eauto.
      * destruct (prepare tbl ch Fragment r) as [e|us'] eqn:Hr; [discriminate|].
        inversion Hp; subst. eapply Hcase; eauto. intro; discriminate.
    + destruct (IH us Hp Hin) as [h0 [ih0 [c0 [H1 H2]]]]. exists h0, ih0, c0. split; [right; exact H1 | exact H2].
Qed.

Lemma dedup_parts_incl seen ps p : In p (dedup_parts seen ps) -> In p ps.
Proof.
  revert seen. induction ps as [|[[h j] c] r IH]; intros seen H; simpl in *; [contradiction|].
  destruct (mem_str h seen).
  - right. eapply IH; eauto.
  - destruct H as [H|H]; [left; exact H | right; eapply IH; eauto].
Qed.

Lemma comp_data_in ps h k ih : In (h, k, ih) (comp_data ps) -> ih = None /\ exists j c, In (h, j, c) ps.
Proof.
  unfold comp_data. rewrite in_flat_map. intros [[[h' j] c] [Hin H]]. simpl in H.
  destruct H as [H|[H|[]]]; inversion H; subst; split; eauto.
Qed.

Lemma inputs_data_in ps h k ih :
  In (h, k, ih) (inputs_data ps) ->
  ih <> None /\ exists j c, In (h, j, c) ps /\ (match k with KJs => j | KCss => c end) = ih.
Proof.
  unfold inputs_data. rewrite in_flat_map. intros [[[h' j] c] [Hin H]]. apply in_app_or in H.
  destruct H as [H|H].
  - destruct j as [i|]; [|contradiction]. destruct H as [H|[]]. inversion H; subst.
    split; [discriminate|]. exists (Some i), c. auto.
  - destruct c as [i|]; [|contradiction]. destruct H as [H|[]]. inversion H; subst.
    split; [discriminate|]. exists j, (Some i). auto.
Qed.

Lemma norm_ih_seg o : opt_ok o -> norm_ih o = o.
Proof. destruct o as [[|x i]|]; simpl; auto. intros [H _]. congruence. Qed.

(* the marker of an instance announces an input hash only if that instance produced it *)
Lemma part_of_ih i k ih :
  opt_ok (inst_ih i KJs) -> opt_ok (inst_ih i KCss) ->
  (match k with KJs => snd (fst (part_of i)) | KCss => snd (part_of i) end) = ih -> ih <> None ->
  ih = inst_ih i k /\ nonempty_code (code (icls i) k) = true.
Proof.
  destruct i as [[c jd] cd]. unfold inst_ih, icls, part_of. simpl. intros Hj Hc E Hn.
  destruct k; simpl in E.
  - destruct jd as [i|]; [|simpl in E; congruence].
    destruct (nonempty_code (cjs c)) eqn:Hne; [|simpl in E; congruence].
    rewrite (norm_ih_seg (Some i) Hj) in E. auto.
  - destruct cd as [i|]; [|simpl in E; congruence].
    destruct (nonempty_code (ccss c)) eqn:Hne; [|simpl in E; congruence].
    rewrite (norm_ih_seg (Some i) Hc) in E. auto.
Qed.

Lemma urls_of_in k us u : In u (urls_of k us) -> In (k, u) us.
Proof.
  unfold urls_of. rewrite in_map_iff. intros [[k' u'] [E H]]. simpl in E. subst u'.
  apply filter_In in H as [H Hk]. simpl in Hk. destruct k, k'; simpl in Hk; try discriminate; exact H.
Qed.

(* every announced URL belongs to a rendered instance that produced it; in document mode its entry is cached *)
Lemma deps_sound tbl ch m insts js css u :
  wf_table tbl -> Forall (wf_inst tbl) insts ->
  deps tbl ch m (map part_of insts) = OutUrls js css -> In u (js ++ css) ->
  exists i k ih, In i insts /\ produced i k ih /\ u = url (chash (icls i)) k ih /\
                 (m = Document -> exists s, cget (gen_cache_key (chash (icls i)) (kstr k) ih) ch = Some s).
Proof.
  intros Hw Hwi Hd Hin. unfold deps in Hd.
  destruct (prepare tbl ch m (inputs_data (dedup_parts [] (map part_of insts)))) as [e|ui] eqn:Hi; [discriminate|].
  destruct (prepare tbl ch m (comp_data (dedup_parts [] (map part_of insts)))) as [e|uc] eqn:Hc; [discriminate|].
  inversion Hd; subst. clear Hd.
  assert (Hcases : exists k, In (k, u) uc \/ In (k, u) ui).
  { apply in_app_or in Hin. destruct Hin as [H|H]; apply in_app_or in H; destruct H as [H|H];
      apply urls_of_in in H; eauto. }
  destruct Hcases as [k [Hu|Hu]].
  - (* component URL *)
    destruct (prepare_sound _ _ _ _ _ _ _ Hc Hu) as [h [ih [c [Hdat [Hf [Hne [-> Hdoc]]]]]]].
    apply comp_data_in in Hdat. destruct Hdat as [-> [j [cc Hp]]].
    apply dedup_parts_incl in Hp. apply in_map_iff in Hp. destruct Hp as [i [Ep Hi']].
    rewrite Forall_forall in Hwi. destruct (Hwi i Hi') as [Hit _].
    assert (Eh : chash (icls i) = h) by (destruct i as [[c0 jd] cd]; simpl in Ep; inversion Ep; reflexivity).
    apply find_cls_some in Hf. destruct Hf as [Hct Ehc].
    assert (c = icls i) by (eapply hash_inj; [apply Hw | assumption | assumption | congruence]). subst c.
    exists i, k, None. repeat split; auto.
  - (* input URL *)
    destruct (prepare_sound _ _ _ _ _ _ _ Hi Hu) as [h [ih [c [Hdat [Hf [Hne [-> Hdoc]]]]]]].
    apply inputs_data_in in Hdat. destruct Hdat as [Hnn [j [cc [Hp Esel]]]].
    apply dedup_parts_incl in Hp. apply in_map_iff in Hp. destruct Hp as [i [Ep Hi']].
    rewrite Forall_forall in Hwi. destruct (Hwi i Hi') as [Hit [Hoj Hoc]].
    assert (Eh : chash (icls i) = h) by (destruct i as [[c0 jd] cd]; simpl in Ep; inversion Ep; reflexivity).
    apply find_cls_some in Hf. destruct Hf as [Hct Ehc].
    assert (c = icls i) by (eapply hash_inj; [apply Hw | assumption | assumption | congruence]). subst c.
    assert (Esel' : (match k with KJs => snd (fst (part_of i)) | KCss => snd (part_of i) end) = ih).
    { rewrite Ep. destruct k; exact Esel. }
    destruct (part_of_ih i k ih Hoj Hoc Esel' Hnn) as [Eih Hne'].
    exists i, k, ih. repeat split; auto.
Qed.

(* ================================================================================================ *)
(* Routing                                                                                            *)
(* ================================================================================================ *)
Lemma splits_dot_nodot s : ~ In dot s -> splits_dot s = [].
Proof.
  induction s as [|c r IH]; intro H; [reflexivity|]. simpl.
  rewrite IH by (intro; apply H; right; assumption). simpl.
  destruct r as [|d [|e b]]; try reflexivity.
  destruct (N.eqb_spec d dot); [|reflexivity]. exfalso. apply H. right. left. assumption.
Qed.

Definition prepend (p : str) (x : str * str) : str * str := (p ++ fst x, snd x).

Definition tail_split (c : N) (r : str) : list (str * str) :=
  match r with
  | d :: (_ :: _) as b => if N.eqb d dot then [([c], b)] else []
  | _ => []
  end.

Lemma splits_dot_cons c r :
  splits_dot (c :: r) = map (fun p => (c :: fst p, snd p)) (splits_dot r) ++ tail_split c r.
Proof. reflexivity. Qed.

Lemma tail_split_dot c b : b <> [] -> tail_split c (dot :: b) = [([c], b)].
Proof. destruct b; [congruence|]. reflexivity. Qed.

Lemma tail_split_nodot c r : hd 0%N r <> dot -> tail_split c r = [].
Proof.
  destruct r as [|d [|e b]]; try reflexivity. simpl. intro H.
  destruct (N.eqb_spec d dot); [contradiction | reflexivity].
Qed.

(* s = h.r with h dot-free, r not starting with a dot: the splits of r (shifted), then (h, r) *)
Lemma splits_dot_first h r :
  h <> [] -> ~ In dot h -> r <> [] -> hd 0%N r <> dot ->
  splits_dot (h ++ dot :: r) = map (prepend (h ++ [dot])) (splits_dot r) ++ [(h, r)].
Proof.
  intros Hh Hnd Hr Hhd. induction h as [|c h IH]; [congruence|].
  destruct h as [|c' h'].
  - change ([c] ++ dot :: r) with (c :: dot :: r).
    rewrite (splits_dot_cons c (dot :: r)), (tail_split_dot c r Hr).
    rewrite (splits_dot_cons dot r), (tail_split_nodot dot r Hhd), app_nil_r, map_map.
    f_equal; try (apply map_ext; intros [a b]; reflexivity).
  - change ((c :: c' :: h') ++ dot :: r) with (c :: ((c' :: h') ++ dot :: r)).
    rewrite (splits_dot_cons c ((c' :: h') ++ dot :: r)).
    rewrite IH; [| discriminate | intro; apply Hnd; right; assumption].
    rewrite tail_split_nodot.
    2:{ simpl. intro E. apply Hnd. right. left. exact E. }
    rewrite app_nil_r, map_app, map_map. f_equal; try (apply map_ext; intros [a b]; reflexivity).
Qed.

Lemma hd_nodot s : s <> [] -> ~ In dot s -> hd 0%N s <> dot.
Proof. destruct s as [|c r]; [congruence|]. simpl. intros _ H E. apply H. left. exact E. Qed.

Lemma match2_two h t : seg_ok h -> seg_ok t -> match2 (h ++ dot :: t) = Some (h, t).
Proof.
  intros [Hh [Hhd _]] [Ht [Htd _]]. unfold match2.
  rewrite splits_dot_first; auto using hd_nodot. rewrite (splits_dot_nodot t Htd). reflexivity.
Qed.

Lemma match3_two h t : seg_ok h -> seg_ok t -> match3 (h ++ dot :: t) = None.
Proof.
  intros [Hh [Hhd _]] [Ht [Htd _]]. unfold match3.
  rewrite splits_dot_first; auto using hd_nodot. rewrite (splits_dot_nodot t Htd). simpl.
  unfold match2. rewrite (splits_dot_nodot t Htd). reflexivity.
Qed.

Lemma match3_three h i t : seg_ok h -> seg_ok i -> seg_ok t -> match3 (h ++ dot :: i ++ dot :: t) = Some (h, i, t).
Proof.
  intros [Hh [Hhd _]] Hi Ht. unfold match3.
  assert (Hr : i ++ dot :: t <> []) by (destruct i; discriminate).
  assert (Hrd : hd 0%N (i ++ dot :: t) <> dot).
  { destruct Hi as [Hi [Hid _]]. destruct i as [|c i']; [congruence|]. simpl. intro E. apply Hid. left. exact E. }
  rewrite splits_dot_first; auto.
  destruct Hi as [Hi [Hid Hi']], Ht as [Ht [Htd Ht']].
  rewrite (splits_dot_first i t); auto using hd_nodot. rewrite (splits_dot_nodot t Htd). simpl.
  unfold prepend. simpl. unfold match2 at 1. rewrite (splits_dot_nodot t Htd).
  rewrite (match2_two i t); [reflexivity | unfold seg_ok, sep_free; tauto | unfold seg_ok, sep_free; tauto].
Qed.

Lemma strip_prefix_app p s : strip_prefix p (p ++ s) = Some s.
Proof. induction p as [|x p IH]; simpl; [reflexivity|]. rewrite N.eqb_refl. exact IH. Qed.

Lemma existsb_slash_false s : ~ In slash s -> existsb (N.eqb slash) s = false.
Proof.
  induction s as [|c r IH]; intro H; [reflexivity|]. cbn [existsb].
  destruct (N.eqb_spec slash c); [exfalso; apply H; left; congruence|]. cbn [orb].
  apply IH. intro; apply H; right; assumption.
Qed.

Lemma kstr_seg k : seg_ok (kstr k).
Proof. destruct k; unfold seg_ok, sep_free, dot, slash, colon; simpl; repeat split; try discriminate; intuition discriminate. Qed.

Lemma route_url h k ih : seg_ok h -> opt_ok ih -> route (url h k ih) = Some (h, kstr k, ih).
Proof.
  intros Hh Hi. unfold route, url. pose proof (kstr_seg k) as Hk.
  destruct ih as [i|]; simpl in Hi; rewrite strip_prefix_app.
  - rewrite existsb_slash_false.
    + rewrite match3_three; auto.
    + destruct Hh as [_ [_ [Hs _]]], Hi as [_ [_ [Hs' _]]], Hk as [_ [_ [Hs'' _]]].
      intro H. apply in_app_or in H. destruct H as [H|[H|H]]; auto; [discriminate H|].
      apply in_app_or in H. destruct H as [H|[H|H]]; auto. discriminate H.
  - rewrite existsb_slash_false.
    + rewrite match3_two, match2_two; auto.
    + destruct Hh as [_ [_ [Hs _]]], Hk as [_ [_ [Hs'' _]]].
      intro H. apply in_app_or in H. destruct H as [H|[H|H]]; auto. discriminate H.
Qed.

(* ================================================================================================ *)
(* The endpoint                                                                                       *)
(* ================================================================================================ *)
Lemma serve_hit tbl ch c k ih v :
  wf_table tbl -> In c tbl -> opt_ok ih ->
  cget (gen_cache_key (chash c) (kstr k) ih) ch = Some v ->
  serve tbl ch GET (url (chash c) k ih) = R200 v (ctype k).
Proof.
  intros Hw Hin Hi Hg. unfold serve. rewrite route_url; auto; [|eapply wf_table_seg; eauto].
  rewrite str_eqb_refl. cbn [negb]. rewrite content_type_kstr, find_cls_in; [|apply Hw|exact Hin].
  rewrite Hg. reflexivity.
Qed.

Lemma produced_opt_ok tbl i k ih : wf_inst tbl i -> produced i k ih -> opt_ok ih.
Proof.
  intros [_ [Hj Hc]] [_ [->|[-> _]]]; [exact I|]. destruct k; assumption.
Qed.

(* the core of C19: once an instance that produces (k, ih) has been rendered, its URL is served with its
   code for as long as that very entry is not evicted *)
Lemma rendered_then_served tbl ch insts i k ih mid :
  wf_table tbl -> cache_ok tbl ch -> Forall (wf_inst tbl) insts ->
  In i insts -> produced i k ih ->
  no_evict (gen_cache_key (chash (icls i)) (kstr k) ih) mid ->
  serve tbl (final tbl (body insts ch) mid) GET (url (chash (icls i)) k ih)
    = R200 (expected (icls i) k ih) (ctype k).
Proof.
  intros Hw Hok Hwi Hin Hp Hne.
  pose proof (body_has insts i k ih ch Hin Hp) as Hhas. apply chas_true in Hhas as [v Hg].
  assert (Hwf : wf_inst tbl i) by (rewrite Forall_forall in Hwi; auto).
  assert (v = expected (icls i) k ih).
  { eapply cache_ok_value; [exact Hw | apply cache_ok_body; eassumption | apply Hwf | exact Hg]. }
  subst v. apply serve_hit; auto; [apply Hwf | eapply produced_opt_ok; eauto |].
  apply keep_final; assumption.
Qed.

Lemma emitted_url_served_lemma :
  forall tbl pre m insts js css,
    wf_table tbl -> Forall (wf_op tbl) pre -> Forall (wf_inst tbl) insts ->
    snd (step tbl (final tbl [] pre) (ORender m insts)) = OutUrls js css ->
    forall u, In u (js ++ css) ->
    exists i k ih,
      In i insts /\ produced i k ih /\ u = url (chash (icls i)) k ih /\
      forall mid, no_evict (gen_cache_key (chash (icls i)) (kstr k) ih) mid ->
        serve tbl (final tbl [] (pre ++ ORender m insts :: mid)) GET u
          = R200 (expected (icls i) k ih) (ctype k).
Proof.
  intros tbl pre m insts js css Hw Hpre Hwi Hout u Hu. simpl in Hout.
  destruct (deps_sound _ _ _ _ _ _ _ Hw Hwi Hout Hu) as [i [k [ih [Hin [Hp [-> _]]]]]].
  exists i, k, ih. split; [exact Hin|]. split; [exact Hp|]. split; [reflexivity|]. intros mid Hne.
  rewrite final_app, final_cons. simpl.
  apply rendered_then_served; auto. apply cache_ok_final; [apply cache_ok_nil | exact Hpre].
Qed.

(* split flow, document mode: render_dependencies(type="document") reads the cache itself, so whatever it
   announces - for markers of whatever origin - is served until evicted *)
Lemma document_deps_served_lemma :
  forall tbl pre insts js css,
    wf_table tbl -> Forall (wf_op tbl) pre -> Forall (wf_inst tbl) insts ->
    snd (step tbl (final tbl [] pre) (ODeps Document insts)) = OutUrls js css ->
    forall u, In u (js ++ css) ->
    exists i k ih,
      In i insts /\ produced i k ih /\ u = url (chash (icls i)) k ih /\
      forall mid, no_evict (gen_cache_key (chash (icls i)) (kstr k) ih) mid ->
        serve tbl (final tbl [] (pre ++ ODeps Document insts :: mid)) GET u
          = R200 (expected (icls i) k ih) (ctype k).
Proof.
  intros tbl pre insts js css Hw Hpre Hwi Hout u Hu. simpl in Hout.
  destruct (deps_sound _ _ _ _ _ _ _ Hw Hwi Hout Hu) as [i [k [ih [Hin [Hp [-> Hdoc]]]]]].
  destruct (Hdoc eq_refl) as [s Hg].
  exists i, k, ih. split; [exact Hin|]. split; [exact Hp|]. split; [reflexivity|]. intros mid Hne.
  rewrite final_app, final_cons. simpl.
  assert (Hwf : wf_inst tbl i) by (rewrite Forall_forall in Hwi; auto).
  assert (Hok : cache_ok tbl (final tbl [] pre)) by (apply cache_ok_final; [apply cache_ok_nil | exact Hpre]).
  assert (s = expected (icls i) k ih) by (eapply cache_ok_value; [exact Hw | exact Hok | apply Hwf | exact Hg]).
  subst s. apply serve_hit; auto; [apply Hwf | eapply produced_opt_ok; eauto |].
  apply keep_final; assumption.
Qed.

(* a 200 answer is always the code of the class and kind named in the path *)
Lemma served_code_is_own_lemma :
  forall tbl hist meth path body ct,
    wf_table tbl -> Forall (wf_op tbl) hist ->
    serve tbl (final tbl [] hist) meth path = R200 body ct ->
    meth = GET /\
    exists c k ih, In c tbl /\ route path = Some (chash c, kstr k, ih) /\
                   nonempty_code (code c k) = true /\ body = expected c k ih /\ ct = ctype k.
Proof.
  intros tbl hist meth path body ct Hw Hh Hs. unfold serve in Hs.
  destruct (route path) as [[[h kr] ih]|]; [|discriminate].
  destruct (str_eqb meth GET) eqn:Em; cbn [negb] in Hs; [|discriminate].
  apply str_eqb_eq in Em. split; [exact Em|].
  destruct (content_type kr) as [ct'|] eqn:Hc; [|discriminate].
  destruct (find_cls tbl h) as [c|] eqn:Hf; [|discriminate].
  destruct (cget (gen_cache_key (chash c) kr ih) (final tbl [] hist)) as [s|] eqn:Hg; [|discriminate].
  inversion Hs; subst.
  apply content_type_some in Hc. destruct Hc as [k [-> ->]].
  apply find_cls_some in Hf. destruct Hf as [Hin <-].
  assert (Hok : cache_ok tbl (final tbl [] hist)) by (apply cache_ok_final; [apply cache_ok_nil | exact Hh]).
  pose proof (cache_ok_value _ _ _ _ _ _ Hw Hok Hin Hg) as ->.
  destruct (Hok _ _ Hg) as [c' [k' [ih' [Hin' [Hne' [E _]]]]]].
  apply key_inj in E; try apply kstr_nocolon; try (eapply wf_table_nocolon; eassumption).
  destruct E as [Eh [Ek _]]. apply kstr_inj in Ek. subst k'.
  assert (c = c') by (eapply hash_inj; [apply Hw | assumption | assumption | exact Eh]). subst c'.
  exists c, k, ih. auto.
Qed.

(* refusals *)
Lemma unrouted_404_lemma tbl ch meth path : route path = None -> serve tbl ch meth path = R404.
Proof. intro H. unfold serve. rewrite H. reflexivity. Qed.

Lemma non_get_405_lemma tbl ch meth path r : route path = Some r -> meth <> GET -> serve tbl ch meth path = R405.
Proof.
  intros H Hm. unfold serve. rewrite H. destruct r as [[h k] ih]. rewrite (str_eqb_neq _ _ Hm). reflexivity.
Qed.

Lemma unknown_hash_404_lemma tbl ch path h k ih :
  route path = Some (h, k, ih) -> find_cls tbl h = None -> serve tbl ch GET path = R404.
Proof.
  intros H Hf. unfold serve. rewrite H, str_eqb_refl, Hf. cbn [negb]. destruct (content_type k); reflexivity.
Qed.

Lemma unknown_kind_404_lemma tbl ch path h kr ih :
  route path = Some (h, kr, ih) -> content_type kr = None -> serve tbl ch GET path = R404.
Proof. intros Hr Hc. unfold serve. rewrite Hr, str_eqb_refl, Hc. reflexivity. Qed.

(* an entry that is not cached is not served - in particular after its eviction, until the next render *)
Lemma absent_404_lemma tbl ch path h k ih c :
  route path = Some (h, k, ih) -> find_cls tbl h = Some c -> cget (gen_cache_key (chash c) k ih) ch = None ->
  serve tbl ch GET path = R404.
Proof.
  intros Hr Hf Hg. unfold serve. rewrite Hr, str_eqb_refl, Hf, Hg. cbn [negb]. destruct (content_type k); reflexivity.
Qed.

Lemma never_500_lemma tbl ch meth path : serve tbl ch meth path <> R500.
Proof.
  unfold serve. destruct (route path) as [[[h k] ih]|]; [|discriminate].
  destruct (negb (str_eqb meth GET)); [discriminate|].
  destruct (content_type k); [|discriminate]. destruct (find_cls tbl h); [|discriminate].
  destruct (cget _ ch); discriminate.
Qed.

(* every answer, for every history, method and path: 404, 405, or 200 with the named component's own code *)
Lemma response_classification_lemma :
  forall tbl hist meth path,
    wf_table tbl -> Forall (wf_op tbl) hist ->
    let r := serve tbl (final tbl [] hist) meth path in
    r = R404 \/ (r = R405 /\ meth <> GET /\ route path <> None) \/
    (meth = GET /\ exists c k ih, In c tbl /\ route path = Some (chash c, kstr k, ih) /\
                    nonempty_code (code c k) = true /\ r = R200 (expected c k ih) (ctype k)).
Proof.
  intros tbl hist meth path Hw Hh r.
  destruct r as [body ct| | |] eqn:Er; subst r.
  - right. right. destruct (served_code_is_own_lemma _ _ _ _ _ _ Hw Hh Er) as [Hm [c [k [ih [H1 [H2 [H3 [-> ->]]]]]]]].
    split; [exact Hm|]. exists c, k, ih. auto.
  - left. reflexivity.
  - right. left. split; [reflexivity|]. unfold serve in Er.
    destruct (route path) as [[[h k] ih]|]; [|discriminate]. split; [|discriminate].
    destruct (str_eqb meth GET) eqn:Em.
    + cbn [negb] in Er. destruct (content_type k); [|discriminate]. destruct (find_cls tbl h); [|discriminate].
      destruct (cget _ _); discriminate.
    + intro E. subst. rewrite str_eqb_refl in Em. discriminate.
  - exfalso. eapply never_500_lemma. exact Er.
Qed.

(* ---- the view before fix 85ec7c6 (documentation of the defect; not part of Props/C19.v) ---- *)
(* the repair changed nothing but the server errors *)
Lemma fix_only_removed_500 tbl ch meth path :
  serve_before_fix tbl ch meth path <> R500 -> serve tbl ch meth path = serve_before_fix tbl ch meth path.
Proof.
  unfold serve, serve_before_fix. destruct (route path) as [[[h k] ih]|]; [|reflexivity].
  destruct (negb (str_eqb meth GET)); [reflexivity|].
  destruct (content_type k), (find_cls tbl h); try reflexivity; destruct (cget _ ch); try reflexivity.
  intro H; exfalso; apply H; reflexivity.
Qed.

Local Open Scope string_scope.
Import Coq.Strings.String.StringSyntax.
(* witness: class with JS, one instance with input hash "2526bc"; the path ".../W_000000.js:2526bc" addressed the
   entry of the JS variables through the kind segment and the content-type lookup of "js:2526bc" failed *)
Lemma before_fix_server_error :
  let c := {| chash := s2n "W_000000"; cjs := Some (s2n "a()"); ccss := None |} in
  let hist := [ORender Fragment [(c, Some (s2n "2526bc"), None)]] in
  wf_table [c] /\ Forall (wf_op [c]) hist /\
  serve_before_fix [c] (final [c] [] hist) GET (s2n "/components/cache/W_000000.js:2526bc") = R500 /\
  serve [c] (final [c] [] hist) GET (s2n "/components/cache/W_000000.js:2526bc") = R404.
Proof.
  cbv zeta. split; [|split; [|split; vm_compute; reflexivity]].
  - split; [repeat constructor; simpl; tauto|].
    repeat constructor; cbv; try discriminate; intuition discriminate.
  - repeat constructor; cbv; try discriminate; intuition discriminate.
Qed.
Local Close Scope string_scope.

(* ================================================================================================ *)
(* An atomic render never fails (the entries it needs have just been cached)                          *)
(* ================================================================================================ *)
Lemma prepare_ok tbl ch m data :
  (forall h k ih, In (h, k, ih) data ->
     exists c, find_cls tbl h = Some c /\
       (nonempty_code (code c k) = true -> m = Document ->
        exists s, cget (gen_cache_key (chash c) (kstr k) ih) ch = Some s /\ has_end_tag k s = false)) ->
  exists us, prepare tbl ch m data = inr us.
Proof.
  induction data as [|[[h k] ih] r IH]; intro H; simpl; [eexists; reflexivity|].
  destruct (H h k ih (or_introl eq_refl)) as [c [Hf Hdoc]]. rewrite Hf.
  destruct IH as [us Hus]; [intros; apply H; right; assumption|].
  destruct (nonempty_code (code c k)) eqn:Hne; [|rewrite Hus; eexists; reflexivity].
  destruct m.
  - destruct (Hdoc eq_refl eq_refl) as [s [Hg He]]. rewrite Hg, He, Hus. eexists; reflexivity.
  - rewrite Hus. eexists; reflexivity.
Qed.

Lemma has_end_tag_nil k : has_end_tag k [] = false.
Proof. destruct k; reflexivity. Qed.

Lemma atomic_render_never_fails_lemma :
  forall tbl pre m insts,
    wf_table tbl -> clean tbl -> Forall (wf_op tbl) pre -> Forall (wf_inst tbl) insts ->
    exists js css, snd (step tbl (final tbl [] pre) (ORender m insts)) = OutUrls js css.
Proof.
  intros tbl pre m insts Hw Hcl Hpre Hwi. simpl.
  set (ch := body insts (final tbl [] pre)).
  assert (Hok : cache_ok tbl ch).
  { apply cache_ok_body; [apply cache_ok_final; [apply cache_ok_nil | exact Hpre] | exact Hwi]. }
  assert (Hpart : forall h j c, In (h, j, c) (dedup_parts [] (map part_of insts)) ->
                    exists i, In i insts /\ part_of i = (h, j, c) /\ chash (icls i) = h).
  { intros h j c Hp. apply dedup_parts_incl in Hp. apply in_map_iff in Hp. destruct Hp as [i [E Hi]].
    exists i. repeat split; auto. destruct i as [[c0 jd] cd]. simpl in E. inversion E. reflexivity. }
  assert (Hgood : forall i k ih, In i insts -> produced i k ih ->
            exists s, cget (gen_cache_key (chash (icls i)) (kstr k) ih) ch = Some s /\ has_end_tag k s = false).
  { intros i k ih Hi Hp. pose proof (body_has insts i k ih (final tbl [] pre) Hi Hp) as Hh.
    apply chas_true in Hh as [s Hg]. exists s. split; [exact Hg|].
    assert (Hwf : wf_inst tbl i) by (rewrite Forall_forall in Hwi; auto).
    pose proof (cache_ok_value _ _ _ _ _ _ Hw Hok (proj1 Hwf) Hg) as ->.
    unfold expected. destruct (norm_ih ih); [apply has_end_tag_nil | apply Hcl; apply Hwf]. }
  unfold deps.
  destruct (prepare_ok tbl ch m (inputs_data (dedup_parts [] (map part_of insts)))) as [ui Hui].
  { intros h k ih Hd. apply inputs_data_in in Hd. destruct Hd as [Hnn [j [c [Hp Esel]]]].
    destruct (Hpart _ _ _ Hp) as [i [Hi [Ep Eh]]].
    assert (Hwf : wf_inst tbl i) by (rewrite Forall_forall in Hwi; auto).
    exists (icls i). split; [rewrite <- Eh; apply find_cls_in; [apply Hw | apply Hwf]|].
    intros Hne _.
    assert (Esel' : (match k with KJs => snd (fst (part_of i)) | KCss => snd (part_of i) end) = ih)
      by (rewrite Ep; destruct k; exact Esel).
    destruct (part_of_ih i k ih (proj1 (proj2 Hwf)) (proj2 (proj2 Hwf)) Esel' Hnn) as [Eih Hne'].
    apply Hgood; [exact Hi|]. split; [exact Hne'|]. right. auto. }
  rewrite Hui.
  destruct (prepare_ok tbl ch m (comp_data (dedup_parts [] (map part_of insts)))) as [uc Huc].
  { intros h k ih Hd. apply comp_data_in in Hd. destruct Hd as [-> [j [c Hp]]].
    destruct (Hpart _ _ _ Hp) as [i [Hi [Ep Eh]]].
    assert (Hwf : wf_inst tbl i) by (rewrite Forall_forall in Hwi; auto).
    exists (icls i). split; [rewrite <- Eh; apply find_cls_in; [apply Hw | apply Hwf]|].
    intros Hne _. apply Hgood; [exact Hi|]. split; [exact Hne | left; reflexivity]. }
  rewrite Huc. eexists; eexists; reflexivity.
Qed.
(* ================================================================================================ *)
(* The hypothesis "class hashes are distinct" (first half of wf_table) is necessary                  *)
(* ================================================================================================ *)
(* Two classes with the same import path (module + name) get the same `_class_hash`, hence the same cache entry
   and the same URL: `_is_script_in_cache` finds the entry of the class rendered first and the second class's
   code is never stored.  With wf_table weakened to its second half (hashes are URL segments) the main theorem is
   false: the URL announced by the render of the second class answers 200 with the FIRST class's code. *)
Local Open Scope string_scope.
Definition dup1 : cdef := {| chash := s2n "Dup_0a0a0a"; cjs := Some (s2n "first()"); ccss := None |}.
Definition dup2 : cdef := {| chash := s2n "Dup_0a0a0a"; cjs := Some (s2n "second()"); ccss := None |}.
Local Close Scope string_scope.

Lemma same_hash_served_first_code :
  let tbl := [dup1; dup2] in
  let pre := [ORender Fragment [(dup1, None, None)]] in
  let insts := [(dup2, None, None)] in
  Forall (fun c => seg_ok (chash c)) tbl /\ Forall (wf_op tbl) pre /\ Forall (wf_inst tbl) insts /\
  ~ NoDup (map chash tbl) /\
  snd (step tbl (final tbl [] pre) (ORender Fragment insts)) = OutUrls [url (chash dup2) KJs None] [] /\
  serve tbl (final tbl [] (pre ++ [ORender Fragment insts])) GET (url (chash dup2) KJs None)
    = R200 (stripped dup1 KJs) (ctype KJs) /\
  stripped dup1 KJs <> stripped dup2 KJs.
Proof.
  cbv zeta.
  assert (Hseg : seg_ok (chash dup1)) by (split; [discriminate | cbv; intuition discriminate]).
  assert (Hi1 : wf_inst [dup1; dup2] (dup1, None, None)) by (cbv; tauto).
  assert (Hi2 : wf_inst [dup1; dup2] (dup2, None, None)) by (cbv; tauto).
  split; [apply Forall_cons; [exact Hseg | apply Forall_cons; [exact Hseg | apply Forall_nil]]|].
  split; [apply Forall_cons; [apply Forall_cons; [exact Hi1 | apply Forall_nil] | apply Forall_nil]|].
  split; [apply Forall_cons; [exact Hi2 | apply Forall_nil]|].
  split; [intro H; inversion H as [|x l Hn _]; apply Hn; left; reflexivity|].
  split; [vm_compute; reflexivity|].
  split; [vm_compute; reflexivity|].
  vm_compute; discriminate.
Qed.

Lemma emitted_url_served_without_distinct_hashes_refuted_lemma :
  ~ (forall tbl pre m insts js css,
       Forall (fun c => seg_ok (chash c)) tbl -> Forall (wf_op tbl) pre -> Forall (wf_inst tbl) insts ->
       snd (step tbl (final tbl [] pre) (ORender m insts)) = OutUrls js css ->
       forall u, In u (js ++ css) ->
       exists i k ih,
         In i insts /\ produced i k ih /\ u = url (chash (icls i)) k ih /\
         forall mid, no_evict (gen_cache_key (chash (icls i)) (kstr k) ih) mid ->
           serve tbl (final tbl [] (pre ++ ORender m insts :: mid)) GET u
             = R200 (expected (icls i) k ih) (ctype k)).
Proof.
  intro H.
  destruct same_hash_served_first_code as [Hseg [Hpre [Hin [_ [Hout [Hserve _]]]]]].
  destruct (H _ _ _ _ _ _ Hseg Hpre Hin Hout (url (chash dup2) KJs None) (or_introl eq_refl))
    as [i [k [ih [Hi [_ [_ Hs]]]]]].
  destruct Hi as [<-|[]].
  specialize (Hs [] eq_refl). rewrite Hserve in Hs. unfold expected in Hs. simpl icls in Hs.
  destruct k; destruct (norm_ih ih); vm_compute in Hs; discriminate.
Qed.

(* ================================================================================================ *)
(* Anchors: the hand-written matcher / formats are the ones of the current source                     *)
(* (coq/Gen/C19.v is regenerated from /repo on every run; an edit there breaks these obligations)     *)
(* ================================================================================================ *)
From DJC Require Gen.C19.
Local Open Scope string_scope.
Example route1_anchor : Gen.C19.route1 = s2n "cache/<str:comp_cls_hash>.<str:input_hash>.<str:script_type>".
Proof. reflexivity. Qed.
Example route2_anchor : Gen.C19.route2 = s2n "cache/<str:comp_cls_hash>.<str:script_type>".
Proof. reflexivity. Qed.
Example str_converter_anchor : Gen.C19.str_converter_regex = s2n "[^/]+".
Proof. reflexivity. Qed.
Example mount_anchor : url_prefix = (s2n "/" ++ Gen.C19.mount ++ s2n "cache/")%list.
Proof. reflexivity. Qed.
Example content_types_anchor : Gen.C19.content_types = [(kstr KCss, ctype KCss); (kstr KJs, ctype KJs)].
Proof. reflexivity. Qed.
Example content_type_anchor :
  forallb (fun p => option_eqb str_eqb (content_type (fst p)) (Some (snd p))) Gen.C19.content_types = true.
Proof. reflexivity. Qed.
Example key_with_anchor : gen_cache_key (s2n "H") (s2n "K") (Some (s2n "I")) = Gen.C19.key_with_input.
Proof. reflexivity. Qed.
Example key_without_anchor : gen_cache_key (s2n "H") (s2n "K") None = Gen.C19.key_without_input.
Proof. reflexivity. Qed.
Example key_empty_anchor : gen_cache_key (s2n "H") (s2n "K") (Some []) = Gen.C19.key_empty_input.
Proof. reflexivity. Qed.
Example url_with_anchor : url (s2n "H") KJs (Some (s2n "I")) = Gen.C19.url_js_with_input.
Proof. reflexivity. Qed.
Example url_without_anchor : url (s2n "H") KCss None = Gen.C19.url_css_without_input.
Proof. reflexivity. Qed.
(* The state of the model is a dictionary that loses entries only through OEvict / OClear.  That is a statement about the
   CODE under test (cache.py get_component_media_cache, as django.core.cache.backends.base.BaseCache.__init__ reads the
   params): the default media cache is a LocMemCache whose entries never expire (default_timeout None; a number would make
   every script vanish that many seconds after it was FIRST stored - the has_key guard never re-stores) and which is never
   culled for size (LocMemCache drops the least recently used 1/cull_frequency of the entries when max_entries is reached,
   possibly in the middle of the render that has just stored them). *)
Example media_cache_class_anchor :
  Gen.C19.media_cache_class = s2n "django.core.cache.backends.locmem.LocMemCache".
Proof. reflexivity. Qed.
Example media_cache_timeout_anchor : Gen.C19.media_cache_timeout = None.
Proof. reflexivity. Qed.
Example media_cache_unbounded_anchor : N.leb (2 ^ 62) Gen.C19.media_cache_max_entries = true.
Proof. reflexivity. Qed.
Local Close Scope string_scope.
