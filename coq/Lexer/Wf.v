(* Well-formedness of the token streams of Lexer/Model.v (property C09): anchors, the stock lexer, the scan of
   _detailed_tag_parser, the loop invariant of parse_template, termination.  Top file: Lexer/Proofs.v. *)
From Coq Require Import String.
From DJC Require Import Lib.Base Lexer.Model.
From DJC Require Gen.C09.

(* ---------- anchors: the source constants the hand matchers were written for ---------- *)
Example tag_re_anchor : Gen.C09.tag_re_pattern = s2n "({%.*?%}|{{.*?}}|{#.*?#})"%string.
Proof. reflexivity. Qed.
Example tag_delims_anchor :
  Gen.C09.tag_delims = map s2n ["{%"; "%}"; "{{"; "}}"; "{#"; "#}"]%string.
Proof. reflexivity. Qed.
Example take_until_anchor :
  Gen.C09.take_until_patterns =
  map s2n ["(?:\\.|[^'])*"; "(?:\\.|[^""])*"; "[^'""%]*"]%string.
Proof. reflexivity. Qed.
(* the two take_until_any call sites and the stop-character tuples of _detailed_tag_parser, as written in the source
   (ast.unparse); since fbbed58 there is no call with QUOTE_CHARS any more *)
Example take_until_calls_anchor :
  Gen.C09.take_until_calls =
  map s2n ["take_until_any((quote_char,), allow_escapes=True)"; "take_until_any(QUOTE_OR_PERCENT)"]%string.
Proof. reflexivity. Qed.
Example scan_stop_chars_anchor :
  Gen.C09.scan_stop_chars =
  map s2n ["QUOTE_CHARS = (""'"", '""')"; "QUOTE_OR_PERCENT = (*QUOTE_CHARS, '%')"]%string.
Proof. reflexivity. Qed.
Example py_isspace_anchor : Gen.C09.py_space_chars = py_space_chars.
Proof. reflexivity. Qed.
Example token_type_anchor :
  Gen.C09.token_type_values = map toktype_code [TText; TVar; TBlock; TComment].
Proof. reflexivity. Qed.

(* ====================================================================================== *)
(* list / string basics                                                                   *)
(* ====================================================================================== *)
Lemma count_sym_app c a b : count_sym c (a ++ b) = (count_sym c a + count_sym c b)%N.
Proof.
  induction a as [|x a IH]; cbn [count_sym app]; [reflexivity|]. rewrite IH. lia.
Qed.

Lemma count_nl_app a b : count_nl (a ++ b) = count_nl a + count_nl b.
Proof. unfold count_nl. rewrite count_sym_app. lia. Qed.

Lemma firstn_add {A} (a b : nat) (s : list A) :
  firstn (a + b) s = firstn a s ++ firstn b (skipn a s).
Proof.
  revert s; induction a as [|a IH]; intros s; [reflexivity|].
  destruct s as [|x s]; cbn [Nat.add firstn skipn app].
  - rewrite firstn_nil. reflexivity.
  - rewrite IH. reflexivity.
Qed.

Lemma count_nl_firstn_add a b s :
  count_nl (firstn (a + b) s) = count_nl (firstn a s) + count_nl (firstn b (skipn a s)).
Proof. rewrite firstn_add, count_nl_app. reflexivity. Qed.

Lemma skipn_skipn {A} (x y : nat) (l : list A) : skipn x (skipn y l) = skipn (y + x) l.
Proof.
  revert l; induction y as [|y IH]; intros l; [reflexivity|].
  destruct l as [|a l]; cbn [Nat.add skipn]; [apply skipn_nil|apply IH].
Qed.

Lemma slice_skipn s i a b : slice (skipn i s) a b = slice s (i + a) (i + b).
Proof.
  unfold slice. rewrite skipn_skipn. replace (i + b - (i + a)) with (b - a) by lia. reflexivity.
Qed.

Lemma slice_len s a n : slice s a (a + n) = firstn n (skipn a s).
Proof. unfold slice. replace (a + n - a) with n by lia. reflexivity. Qed.

Lemma skipn_nil_length {A} n (s : list A) : skipn n s = [] -> n <= length s -> n = length s.
Proof.
  intros H L. assert (E : length (skipn n s) = 0) by (rewrite H; reflexivity).
  rewrite skipn_length in E. lia.
Qed.

(* ====================================================================================== *)
(* token well-formedness w.r.t. a source: the three local clauses of the property          *)
(* ====================================================================================== *)
Definition opener (ty : toktype) : str :=
  match ty with
  | TText => [] | TVar => [c_lbrace; c_lbrace] | TBlock => [c_lbrace; c_pct] | TComment => [c_lbrace; c_hash]
  end.
Definition closer (ty : toktype) : str :=
  match ty with
  | TText => [] | TVar => [c_rbrace; c_rbrace] | TBlock => [c_pct; c_rbrace] | TComment => [c_hash; c_rbrace]
  end.

Definition tok_wf (s : str) (t : tok) : Prop :=
  tstart t < tend t /\ tend t <= length s /\
  tline t = 1 + count_nl (firstn (tstart t) s) /\
  match ttype t with
  | TText => tcontents t = slice s (tstart t) (tend t)
  | ty => tstart t + 4 <= tend t /\
          slice s (tstart t) (tstart t + 2) = opener ty /\
          slice s (tend t - 2) (tend t) = closer ty /\
          tcontents t = strip (slice s (tstart t + 2) (tend t - 2))
  end.

Fixpoint chain (a : nat) (l : list tok) (b : nat) : Prop :=
  match l with
  | [] => a = b
  | t :: r => tstart t = a /\ chain (tend t) r b
  end.

Lemma chain_app a l1 m l2 b : chain a l1 m -> chain m l2 b -> chain a (l1 ++ l2) b.
Proof.
  revert a; induction l1 as [|t l1 IH]; intros a H1 H2; cbn in *.
  - subst. exact H2.
  - destruct H1 as [E H1]. split; [exact E|]. eapply IH; eauto.
Qed.

Lemma chain_app_inv a l1 l2 b : chain a (l1 ++ l2) b -> exists m, chain a l1 m /\ chain m l2 b.
Proof.
  revert a; induction l1 as [|t l1 IH]; intros a H; cbn in *.
  - exists a. split; [reflexivity|exact H].
  - destruct H as [E H]. destruct (IH _ H) as [m [H1 H2]]. exists m. repeat split; assumption.
Qed.

(* ====================================================================================== *)
(* tag_re matcher                                                                          *)
(* ====================================================================================== *)
Lemma find_close_spec d c1 c2 s j : find_close d c1 c2 s = Some j ->
  j + 2 <= length s /\ firstn 2 (skipn j s) = [c1; c2].
Proof.
  revert j; induction s as [|x r IH]; intros j H; cbn [find_close] in H; [discriminate|].
  destruct (N.eqb x c1 && match r with y :: _ => N.eqb y c2 | [] => false end) eqn:E.
  - inversion H; subst. apply andb_true_iff in E as [E1 E2]. destruct r as [|y r']; [discriminate|].
    apply N.eqb_eq in E1, E2. subst. cbn. split; [lia|reflexivity].
  - destruct (negb d && N.eqb x c_nl); [discriminate|].
    destruct (find_close d c1 c2 r) as [j'|] eqn:F; [|discriminate]. cbn in H. inversion H; subst.
    destruct (IH j' eq_refl) as [L F2]. cbn [length skipn]. split; [lia|exact F2].
Qed.

Lemma tag_at_spec d s len : tag_at d s = Some len ->
  exists c1 c2, nth 0 s 0%N = c_lbrace /\ closer_of (nth 1 s 0%N) = Some (c1, c2) /\
    4 <= len <= length s /\ firstn 2 (skipn (len - 2) s) = [c1; c2].
Proof.
  intros H. destruct s as [|o [|k r]]; try discriminate. cbn [tag_at] in H.
  destruct (N.eqb o c_lbrace) eqn:Eo; [|discriminate]. apply N.eqb_eq in Eo.
  destruct (closer_of k) as [[c1 c2]|] eqn:Ek; [|discriminate].
  destruct (find_close d c1 c2 r) as [j|] eqn:F; [|discriminate]. cbn in H. inversion H; subst len.
  destruct (find_close_spec _ _ _ _ _ F) as [L F2].
  exists c1, c2. cbn [nth length]. repeat split; try assumption; try lia.
Qed.

Lemma text_run_bounds d s : s <> [] -> tag_at d s = None -> 1 <= text_run d s <= length s.
Proof.
  intros Hne Hn. destruct s as [|c r]; [congruence|]. cbn [text_run]. rewrite Hn.
  assert (text_run d r <= length r).
  { clear. induction r as [|x r IH]; cbn [text_run length]; [lia|].
    destruct (tag_at d (x :: r)); lia. }
  cbn [length]. lia.
Qed.

Lemma inner_firstn len s : 4 <= len <= length s -> inner (firstn len s) = firstn (len - 4) (skipn 2 s).
Proof.
  intros L. unfold inner. rewrite firstn_length_le by lia.
  rewrite skipn_firstn_comm, firstn_firstn. f_equal. lia.
Qed.

Lemma nth1_firstn len (s : str) : 2 <= len -> nth 1 (firstn len s) 0%N = nth 1 s 0%N.
Proof.
  intros L. destruct len as [|[|len]]; try lia. destruct s as [|a [|b s]]; reflexivity.
Qed.

Definition tag_type (k : N) : toktype :=
  if N.eqb k c_pct then TBlock else if N.eqb k c_lbrace then TVar else TComment.

Lemma closer_of_tag_type k c1 c2 : closer_of k = Some (c1, c2) ->
  [c_lbrace; k] = opener (tag_type k) /\ [c1; c2] = closer (tag_type k) /\ tag_type k <> TText.
Proof.
  unfold closer_of, tag_type. intros H.
  destruct (N.eqb k c_pct) eqn:E1; [apply N.eqb_eq in E1; inversion H; subst; repeat split; discriminate|].
  destruct (N.eqb k c_lbrace) eqn:E2; [apply N.eqb_eq in E2; inversion H; subst; repeat split; discriminate|].
  destruct (N.eqb k c_hash) eqn:E3; [apply N.eqb_eq in E3; inversion H; subst; repeat split; discriminate|].
  discriminate.
Qed.

Lemma firstn2_nth (s : str) : 2 <= length s -> firstn 2 s = [nth 0 s 0%N; nth 1 s 0%N].
Proof. destruct s as [|a [|b s]]; cbn [length]; try lia. reflexivity. Qed.

(* what create_token returns for a tag_re match *)
Lemma create_token_spec d v s len pos line t v' :
  tag_at d s = Some len -> create_token v (firstn len s) pos line = (t, v') ->
  4 <= len <= length s /\ tstart t = pos /\ tend t = pos + len /\ tline t = line /\
  ( (ttype t = TText /\ tcontents t = firstn len s) \/
    (ttype t <> TText /\ firstn 2 s = opener (ttype t) /\
     firstn 2 (skipn (len - 2) s) = closer (ttype t) /\
     tcontents t = strip (firstn (len - 4) (skipn 2 s))) ).
Proof.
  intros T C. destruct (tag_at_spec _ _ _ T) as [c1 [c2 [H0 [Hk [L Hc]]]]].
  destruct (closer_of_tag_type _ _ _ Hk) as [Ho [Hcl Hnt]].
  unfold create_token in C. rewrite nth1_firstn in C by lia. rewrite inner_firstn in C by lia.
  rewrite firstn_length_le in C by lia.
  assert (Hop : firstn 2 s = opener (tag_type (nth 1 s 0%N))).
  { rewrite firstn2_nth by lia. rewrite H0. exact Ho. }
  rewrite Hcl in Hc.
  split; [exact L|].
  unfold tag_type in *.
  assert (HL : forall ty, ty <> TText -> firstn 2 s = opener ty -> firstn 2 (skipn (len - 2) s) = closer ty ->
     ty = TText /\ strip (firstn (len - 4) (skipn 2 s)) = firstn len s \/
     ty <> TText /\ firstn 2 s = opener ty /\ firstn 2 (skipn (len - 2) s) = closer ty /\
     strip (firstn (len - 4) (skipn 2 s)) = strip (firstn (len - 4) (skipn 2 s))).
  { intros ty A B D. right. repeat split; assumption. }
  destruct (N.eqb (nth 1 s 0%N) c_pct) eqn:E1.
  - destruct v as [name|].
    + destruct (str_eqb _ name); inversion C; subst; cbn [tstart tend tline ttype tcontents];
        (split; [reflexivity|split; [reflexivity|split; [reflexivity|]]]).
      * apply HL; assumption.
      * left. split; reflexivity.
    + inversion C; subst; cbn [tstart tend tline ttype tcontents];
        (split; [reflexivity|split; [reflexivity|split; [reflexivity|]]]). apply HL; assumption.
  - destruct v as [name|].
    + inversion C; subst; cbn [tstart tend tline ttype tcontents];
        (split; [reflexivity|split; [reflexivity|split; [reflexivity|]]]). left. split; reflexivity.
    + inversion C; subst; cbn [tstart tend tline ttype tcontents];
        (split; [reflexivity|split; [reflexivity|split; [reflexivity|]]]).
      destruct (N.eqb (nth 1 s 0%N) c_lbrace); apply HL; assumption.
Qed.

(* ====================================================================================== *)
(* DebugLexer.tokenize: every token is well-formed w.r.t. the lexed string, tokens chain    *)
(* ====================================================================================== *)
Lemma lex_go_unfold f d v s pos line : s <> [] ->
  lex_go (S f) d v s pos line =
  match tag_at d s with
  | Some len =>
      let '(t, v') := create_token v (firstn len s) pos line in
      t :: lex_go f d v' (skipn len s) (pos + len) (line + count_nl (firstn len s))
  | None =>
      mkTok TText (firstn (text_run d s) s) pos (pos + text_run d s) line
        :: lex_go f d v (skipn (text_run d s) s) (pos + text_run d s)
                  (line + count_nl (firstn (text_run d s) s))
  end.
Proof. intros H. destruct s; [congruence|reflexivity]. Qed.

Lemma lex_go_wf s0 d : forall fuel v s pos line,
  s = skipn pos s0 -> pos <= length s0 -> line = 1 + count_nl (firstn pos s0) -> length s <= fuel ->
  Forall (tok_wf s0) (lex_go fuel d v s pos line) /\ chain pos (lex_go fuel d v s pos line) (length s0).
Proof.
  induction fuel as [|f IH]; intros v s pos line Hs Hp Hl Hf.
  - assert (E0 : s = []) by (destruct s; [reflexivity|cbn in Hf; lia]).
    rewrite E0 in Hs. symmetry in Hs. apply skipn_nil_length in Hs; [|assumption].
    cbn. split; [constructor|assumption].
  - destruct s as [|c r] eqn:Es.
    + cbn. split; [constructor|]. symmetry in Hs. apply skipn_nil_length in Hs; assumption.
    + rewrite <- Es in *. assert (Hlen : length s = length s0 - pos) by (rewrite Hs; apply skipn_length).
      assert (Hne : s <> []) by (rewrite Es; discriminate).
      rewrite lex_go_unfold by exact Hne.
      (* common recursion step *)
      assert (Step : forall len v', 1 <= len <= length s ->
                Forall (tok_wf s0) (lex_go f d v' (skipn len s) (pos + len) (line + count_nl (firstn len s))) /\
                chain (pos + len) (lex_go f d v' (skipn len s) (pos + len) (line + count_nl (firstn len s))) (length s0)).
      { intros len v' L. apply IH.
        - rewrite Hs. apply skipn_skipn.
        - lia.
        - rewrite Hl, Hs. rewrite count_nl_firstn_add. lia.
        - rewrite skipn_length. lia. }
      destruct (tag_at d s) as [len|] eqn:T.
      * destruct (create_token v (firstn len s) pos line) as [t v'] eqn:CT.
        destruct (create_token_spec _ _ _ _ _ _ _ _ T CT) as [L [Hst [Hen [Hln Hc]]]].
        destruct (Step len v' ltac:(lia)) as [S1 S2].
        split.
        -- constructor; [|exact S1]. unfold tok_wf. rewrite Hst, Hen, Hln.
           split; [lia|]. split; [lia|]. split; [exact Hl|].
           destruct Hc as [[Hty Hct]|[Hty [Hop [Hcl Hct]]]].
           ++ rewrite Hty, Hct, Hs. symmetry. apply slice_len.
           ++ assert (G : 4 + pos <= pos + len /\
                          slice s0 pos (pos + 2) = opener (ttype t) /\
                          slice s0 (pos + len - 2) (pos + len) = closer (ttype t) /\
                          tcontents t = strip (slice s0 (pos + 2) (pos + len - 2))).
              { split; [lia|]. split; [rewrite slice_len, <- Hs; exact Hop|].
                split.
                - replace (pos + len) with ((pos + len - 2) + 2) at 2 by lia. rewrite slice_len.
                  rewrite <- Hcl, Hs, skipn_skipn. f_equal. f_equal. lia.
                - rewrite Hct. f_equal. unfold slice. rewrite Hs, skipn_skipn. f_equal. lia. }
              destruct G as [G1 [G2 [G3 G4]]].
              destruct (ttype t); [congruence| | |]; (split; [lia|split; [exact G2|split; [exact G3|exact G4]]]).
        -- cbn [chain]. rewrite Hst, Hen. split; [reflexivity|exact S2].
      * destruct (text_run_bounds d s Hne T) as [L1 L2].
        destruct (Step (text_run d s) v ltac:(lia)) as [S1 S2].
        split.
        -- constructor; [|exact S1]. unfold tok_wf. cbn [tstart tend tline ttype tcontents].
           split; [lia|]. split; [lia|]. split; [exact Hl|]. rewrite Hs. symmetry. apply slice_len.
        -- cbn [chain tstart tend]. split; [reflexivity|exact S2].
Qed.

Lemma django_lex_v_wf d v s :
  Forall (tok_wf s) (django_lex_v d v s) /\ chain 0 (django_lex_v d v s) (length s).
Proof. unfold django_lex_v. apply lex_go_wf; [reflexivity|lia|reflexivity|lia]. Qed.

(* ====================================================================================== *)
(* the scan of _detailed_tag_parser                                                        *)
(* ====================================================================================== *)
Lemma dfa_closed_spec : forall s m n k, dfa_run m s n = Closed k ->
  exists j, k = n + j /\ j <= length s /\
    ((m = MPct /\ j = 1 /\ firstn 1 s = [c_rbrace]) \/
     (2 <= j /\ firstn 2 (skipn (j - 2) s) = [c_pct; c_rbrace])).
Proof.
  induction s as [|c r IH]; intros m n k H; [destruct m; discriminate|].
  (* any recursive call from a state other than MPct-entering *)
  assert (Rec : forall m', m' <> MPct -> dfa_run m' r (S n) = Closed k ->
     exists j, k = n + j /\ j <= length (c :: r) /\
       ((m = MPct /\ j = 1 /\ firstn 1 (c :: r) = [c_rbrace]) \/
        (2 <= j /\ firstn 2 (skipn (j - 2) (c :: r)) = [c_pct; c_rbrace]))).
  { intros m' Hm' H'. destruct (IH _ _ _ H') as [j [E [L [[A _]|[B1 B2]]]]]; [congruence|].
    exists (S j). split; [lia|]. split; [cbn [length]; lia|]. right. split; [lia|].
    replace (S j - 2) with (S (j - 2)) by lia. exact B2. }
  destruct m; cbn [dfa_run] in H.
  - destruct (is_quote c); [apply (Rec (MQuote c)); [discriminate|exact H]|].
    destruct (N.eqb c c_pct) eqn:E; [|apply (Rec MNormal); [discriminate|exact H]].
    apply N.eqb_eq in E. destruct (IH _ _ _ H) as [j [Ek [L [[_ [A2 A3]]|[B1 B2]]]]].
    + exists 2. split; [lia|]. split; [cbn [length]; destruct r; [discriminate|cbn [length]; lia]|].
      right. split; [lia|]. cbn [Nat.sub skipn]. destruct r as [|y r]; [discriminate|].
      cbn in A3. inversion A3. subst. reflexivity.
    + exists (S j). split; [lia|]. split; [cbn [length]; lia|]. right. split; [lia|].
      replace (S j - 2) with (S (j - 2)) by lia. exact B2.
  - destruct (N.eqb c c_rbrace) eqn:E.
    + apply N.eqb_eq in E. inversion H; subst. exists 1. split; [lia|]. split; [cbn [length]; lia|].
      left. repeat split.
    + destruct (is_quote c); [apply (Rec (MQuote c)); [discriminate|exact H]|].
      destruct (N.eqb c c_pct) eqn:E2; [|apply (Rec MNormal); [discriminate|exact H]].
      apply N.eqb_eq in E2. destruct (IH _ _ _ H) as [j [Ek [L [[_ [A2 A3]]|[B1 B2]]]]].
      * exists 2. split; [lia|]. split; [cbn [length]; destruct r; [discriminate|cbn [length]; lia]|].
        right. split; [lia|]. cbn [Nat.sub skipn]. destruct r as [|y r]; [discriminate|].
        cbn in A3. inversion A3. subst. reflexivity.
      * exists (S j). split; [lia|]. split; [cbn [length]; lia|]. right. split; [lia|].
        replace (S j - 2) with (S (j - 2)) by lia. exact B2.
  - destruct (N.eqb c q); [apply (Rec MNormal); [discriminate|exact H]|].
    destruct (N.eqb c c_bslash); [apply (Rec (MEsc q)); [discriminate|exact H]|
                                  apply (Rec (MQuote q)); [discriminate|exact H]].
  - apply (Rec (MQuote q)); [discriminate|exact H].
Qed.

(* _detailed_tag_parser on text (which starts with the opener at absolute position st) *)
Lemma detailed_spec text ln st fixed : detailed text ln st = inr fixed ->
  exists n, 4 <= n <= length text /\ firstn 2 (skipn (n - 2) text) = [c_pct; c_rbrace] /\
    fixed = mkTok TBlock (strip (slice text 2 (n - 2))) st (n + st) ln.
Proof.
  unfold detailed. intros H. destruct (dfa_run MNormal (skipn 2 text) 2) as [n|m] eqn:D; [|discriminate].
  inversion H; subst fixed. destruct (dfa_closed_spec _ _ _ _ D) as [j [E [L [[A _]|[B1 B2]]]]]; [discriminate|].
  rewrite skipn_length in L. exists n. split; [lia|]. split; [|reflexivity].
  rewrite skipn_skipn in B2. replace (n - 2) with (2 + (j - 2)) by lia. exact B2.
Qed.

(* ====================================================================================== *)
(* parse_template: shifting, splitting, the loop invariant                                  *)
(* ====================================================================================== *)
Lemma shift_tok_wf s i off t :
  i <= length s -> off = count_nl (firstn i s) -> tok_wf (skipn i s) t -> tok_wf s (shift_tok i off t).
Proof.
  intros Hi Hoff [H1 [H2 [H3 H4]]]. rewrite skipn_length in H2.
  unfold tok_wf, shift_tok. cbn [tstart tend tline ttype tcontents].
  split; [lia|]. split; [lia|]. split.
  - rewrite H3, Hoff. replace (tstart t + i) with (i + tstart t) by lia.
    rewrite count_nl_firstn_add. lia.
  - destruct (ttype t).
    + rewrite H4, slice_skipn. f_equal; lia.
    + destruct H4 as [A [B [D E]]]. split; [lia|]. rewrite slice_skipn in B, D, E.
      split; [rewrite <- B; f_equal; lia|]. split; [rewrite <- D; f_equal; lia|].
      rewrite E. f_equal. f_equal; lia.
    + destruct H4 as [A [B [D E]]]. split; [lia|]. rewrite slice_skipn in B, D, E.
      split; [rewrite <- B; f_equal; lia|]. split; [rewrite <- D; f_equal; lia|].
      rewrite E. f_equal. f_equal; lia.
    + destruct H4 as [A [B [D E]]]. split; [lia|]. rewrite slice_skipn in B, D, E.
      split; [rewrite <- B; f_equal; lia|]. split; [rewrite <- D; f_equal; lia|].
      rewrite E. f_equal. f_equal; lia.
Qed.

Lemma chain_shift i off a l b :
  chain a l b -> chain (a + i) (map (shift_tok i off) l) (b + i).
Proof.
  revert a; induction l as [|t l IH]; intros a H; cbn in *; [lia|].
  destruct H as [E H]. split; [lia|]. apply IH. exact H.
Qed.

Lemma split_broken_spec l g b : split_broken l = (g, b) ->
  Forall (fun t => is_broken t = false) g /\
  match b with
  | None => l = g
  | Some t => is_broken t = true /\ exists rest, l = g ++ t :: rest
  end.
Proof.
  revert g b; induction l as [|t l IH]; intros g b H; cbn [split_broken] in H.
  - inversion H; subst. split; [constructor|reflexivity].
  - destruct (is_broken t) eqn:E.
    + inversion H; subst. split; [constructor|]. split; [exact E|]. exists l. reflexivity.
    + destruct (split_broken l) as [g' b'] eqn:S. inversion H; subst.
      destruct (IH _ _ eq_refl) as [F M]. split; [constructor; assumption|].
      destruct b as [t'|].
      * destruct M as [Bt [rest Hr]]. split; [exact Bt|]. exists rest. rewrite Hr. reflexivity.
      * rewrite M. reflexivity.
Qed.

(* the restarted lexer run, shifted to absolute coordinates *)
Lemma restart_wf d v s i off :
  i <= length s -> off = count_nl (firstn i s) ->
  Forall (tok_wf s) (map (shift_tok i off) (django_lex_v d v (skipn i s))) /\
  chain i (map (shift_tok i off) (django_lex_v d v (skipn i s))) (length s).
Proof.
  intros Hi Hoff. destruct (django_lex_v_wf d v (skipn i s)) as [F C]. split.
  - apply Forall_forall. intros t Ht. apply in_map_iff in Ht as [t' [E Ht']]. subst t.
    apply shift_tok_wf; try assumption. rewrite Forall_forall in F. apply F. exact Ht'.
  - apply (chain_shift i off) in C. rewrite skipn_length in C.
    replace (length s - i + i) with (length s) in C by lia. exact C.
Qed.

Lemma chain_le s a l b : Forall (tok_wf s) l -> chain a l b -> a <= b.
Proof.
  revert a; induction l as [|t l IH]; intros a F C; cbn in C; [lia|].
  destruct C as [E C]. inversion F as [|? ? W F']; subst. apply IH in C; [|exact F'].
  destruct W as [W _]. lia.
Qed.

Lemma is_broken_block t : is_broken t = true -> ttype t = TBlock.
Proof. unfold is_broken. destruct (ttype t); congruence. Qed.

(* what one round of the while loop establishes when it hands a broken token to the detailed parser *)
Lemma round_wf d v s i off good b rest fixed :
  i <= length s -> off = count_nl (firstn i s) ->
  map (shift_tok i off) (django_lex_v d v (skipn i s)) = good ++ b :: rest ->
  is_broken b = true ->
  detailed (skipn (tstart b) s) (tline b) (tstart b) = inr fixed ->
  Forall (tok_wf s) (good ++ [fixed]) /\ chain i (good ++ [fixed]) (tend fixed) /\
  i < tend fixed <= length s /\ tstart fixed = tstart b /\ tline fixed = tline b /\ ttype fixed = TBlock /\
  tstart b + 4 <= tend fixed /\
  tline fixed - 1 + count_nl (slice s (tstart b) (tend fixed)) = count_nl (firstn (tend fixed) s).
Proof.
  intros Hi Hoff E Hb D.
  destruct (restart_wf d v s i off Hi Hoff) as [F C]. rewrite E in F, C.
  apply Forall_app in F as [Fg Fb]. inversion Fb as [|? ? Wb _]; subst.
  apply chain_app_inv in C as [m [Cg Cb]]. cbn [chain] in Cb. destruct Cb as [Em Cr]. subst m.
  assert (Hib : i <= tstart b) by exact (chain_le s i good (tstart b) Fg Cg).
  destruct Wb as [W1 [W2 [W3 W4]]]. rewrite (is_broken_block _ Hb) in W4. destruct W4 as [W4 [W5 [W6 W7]]].
  destruct (detailed_spec _ _ _ _ D) as [n [Ln [Hc Hf]]]. rewrite skipn_length in Ln.
  subst fixed. cbn [tstart tend tline ttype tcontents].
  assert (Wf : tok_wf s {| ttype := TBlock; tcontents := strip (slice (skipn (tstart b) s) 2 (n - 2));
                           tstart := tstart b; tend := n + tstart b; tline := tline b |}).
  { unfold tok_wf. cbn [tstart tend tline ttype tcontents].
    split; [lia|]. split; [lia|]. split; [exact W3|]. split; [lia|]. split; [exact W5|]. split.
    - replace (n + tstart b) with ((n + tstart b - 2) + 2) at 2 by lia. rewrite slice_len.
      rewrite skipn_skipn in Hc. change (closer TBlock) with [c_pct; c_rbrace]. rewrite <- Hc.
      f_equal. f_equal. lia.
    - rewrite slice_skipn. f_equal. f_equal; lia. }
  split; [apply Forall_app; split; [exact Fg|constructor; [exact Wf|constructor]]|].
  split; [eapply chain_app; [exact Cg|cbn; split; reflexivity]|].
  split; [lia|]. split; [reflexivity|]. split; [reflexivity|]. split; [reflexivity|]. split; [lia|].
  rewrite W3. replace (n + tstart b) with (tstart b + n) by lia. rewrite slice_len, count_nl_firstn_add. lia.
Qed.

Lemma pt_go_wf d s : forall fuel i off v acc toks,
  pt_go fuel d s i off v acc = POk toks ->
  i <= length s -> off = count_nl (firstn i s) -> Forall (tok_wf s) acc -> chain 0 acc i ->
  Forall (tok_wf s) toks /\ chain 0 toks (length s).
Proof.
  induction fuel as [|f IH]; intros i off v acc toks H Hi Hoff Fa Ca; cbn [pt_go] in H; [discriminate|].
  destruct (Nat.leb (length s) i) eqn:El.
  - apply Nat.leb_le in El. inversion H; subst. assert (i = length s) by lia. subst i. split; assumption.
  - apply Nat.leb_gt in El.
    destruct (split_broken (map (shift_tok i off) (django_lex_v d v (skipn i s)))) as [good [b|]] eqn:S;
      destruct (split_broken_spec _ _ _ S) as [_ M].
    + destruct M as [Hb [rest E]].
      destruct (detailed (skipn (tstart b) s) (tline b) (tstart b)) as [e|fixed] eqn:D; [discriminate|].
      destruct (round_wf d v s i off good b rest fixed Hi Hoff E Hb D) as [F [C [L [_ [_ [_ [_ Ho]]]]]]].
      eapply IH; [exact H|lia|exact Ho|apply Forall_app; split; assumption|
                  eapply chain_app; eassumption].
    + inversion H; subst toks. destruct (restart_wf d v s i off Hi Hoff) as [F C]. rewrite M in F, C.
      split; [apply Forall_app; split; assumption|eapply chain_app; eassumption].
Qed.

Lemma parse_template_wf d s toks : parse_template d s = POk toks ->
  Forall (tok_wf s) toks /\ chain 0 toks (length s).
Proof.
  unfold parse_template. intros H. eapply pt_go_wf; try exact H; try lia; try reflexivity; constructor.
Qed.

(* ---------- termination: the fuel of parse_template is never exhausted, more fuel changes nothing ---------- *)
Lemma pt_go_fuel d s : forall fuel i off v acc,
  i <= length s -> off = count_nl (firstn i s) -> length s - i < fuel ->
  pt_go fuel d s i off v acc <> POutOfFuel /\
  forall k, pt_go (fuel + k) d s i off v acc = pt_go fuel d s i off v acc.
Proof.
  induction fuel as [|f IH]; intros i off v acc Hi Hoff Hf; [lia|].
  cbn [pt_go Nat.add].
  destruct (Nat.leb (length s) i) eqn:El; [split; [discriminate|reflexivity]|].
  apply Nat.leb_gt in El.
  destruct (split_broken (map (shift_tok i off) (django_lex_v d v (skipn i s)))) as [good [b|]] eqn:S;
    destruct (split_broken_spec _ _ _ S) as [_ M]; [|split; [discriminate|reflexivity]].
  destruct M as [Hb [rest E]].
  destruct (detailed (skipn (tstart b) s) (tline b) (tstart b)) as [e|fixed] eqn:D;
    [split; [discriminate|reflexivity]|].
  destruct (round_wf d v s i off good b rest fixed Hi Hoff E Hb D) as [F [C [L [_ [_ [_ [_ Ho]]]]]]].
  apply IH; [lia|exact Ho|lia].
Qed.

(* ---------- identical to stock when no block tag contains a quote ---------- *)
Lemma shift_tok_0 t : shift_tok 0 0 t = t.
Proof. destruct t. unfold shift_tok. cbn. rewrite !Nat.add_0_r. reflexivity. Qed.

Lemma map_shift_0 l : map (shift_tok 0 0) l = l.
Proof. induction l as [|t l IH]; cbn [map]; [reflexivity|]. rewrite shift_tok_0, IH. reflexivity. Qed.

Lemma split_broken_none l : Forall (fun t => is_broken t = false) l -> split_broken l = (l, None).
Proof.
  induction l as [|t l IH]; intros F; [reflexivity|]. inversion F; subst. cbn [split_broken].
  rewrite H1, IH by assumption. reflexivity.
Qed.

Lemma eq_stock_no_broken d s :
  Forall (fun t => is_broken t = false) (django_lex d s) -> parse_template d s = POk (django_lex d s).
Proof.
  intros F. unfold parse_template. cbn [pt_go]. destruct (Nat.leb (length s) 0) eqn:El.
  - apply Nat.leb_le in El. destruct s; [reflexivity|cbn in El; lia].
  - cbn [skipn]. fold (django_lex d s). rewrite map_shift_0, split_broken_none by exact F. reflexivity.
Qed.

(* ---------- the spans concatenate to the source ---------- *)
Lemma slice_split s a m b : a <= m -> m <= b -> slice s a b = slice s a m ++ slice s m b.
Proof.
  intros H1 H2. unfold slice. replace (b - a) with ((m - a) + (b - m)) by lia.
  rewrite firstn_add, skipn_skipn. replace (a + (m - a)) with m by lia. reflexivity.
Qed.

Lemma chain_concat s : forall l a b, Forall (tok_wf s) l -> chain a l b ->
  concat (map (fun t => slice s (tstart t) (tend t)) l) = slice s a b.
Proof.
  induction l as [|t l IH]; intros a b F C; cbn in *.
  - subst. unfold slice. rewrite Nat.sub_diag. reflexivity.
  - destruct C as [E C]. inversion F as [|? ? W F']; subst.
    rewrite (IH _ _ F' C). symmetry. apply slice_split.
    + destruct W; lia.
    + eapply chain_le; eassumption.
Qed.

Lemma slice_all s : slice s 0 (length s) = s.
Proof. unfold slice. cbn [skipn]. rewrite Nat.sub_0_r. apply firstn_all. Qed.

