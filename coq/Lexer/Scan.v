(* The scan of _detailed_tag_parser ([dfa_run], an automaton with a one-character look-ahead state MPct) finds
   exactly the first percent-brace that is read outside quoted strings, where "outside quoted strings" is the
   percent-oblivious fold [qrun] of Lexer/Model.v; otherwise it fails with the error class of the state the text
   ends in.  Also: where stock Django closes a block tag (the first percent-brace at all), and when the two agree. *)
From Coq Require Import String.
From DJC Require Import Lib.Base Lexer.Model Lexer.Wf.

(* ---------- declarative predicates ---------- *)
Definition close_at (s : str) (j : nat) : Prop := firstn 2 (skipn j s) = [c_pct; c_rbrace].
(* a percent-brace at index j of s, read in state QOut when the scan of s starts in state st *)
Definition unquoted_close_from (st : qstate) (s : str) (j : nat) : Prop :=
  close_at s j /\ qrun st (firstn j s) = QOut.
Definition first_unquoted_close_from (st : qstate) (s : str) (j : nat) : Prop :=
  unquoted_close_from st s j /\ forall i, i < j -> ~ unquoted_close_from st s i.
(* body = the text after the opening brace-percent *)
Definition first_unquoted_close (body : str) (j : nat) : Prop := first_unquoted_close_from QOut body j.
Definition first_close (body : str) (j : nat) : Prop := close_at body j /\ forall i, i < j -> ~ close_at body i.

Lemma first_unquoted_close_unfold body j :
  first_unquoted_close body j <->
  (close_at body j /\ qstate_at body j = QOut) /\
  forall i, i < j -> ~ (close_at body i /\ qstate_at body i = QOut).
Proof. reflexivity. Qed.

(* ---------- find_uclose computes the first unquoted close ---------- *)
Lemma close_at_cons c r j : close_at (c :: r) (S j) <-> close_at r j.
Proof. unfold close_at. cbn [skipn]. reflexivity. Qed.

Lemma qrun_cons st c p : qrun st (c :: p) = qrun (qstep st c) p.
Proof. reflexivity. Qed.

Lemma unquoted_close_cons st c r j :
  unquoted_close_from st (c :: r) (S j) <-> unquoted_close_from (qstep st c) r j.
Proof. unfold unquoted_close_from. rewrite close_at_cons. cbn [firstn]. rewrite qrun_cons. reflexivity. Qed.

Definition head_is (c : N) (s : str) : bool := match s with y :: _ => N.eqb y c | [] => false end.

Lemma find_uclose_unfold st c r :
  find_uclose st (c :: r) =
  if is_qout st && N.eqb c c_pct && head_is c_rbrace r then Some 0
  else option_map S (find_uclose (qstep st c) r).
Proof. reflexivity. Qed.

Lemma unquoted_close_0 st c r :
  unquoted_close_from st (c :: r) 0 <-> is_qout st && N.eqb c c_pct && head_is c_rbrace r = true.
Proof.
  unfold unquoted_close_from, close_at. cbn [skipn firstn qrun fold_left]. split.
  - intros [H E]. subst st. destruct r as [|y r]; [discriminate|]. cbn in H. inversion H; subst.
    reflexivity.
  - intros H. apply andb_true_iff in H as [H H3]. apply andb_true_iff in H as [H1 H2].
    destruct st; try discriminate. apply N.eqb_eq in H2. destruct r as [|y r]; [discriminate|].
    cbn in H3. apply N.eqb_eq in H3. subst. split; reflexivity.
Qed.

Lemma find_uclose_some : forall s st j, find_uclose st s = Some j -> first_unquoted_close_from st s j.
Proof.
  induction s as [|c r IH]; intros st j H; [discriminate|]. rewrite find_uclose_unfold in H.
  destruct (is_qout st && N.eqb c c_pct && head_is c_rbrace r) eqn:E.
  - inversion H; subst j. split; [apply unquoted_close_0; exact E|]. intros i Hi. lia.
  - destruct (find_uclose (qstep st c) r) as [j'|] eqn:F; [|discriminate]. cbn in H. inversion H; subst j.
    destruct (IH _ _ F) as [U M]. split; [apply unquoted_close_cons; exact U|].
    intros [|i] Hi X.
    + apply unquoted_close_0 in X. congruence.
    + apply unquoted_close_cons in X. apply (M i); [lia|exact X].
Qed.

Lemma find_uclose_none : forall s st, find_uclose st s = None -> forall j, ~ unquoted_close_from st s j.
Proof.
  induction s as [|c r IH]; intros st H j X.
  - destruct X as [X _]. unfold close_at in X. rewrite skipn_nil in X. discriminate.
  - rewrite find_uclose_unfold in H.
    destruct (is_qout st && N.eqb c c_pct && head_is c_rbrace r) eqn:E; [discriminate|].
    destruct (find_uclose (qstep st c) r) as [j'|] eqn:F; [discriminate|].
    destruct j as [|j].
    + apply unquoted_close_0 in X. congruence.
    + apply unquoted_close_cons in X. exact (IH _ F j X).
Qed.

Lemma first_unquoted_close_unique st s j1 j2 :
  first_unquoted_close_from st s j1 -> first_unquoted_close_from st s j2 -> j1 = j2.
Proof.
  intros [U1 M1] [U2 M2]. destruct (Nat.lt_trichotomy j1 j2) as [L|[E|L]]; [|exact E|].
  - exfalso. exact (M2 j1 L U1).
  - exfalso. exact (M1 j2 L U2).
Qed.

Lemma find_uclose_complete st s j : first_unquoted_close_from st s j -> find_uclose st s = Some j.
Proof.
  intros H. destruct (find_uclose st s) as [j'|] eqn:F.
  - f_equal. eapply first_unquoted_close_unique; [apply find_uclose_some; exact F|exact H].
  - exfalso. destruct H as [U _]. exact (find_uclose_none _ _ F j U).
Qed.

Lemma find_uclose_iff st s j : find_uclose st s = Some j <-> first_unquoted_close_from st s j.
Proof. split; [apply find_uclose_some|apply find_uclose_complete]. Qed.

Lemma find_uclose_bound st s j : find_uclose st s = Some j -> j + 2 <= length s.
Proof.
  intros H. apply find_uclose_some in H. destruct H as [[H _] _]. unfold close_at in H.
  assert (L : length (firstn 2 (skipn j s)) = 2) by (rewrite H; reflexivity).
  rewrite firstn_length, skipn_length in L. lia.
Qed.

(* ---------- the look-ahead automaton against the declarative scan ---------- *)
Definition mode_of (st : qstate) (pct : bool) : smode :=
  match st with
  | QOut => if pct then MPct else MNormal
  | QIn q => MQuote q
  | QEsc q => MEsc q
  end.

(* r = outcome of the automaton started at index n on s, in the mode that corresponds to quote state st *)
Definition scan_matches (r : scan) (n : nat) (st : qstate) (s : str) : Prop :=
  match r with
  | Closed k => exists j, find_uclose st s = Some j /\ k = n + j + 2
  | EndIn m => find_uclose st s = None /\ err_of_mode m = err_of_qstate (qrun st s)
  end.

Lemma scan_matches_step r n st c rest :
  is_qout st && N.eqb c c_pct && head_is c_rbrace rest = false ->
  scan_matches r (S n) (qstep st c) rest -> scan_matches r n st (c :: rest).
Proof.
  intros E H. unfold scan_matches in *. rewrite find_uclose_unfold, E, qrun_cons. destruct r as [k|m].
  - destruct H as [j [F K]]. exists (S j). rewrite F. split; [reflexivity|lia].
  - destruct H as [F K]. rewrite F. split; [reflexivity|exact K].
Qed.

Lemma is_quote_not_pct c : is_quote c = true -> N.eqb c c_pct = false.
Proof.
  unfold is_quote. intros H. apply orb_true_iff in H as [H|H]; apply N.eqb_eq in H; subst; reflexivity.
Qed.

Lemma dfa_run_find : forall s st pct n,
  (is_qout st && pct && head_is c_rbrace s = true -> dfa_run (mode_of st pct) s n = Closed (S n)) /\
  (is_qout st && pct && head_is c_rbrace s = false -> scan_matches (dfa_run (mode_of st pct) s n) n st s).
Proof.
  induction s as [|c r IH]; intros st pct n.
  - split; [rewrite andb_false_r; discriminate|]. intros _. cbn [dfa_run scan_matches find_uclose qrun fold_left].
    split; [reflexivity|]. destruct st, pct; reflexivity.
  - (* the three-way dispatch shared by MNormal and by MPct on a character other than the closing brace *)
    assert (Disp : forall n0, n0 = n ->
       scan_matches (if is_quote c then dfa_run (MQuote c) r (S n0)
                     else if N.eqb c c_pct then dfa_run MPct r (S n0) else dfa_run MNormal r (S n0)) n QOut (c :: r)).
    { intros n0 En. subst n0. destruct (is_quote c) eqn:Q.
      - apply scan_matches_step; [cbn [is_qout]; rewrite (is_quote_not_pct _ Q); reflexivity|].
        cbn [qstep]. rewrite Q. apply (IH (QIn c) false (S n)). reflexivity.
      - destruct (N.eqb c c_pct) eqn:P.
        + destruct (head_is c_rbrace r) eqn:Hd.
          * destruct (IH QOut true (S n)) as [A _]. change (mode_of QOut true) with MPct in A.
            rewrite A by reflexivity. unfold scan_matches. rewrite find_uclose_unfold. cbn [is_qout andb].
            rewrite P, Hd. exists 0. split; [reflexivity|lia].
          * apply scan_matches_step; [cbn [is_qout andb]; rewrite P, Hd; reflexivity|].
            cbn [qstep]. rewrite Q. apply (IH QOut true (S n)). reflexivity.
        + apply scan_matches_step; [cbn [is_qout andb]; rewrite P; reflexivity|].
          cbn [qstep]. rewrite Q. apply (IH QOut false (S n)). reflexivity. }
    destruct st as [|q|q].
    + destruct pct.
      * cbn [mode_of is_qout andb head_is dfa_run]. destruct (N.eqb c c_rbrace) eqn:B.
        -- split; [reflexivity|discriminate].
        -- split; [discriminate|]. intros _. apply Disp. reflexivity.
      * cbn [mode_of is_qout andb dfa_run]. split; [discriminate|]. intros _. apply Disp. reflexivity.
    + cbn [mode_of is_qout andb dfa_run]. split; [discriminate|]. intros _.
      apply scan_matches_step; [reflexivity|]. cbn [qstep].
      destruct (N.eqb c q); [apply (IH QOut false (S n)); reflexivity|].
      destruct (N.eqb c c_bslash); [apply (IH (QEsc q) false (S n)); reflexivity|
                                    apply (IH (QIn q) false (S n)); reflexivity].
    + cbn [mode_of is_qout andb dfa_run]. split; [discriminate|]. intros _.
      apply scan_matches_step; [reflexivity|]. cbn [qstep]. apply (IH (QIn q) false (S n)). reflexivity.
Qed.

Lemma dfa_run_normal s n : scan_matches (dfa_run MNormal s n) n QOut s.
Proof. apply (dfa_run_find s QOut false n). reflexivity. Qed.

(* _detailed_tag_parser in terms of the declarative scan *)
Lemma detailed_as_find_uclose text ln st0 :
  detailed text ln st0 =
  match find_uclose QOut (skipn 2 text) with
  | Some j => inr (mkTok TBlock (strip (firstn j (skipn 2 text))) st0 (st0 + (j + 4)) ln)
  | None => inl (err_of_qstate (qrun QOut (skipn 2 text)))
  end.
Proof.
  unfold detailed. pose proof (dfa_run_normal (skipn 2 text) 2) as M.
  destruct (dfa_run MNormal (skipn 2 text) 2) as [k|m]; cbn [scan_matches] in M.
  - destruct M as [j [F K]]. rewrite F. subst k. f_equal. f_equal; [|lia].
    f_equal. unfold slice. f_equal. lia.
  - destruct M as [F K]. rewrite F, K. reflexivity.
Qed.

(* ---------- where stock Django closes a tag: the first closing pair at all ---------- *)
Lemma find_close_first d c1 c2 : forall s j, find_close d c1 c2 s = Some j ->
  forall i, i < j -> firstn 2 (skipn i s) <> [c1; c2].
Proof.
  induction s as [|x r IH]; intros j H i Hi; cbn [find_close] in H; [discriminate|].
  destruct (N.eqb x c1 && match r with y :: _ => N.eqb y c2 | [] => false end) eqn:E.
  - inversion H; subst. lia.
  - destruct (negb d && N.eqb x c_nl); [discriminate|].
    destruct (find_close d c1 c2 r) as [j'|] eqn:F; [|discriminate]. cbn in H. inversion H; subst j.
    destruct i as [|i].
    + cbn [skipn]. intros X. destruct r as [|y r]; [discriminate|]. cbn in X. inversion X; subst.
      rewrite !N.eqb_refl in E. discriminate.
    + cbn [skipn]. apply (IH j' eq_refl). lia.
Qed.

Lemma tag_at_block d s len : tag_at d s = Some len -> nth 1 s 0%N = c_pct ->
  exists j, len = j + 4 /\ find_close d c_pct c_rbrace (skipn 2 s) = Some j.
Proof.
  intros H K. destruct s as [|o [|k r]]; try discriminate. cbn [tag_at] in H. cbn [nth] in K. subst k.
  destruct (N.eqb o c_lbrace); [|discriminate]. cbn in H.
  destruct (find_close d c_pct c_rbrace r) as [j|] eqn:F; [|discriminate]. cbn in H. inversion H.
  exists j. split; [lia|exact F].
Qed.

Lemma create_token_block v raw pos line t v' :
  create_token v raw pos line = (t, v') -> ttype t = TBlock -> nth 1 raw 0%N = c_pct.
Proof.
  unfold create_token. destruct (N.eqb (nth 1 raw 0%N) c_pct) eqn:E; [intros _ _; apply N.eqb_eq; exact E|].
  destruct v; intros H Ty; inversion H; subst; cbn in Ty; try discriminate.
  destruct (N.eqb (nth 1 raw 0%N) c_lbrace); discriminate.
Qed.

(* every token of a lexer run was produced by one step of the loop, at some offset k of the lexed string *)
Lemma lex_go_in d : forall f v s pos line t, length s <= f -> In t (lex_go f d v s pos line) ->
  exists k, k <= length s /\ tstart t = pos + k /\
    ((exists len v0 v1, tag_at d (skipn k s) = Some len /\
        create_token v0 (firstn len (skipn k s)) (pos + k) (tline t) = (t, v1)) \/
     ttype t = TText).
Proof.
  induction f as [|f IH]; intros v s pos line t Hf I; [destruct I|].
  destruct s as [|c r] eqn:Es; [destruct I|]. rewrite <- Es in *.
  assert (Hne : s <> []) by (rewrite Es; discriminate).
  rewrite lex_go_unfold in I by exact Hne.
  assert (Rec : forall len v' line', 1 <= len <= length s ->
            In t (lex_go f d v' (skipn len s) (pos + len) line') ->
            exists k, k <= length s /\ tstart t = pos + k /\
              ((exists len0 v0 v1, tag_at d (skipn k s) = Some len0 /\
                  create_token v0 (firstn len0 (skipn k s)) (pos + k) (tline t) = (t, v1)) \/
               ttype t = TText)).
  { intros len v' line' L I'. apply IH in I'; [|rewrite skipn_length; lia].
    destruct I' as [k [Lk [Hs X]]]. rewrite skipn_length in Lk. exists (len + k).
    split; [lia|]. split; [lia|]. rewrite skipn_skipn in X. rewrite <- Nat.add_assoc in X. exact X. }
  destruct (tag_at d s) as [len|] eqn:T.
  - destruct (create_token v (firstn len s) pos line) as [t0 v'] eqn:CT.
    destruct (create_token_spec _ _ _ _ _ _ _ _ T CT) as [L [Hst [_ [Hln _]]]].
    destruct I as [E|I].
    + subst t0. exists 0. split; [lia|]. split; [lia|]. left. exists len, v, v'. cbn [skipn].
      rewrite Nat.add_0_r, Hln. split; [exact T|exact CT].
    + apply (Rec len v' _ ltac:(lia) I).
  - destruct (text_run_bounds d s Hne T) as [L1 L2]. destruct I as [E|I].
    + exists 0. split; [lia|]. subst t. cbn. split; [lia|]. right. reflexivity.
    + apply (Rec (text_run d s) v _ ltac:(lia) I).
Qed.

(* a BLOCK token of the stock lexer ends at the first percent-brace after its opener *)
Lemma stock_block_first_close d v s t : In t (django_lex_v d v s) -> ttype t = TBlock ->
  first_close (skipn (tstart t + 2) s) (tend t - tstart t - 4).
Proof.
  intros I Ty. unfold django_lex_v in I. apply lex_go_in in I; [|lia].
  destruct I as [k [Lk [Hs [[len [v0 [v1 [T CT]]]]|X]]]]; [|congruence].
  cbn [Nat.add] in Hs, CT.
  destruct (create_token_spec _ _ _ _ _ _ _ _ T CT) as [L [Hst [Hen _]]].
  pose proof (create_token_block _ _ _ _ _ _ CT Ty) as K. rewrite nth1_firstn in K by lia.
  destruct (tag_at_block _ _ _ T K) as [j [Ej F]].
  rewrite Hen, Hst. replace (k + len - k - 4) with j by lia.
  replace (k + 2) with (k + 2) by reflexivity. rewrite <- skipn_skipn.
  destruct (find_close_spec _ _ _ _ _ F) as [_ C]. split; [exact C|].
  intros i Hi. exact (find_close_first _ _ _ _ _ F i Hi).
Qed.

(* the detailed scan closes a stock BLOCK token where stock closes it  <->  stock's percent-brace is read
   outside quoted strings *)
Lemma closes_as_stock_iff_unquoted d v s t : In t (django_lex_v d v s) -> ttype t = TBlock ->
  (dfa_run MNormal (skipn (tstart t + 2) s) 2 = Closed (tend t - tstart t) <->
   qstate_at (skipn (tstart t + 2) s) (tend t - tstart t - 4) = QOut).
Proof.
  intros I Ty. pose proof (stock_block_first_close d v s t I Ty) as [C M].
  destruct (django_lex_v_wf d v s) as [F _]. rewrite Forall_forall in F. destruct (F t I) as [_ [_ [_ W]]].
  rewrite Ty in W. destruct W as [W4 _].
  set (body := skipn (tstart t + 2) s) in *. set (j := tend t - tstart t - 4) in *.
  pose proof (dfa_run_normal body 2) as S. split.
  - intros D. rewrite D in S. cbn [scan_matches] in S. destruct S as [j' [Fu K]].
    assert (j' = j) by (unfold j; lia). subst j'. apply find_uclose_some in Fu. destruct Fu as [[_ Q] _]. exact Q.
  - intros Q. assert (Fu : find_uclose QOut body = Some j).
    { apply find_uclose_complete. split; [split; [exact C|exact Q]|].
      intros i Hi [X _]. exact (M i Hi X). }
    destruct (dfa_run MNormal body 2) as [k|m]; cbn [scan_matches] in S.
    + destruct S as [j' [Fu' K]]. rewrite Fu in Fu'. inversion Fu'; subst j'. f_equal. unfold j in K. lia.
    + destruct S as [Fu' _]. congruence.
Qed.

(* the first percent-brace outside quoted strings is never before the first percent-brace *)
Lemma first_unquoted_ge_first body j j0 : first_unquoted_close body j -> first_close body j0 -> j0 <= j.
Proof.
  intros [[C _] _] [_ M]. destruct (Nat.le_gt_cases j0 j) as [L|L]; [exact L|]. exfalso. exact (M j L C).
Qed.

(* no quote character before index j => every index up to j is outside quoted strings *)
Lemma qrun_no_quote : forall p, existsb is_quote p = false -> qrun QOut p = QOut.
Proof.
  induction p as [|c p IH]; intros H; [reflexivity|]. cbn [existsb] in H. apply orb_false_iff in H as [H1 H2].
  rewrite qrun_cons. cbn [qstep]. rewrite H1. apply IH. exact H2.
Qed.
