(* Top file of the Lexer area (property C09; reused by C10a): re-exports the development and states the final
   lemmas under stable names.  Props/C09.v only restates them.

     Lexer/Wf.v       anchors, token well-formedness, stock lexer, loop invariant of parse_template, termination
     Lexer/Scan.v     the scan of _detailed_tag_parser = first percent-brace outside quoted strings
     Lexer/Restart.v  restart lemma; parse_template = stock when every quoted tag closes where stock closes it
     Lexer/OnePass.v  parse_template = the one-pass reference lexer spec_lex; first difference with stock *)
From Coq Require Import String.
From DJC Require Export Lib.Base Lexer.Model Lexer.Wf Lexer.Restart.
From DJC Require Export Lexer.Scan Lexer.OnePass.

(* ====================================================================================== *)
(* str.strip keeps exactly the characters between the surrounding white space              *)
(* ====================================================================================== *)
Lemma lstrip_decomp l : exists h, l = h ++ lstrip l /\ forall c, In c h -> py_isspace c = true.
Proof.
  induction l as [|c l [h [IH Sp]]]; [exists []; split; [reflexivity|intros c []]|].
  cbn [lstrip]. destruct (py_isspace c) eqn:E.
  - exists (c :: h). split; [cbn [app]; f_equal; exact IH|]. intros x [X|X]; [subst; exact E|apply Sp; exact X].
  - exists []. split; [reflexivity|intros x []].
Qed.

Lemma strip_decomp l : exists h t, l = h ++ strip l ++ t /\
  (forall c, In c h -> py_isspace c = true) /\ (forall c, In c t -> py_isspace c = true).
Proof.
  destruct (lstrip_decomp l) as [h [Hl Sh]]. destruct (lstrip_decomp (rev (lstrip l))) as [g [Hr Sg]].
  exists h, (rev g). split; [|split; [exact Sh|]].
  - unfold strip, rstrip. rewrite <- rev_app_distr, <- Hr, rev_involutive. exact Hl.
  - intros c I. apply Sg. apply in_rev. exact I.
Qed.

Lemma space_not_quote c : py_isspace c = true -> is_quote c = false.
Proof.
  intros H. destruct (is_quote c) eqn:Q; [|reflexivity]. unfold is_quote in Q.
  apply orb_true_iff in Q as [Q|Q]; apply N.eqb_eq in Q; subst; vm_compute in H; discriminate.
Qed.

Lemma existsb_false_iff {A} (P : A -> bool) l : existsb P l = false <-> forall x, In x l -> P x = false.
Proof.
  split.
  - intros H x I. destruct (P x) eqn:E; [|reflexivity].
    assert (X : existsb P l = true) by (apply existsb_exists; exists x; split; assumption). congruence.
  - intros H. destruct (existsb P l) eqn:E; [|reflexivity].
    apply existsb_exists in E as [x [I Px]]. rewrite (H x I) in Px. discriminate.
Qed.

Lemma no_quote_strip l : existsb is_quote (strip l) = false -> existsb is_quote l = false.
Proof.
  intros H. destruct (strip_decomp l) as [h [t [E [Sh St]]]]. rewrite existsb_false_iff in *.
  intros x I. rewrite E in I. apply in_app_or in I as [I|I]; [apply space_not_quote, Sh; exact I|].
  apply in_app_or in I as [I|I]; [apply H; exact I|apply space_not_quote, St; exact I].
Qed.

Lemma in_strip x l : In x (strip l) -> In x l.
Proof.
  intros I. destruct (strip_decomp l) as [h [t [E _]]]. rewrite E. apply in_or_app. right. apply in_or_app. left. exact I.
Qed.

Lemma in_firstn {A} (x : A) n l : In x (firstn n l) -> In x l.
Proof.
  revert l; induction n as [|n IH]; intros l I; [destruct I|]. destruct l as [|y l]; [destruct I|].
  destruct I as [E|I]; [left; exact E|right; apply IH; exact I].
Qed.

Lemma in_skipn {A} (x : A) n l : In x (skipn n l) -> In x l.
Proof.
  revert l; induction n as [|n IH]; intros l I; [exact I|]. destruct l as [|y l]; [destruct I|].
  right. apply IH. exact I.
Qed.

Lemma in_slice x s a b : In x (slice s a b) -> In x s.
Proof. unfold slice. intros I. apply in_firstn in I. apply in_skipn in I. exact I. Qed.

(* ====================================================================================== *)
(* C09, clause by clause                                                                   *)
(* ====================================================================================== *)

(* ---- 1. token spans are non-empty, contiguous from 0 to len(source), and concatenate to the source ---- *)
Lemma spans_partition : forall d s toks, parse_template d s = POk toks ->
  chain 0 toks (length s) /\
  Forall (fun t => tstart t < tend t <= length s) toks /\
  concat (map (fun t => slice s (tstart t) (tend t)) toks) = s.
Proof.
  intros d s toks H. destruct (parse_template_wf d s toks H) as [F C]. split; [exact C|]. split.
  - eapply Forall_impl; [|exact F]. intros t [A [B _]]. split; assumption.
  - rewrite (chain_concat s toks 0 (length s) F C). apply slice_all.
Qed.

(* ---- 2. TEXT: contents = span.  VAR / BLOCK / COMMENT: the span starts and ends with the type's delimiters and
        the contents are the span without the two delimiters, stripped (Python str.strip) ---- *)
Lemma contents_eq_span : forall d s toks t, parse_template d s = POk toks -> In t toks ->
  match ttype t with
  | TText => tcontents t = slice s (tstart t) (tend t)
  | ty => tstart t + 4 <= tend t /\
          slice s (tstart t) (tstart t + 2) = opener ty /\
          slice s (tend t - 2) (tend t) = closer ty /\
          tcontents t = strip (slice s (tstart t + 2) (tend t - 2))
  end.
Proof.
  intros d s toks t H I. destruct (parse_template_wf d s toks H) as [F _].
  rewrite Forall_forall in F. destruct (F t I) as [_ [_ [_ W]]]. exact W.
Qed.

(* ---- 3. lineno = 1 + number of newlines before the token's start ---- *)
Lemma lineno_correct : forall d s toks t, parse_template d s = POk toks -> In t toks ->
  tline t = 1 + count_nl (firstn (tstart t) s).
Proof.
  intros d s toks t H I. destruct (parse_template_wf d s toks H) as [F _].
  rewrite Forall_forall in F. destruct (F t I) as [_ [_ [W _]]]. exact W.
Qed.

(* the stock lexer has the same three properties, for every preset verbatim state (what the restart relies on) *)
Lemma stock_lexer_partition : forall d v s,
  chain 0 (django_lex_v d v s) (length s) /\
  forall t, In t (django_lex_v d v s) ->
    tstart t < tend t <= length s /\ tline t = 1 + count_nl (firstn (tstart t) s) /\
    match ttype t with
    | TText => tcontents t = slice s (tstart t) (tend t)
    | ty => slice s (tstart t) (tstart t + 2) = opener ty /\ slice s (tend t - 2) (tend t) = closer ty /\
            tcontents t = strip (slice s (tstart t + 2) (tend t - 2))
    end.
Proof.
  intros d v s. destruct (django_lex_v_wf d v s) as [F C]. split; [exact C|].
  intros t I. rewrite Forall_forall in F. destruct (F t I) as [A [B [L W]]].
  split; [split; assumption|]. split; [exact L|].
  destruct (ttype t); [exact W|destruct W as [_ W]; exact W..].
Qed.

(* ---- 4. where a block tag ends ---- *)
(* _detailed_tag_parser: it returns a token iff the text after the opener has a percent-brace outside quoted
   strings, the token ends at the first such, and otherwise the error is the one of the state the text ends in *)
Lemma detailed_closes_at_first_unquoted_end : forall text ln st0,
  (forall fixed, detailed text ln st0 = inr fixed <->
     exists j, first_unquoted_close (skipn 2 text) j /\
       fixed = mkTok TBlock (strip (firstn j (skipn 2 text))) st0 (st0 + (j + 4)) ln) /\
  (forall e, detailed text ln st0 = inl e <->
     (forall j, ~ (close_at (skipn 2 text) j /\ qstate_at (skipn 2 text) j = QOut)) /\
     e = err_of_qstate (qrun QOut (skipn 2 text))).
Proof.
  intros text ln st0. rewrite detailed_as_find_uclose.
  destruct (find_uclose QOut (skipn 2 text)) as [j|] eqn:F; split.
  - intros fixed. split.
    + intros H. inversion H. exists j. split; [apply find_uclose_some; exact F|reflexivity].
    + intros [j' [Fj E]]. apply find_uclose_complete in Fj. unfold first_unquoted_close in Fj.
      rewrite F in Fj. inversion Fj; subst. reflexivity.
  - intros e. split; [discriminate|]. intros [N _]. exfalso. apply find_uclose_some in F.
    destruct F as [U _]. exact (N j U).
  - intros fixed. split; [discriminate|]. intros [j [Fj _]]. apply find_uclose_complete in Fj.
    unfold first_unquoted_close in Fj. congruence.
  - intros e. split.
    + intros H. inversion H. split; [|reflexivity]. intros j U. exact (find_uclose_none _ _ F j U).
    + intros [_ E]. subst e. reflexivity.
Qed.

Lemma pcons_ok t r toks : pcons t r = POk toks -> exists l, r = POk l /\ toks = t :: l.
Proof. destruct r as [l| |]; intros H; try discriminate. inversion H. exists l. split; reflexivity. Qed.

Lemma spec_go_block_close d s0 : forall f v s pos line toks,
  s = skipn pos s0 -> spec_go f d v s pos line = POk toks ->
  Forall (fun t => ttype t = TBlock -> first_unquoted_close (tok_body s0 t) (close_index t)) toks.
Proof.
  induction f as [|f IH]; intros v s pos line toks Hs H.
  - inversion H. constructor.
  - destruct s as [|c r] eqn:Es; [inversion H; constructor|]. rewrite <- Es in *.
    assert (Hne : s <> []) by (rewrite Es; discriminate).
    rewrite spec_go_unfold in H by exact Hne.
    assert (Body : skipn (pos + 2) s0 = skipn 2 s) by (rewrite Hs; symmetry; apply skipn_skipn).
    assert (Rec : forall n, skipn n s = skipn (pos + n) s0) by (intros n; rewrite Hs; apply skipn_skipn).
    destruct (tag_at d s) as [len|] eqn:T.
    + destruct (create_token v (firstn len s) pos line) as [t v'] eqn:CT.
      destruct (create_token_spec _ _ _ _ _ _ _ _ T CT) as [L [Hst [Hen [Hln Hc]]]].
      destruct (is_broken t) eqn:Bt.
      * destruct (find_uclose QOut (skipn 2 s)) as [j|] eqn:Fu; [|discriminate].
        apply pcons_ok in H as [l [Hr Et]]. subst toks. constructor.
        -- intros _. unfold tok_body, close_index. cbn [tstart tend]. rewrite Body.
           replace (pos + (j + 4) - pos - 4) with j by lia. apply find_uclose_some. exact Fu.
        -- exact (IH _ _ _ _ _ (Rec (j + 4)) Hr).
      * apply pcons_ok in H as [l [Hr Et]]. subst toks. constructor; [|exact (IH _ _ _ _ _ (Rec len) Hr)].
        intros Ty. pose proof (create_token_block _ _ _ _ _ _ CT Ty) as K. rewrite nth1_firstn in K by lia.
        destruct (tag_at_block _ _ _ T K) as [j0 [Ej Fc]].
        destruct Hc as [[Hty _]|[_ [_ [_ Hct]]]]; [congruence|].
        unfold is_broken in Bt. rewrite Ty, Hct in Bt. apply no_quote_strip in Bt.
        unfold tok_body, close_index. rewrite Hst, Hen, Body. replace (pos + len - pos - 4) with j0 by lia.
        replace (len - 4) with j0 in Bt by lia.
        destruct (find_close_spec _ _ _ _ _ Fc) as [_ C].
        split; [split; [exact C|unfold qstate_at; apply qrun_no_quote; exact Bt]|].
        intros i Hi [Ci _]. exact (find_close_first _ _ _ _ _ Fc i Hi Ci).
    + apply pcons_ok in H as [l [Hr Et]]. subst toks. constructor; [intros Ty; discriminate|].
      exact (IH _ _ _ _ _ (Rec _) Hr).
Qed.

(* every BLOCK token of the patched stream ends at the first percent-brace, counted from its opener, that lies
   outside quoted strings *)
Lemma closes_at_first_unquoted_end : forall d s toks t, parse_template d s = POk toks -> In t toks ->
  ttype t = TBlock ->
  (close_at (tok_body s t) (close_index t) /\ qstate_at (tok_body s t) (close_index t) = QOut) /\
  forall i, i < close_index t -> ~ (close_at (tok_body s t) i /\ qstate_at (tok_body s t) i = QOut).
Proof.
  intros d s toks t H I Ty. rewrite parse_template_eq_spec in H. unfold spec_lex in H.
  pose proof (spec_go_block_close d s (length s) None s 0 1 toks eq_refl H) as F. rewrite Forall_forall in F.
  exact (F t I Ty).
Qed.

(* ---- 5. identical to stock ---- *)
(* no block tag of the stock token stream contains a quote character => identical streams *)
Lemma eq_stock_when_no_quote : forall d s,
  (forall t, In t (django_lex d s) -> ttype t = TBlock -> existsb is_quote (tcontents t) = false) ->
  parse_template d s = POk (django_lex d s).
Proof.
  intros d s H. apply eq_stock_no_broken. apply Forall_forall. intros t I. unfold is_broken.
  destruct (ttype t) eqn:Ty; try reflexivity. apply H; assumption.
Qed.

(* in particular: no quote character in the source at all *)
Lemma eq_stock_when_no_quote_char : forall d s,
  existsb is_quote s = false -> parse_template d s = POk (django_lex d s).
Proof.
  intros d s H. apply eq_stock_when_no_quote. intros t I Ty.
  destruct (django_lex_v_wf d None s) as [F _]. rewrite Forall_forall in F. destruct (F t I) as [_ [_ [_ W]]].
  rewrite Ty in W. destruct W as [_ [_ [_ W]]]. rewrite existsb_false_iff in *. intros x Ix.
  apply H. rewrite W in Ix. apply in_strip in Ix. apply in_slice in Ix. exact Ix.
Qed.

(* every quoted block tag of the stock stream is closed by the quote-aware scan where stock closes it
   (decidable form [closes_as_stockb], Lexer/Restart.v) => identical streams *)
Lemma eq_stock_when_quotes_closed : forall d s,
  (forall t, In t (django_lex d s) -> is_broken t = true -> closes_as_stockb s t = true) ->
  parse_template d s = POk (django_lex d s).
Proof.
  intros d s H. apply eq_stock_closed. intros t I B. apply closes_as_stockb_iff. apply H; assumption.
Qed.

(* declarative form: in every quoted block tag of the stock stream, the percent-brace that ends the tag for stock
   Django lies outside the tag's quoted strings => identical streams *)
Lemma eq_stock_when_stock_close_unquoted : forall d s,
  (forall t, In t (django_lex d s) -> is_broken t = true -> qstate_at (tok_body s t) (close_index t) = QOut) ->
  parse_template d s = POk (django_lex d s).
Proof.
  intros d s H. apply eq_stock_closed. intros t I B. unfold closes_as_stock.
  apply (closes_as_stock_iff_unquoted d None s t I (is_broken_block _ B)). exact (H t I B).
Qed.

(* ---- 6. differs only by keeping a quoted percent-brace ---- *)
(* (a) for every source the patched lexer computes the one-pass reference lexer: stock Django's loop in which a
   BLOCK tag with a quote ends at the first percent-brace outside its quoted strings *)
Lemma differs_only_by_quoted_close : forall d s, parse_template d s = spec_lex d s.
Proof. exact parse_template_eq_spec. Qed.

(* (b) the first difference with the stock stream *)
Lemma first_difference_is_quoted_close : forall d s,
  parse_template d s = POk (django_lex d s) \/
  exists pre b post, django_lex d s = pre ++ b :: post /\ is_broken b = true /\
    Forall (fun t => is_broken t = true -> closes_as_stock s t) pre /\
    qstate_at (tok_body s b) (close_index b) <> QOut /\
    match parse_template d s with
    | POk toks => exists fixed post', toks = pre ++ fixed :: post' /\
        ttype fixed = TBlock /\ tstart fixed = tstart b /\ tline fixed = tline b /\ tend b < tend fixed /\
        first_unquoted_close (tok_body s b) (close_index fixed)
    | PErr _ => True
    | POutOfFuel => False
    end.
Proof. exact first_difference_full. Qed.

(* ---- 7. termination ---- *)
Lemma terminates : forall d s,
  parse_template d s <> POutOfFuel /\
  forall k, pt_go (S (length s) + k) d s 0 0 None [] = parse_template d s.
Proof.
  intros d s. unfold parse_template. apply pt_go_fuel; [lia|reflexivity|lia].
Qed.

(* index_start strictly increases from one iteration of the while loop to the next *)
Lemma index_start_increases : forall d v s i off good b rest fixed,
  i <= length s -> off = count_nl (firstn i s) ->
  map (shift_tok i off) (django_lex_v d v (skipn i s)) = good ++ b :: rest -> is_broken b = true ->
  detailed (skipn (tstart b) s) (tline b) (tstart b) = inr fixed ->
  i < tend fixed <= length s.
Proof.
  intros d v s i off good b rest fixed Hi Hoff E Hb D.
  destruct (round_wf d v s i off good b rest fixed Hi Hoff E Hb D) as [_ [_ [L _]]]. exact L.
Qed.
