(* Compact transport encoding of correspondence cases (harness aid, no theorem depends on it).

   Elaborating a literal `list N` of a few hundred thousand numerals costs coqc tens of seconds per shard;
   a string literal of the same data is read in a fraction of that.  harness/c09.py prints every case as
   one Coq string; this file decodes it (inside vm_compute) into the case types of Lexer/Model.v.

     number  := decimal digits terminated by ','
     string  := characters terminated by '|'; printable ASCII other than backslash, double quote and '|'
                stands for itself, any other code point c is written as backslash, decimal c, ';'
     token   := type, contents| start, end, line,
     tokens  := count, token*
     outcome := 'T' tokens  |  'S' q,  |  'G'                  (tokens / unterminated string / unterminated tag)
     lex     := dotall, source| outcome tokens
     lexv    := dotall, hasv, verbatim| source| tokens
     det     := text| lineno, start, outcome                                                               *)
From Coq Require Import String.
From DJC Require Import Lib.Base Lexer.Model.

Fixpoint read_num (acc : N) (l : list N) : N * list N :=
  match l with
  | [] => (acc, [])
  | c :: r => if N.eqb c 44 then (acc, r) else read_num (acc * 10 + (c - 48))%N r
  end.

(* esc = Some n: inside an escape, n accumulated so far *)
Fixpoint read_str (esc : option N) (l : list N) : str * list N :=
  match l with
  | [] => ([], [])
  | c :: r =>
      match esc with
      | Some n => if N.eqb c 59 then let '(s, rest) := read_str None r in (n :: s, rest)
                  else read_str (Some (n * 10 + (c - 48))%N) r
      | None => if N.eqb c 124 then ([], r)
                else if N.eqb c 92 then read_str (Some 0%N) r
                else let '(s, rest) := read_str None r in (c :: s, rest)
      end
  end.

Definition read_tok (l : list N) : (N * str * N * N * N) * list N :=
  let '(ty, l) := read_num 0 l in
  let '(c, l) := read_str None l in
  let '(a, l) := read_num 0 l in
  let '(b, l) := read_num 0 l in
  let '(ln, l) := read_num 0 l in
  ((ty, c, a, b, ln), l).

Fixpoint read_toks_n (n : nat) (l : list N) : list (N * str * N * N * N) * list N :=
  match n with
  | O => ([], l)
  | S k => let '(t, l) := read_tok l in
           let '(ts, l) := read_toks_n k l in (t :: ts, l)
  end.
Definition read_toks (l : list N) : list (N * str * N * N * N) * list N :=
  let '(n, l) := read_num 0 l in read_toks_n (N.to_nat n) l.

Definition read_obs (l : list N) : option obs * list N :=
  match l with
  | 84%N :: r => let '(ts, r) := read_toks r in (Some (OToks ts), r)
  | 83%N :: r => let '(q, r) := read_num 0 r in (Some (OErrString q), r)
  | 71%N :: r => (Some OErrTag, r)
  | _ => (None, l)
  end.

Definition dec_lex (e : string) : bool :=
  let l := s2n e in
  let '(d, l) := read_num 0 l in
  let '(s, l) := read_str None l in
  match read_obs l with
  | (Some o, l) => let '(stock, l) := read_toks l in
                   match l with [] => check_lex (N.eqb d 1, s, o, stock) | _ => false end
  | (None, _) => false
  end.

Definition dec_lexv (e : string) : bool :=
  let l := s2n e in
  let '(d, l) := read_num 0 l in
  let '(hv, l) := read_num 0 l in
  let '(v, l) := read_str None l in
  let '(s, l) := read_str None l in
  let '(stock, l) := read_toks l in
  match l with
  | [] => check_lexv (N.eqb d 1, (if N.eqb hv 1 then Some v else None), s, stock)
  | _ => false
  end.

Definition dec_det (e : string) : bool :=
  let l := s2n e in
  let '(text, l) := read_str None l in
  let '(ln, l) := read_num 0 l in
  let '(st, l) := read_num 0 l in
  match read_obs l with
  | (Some o, []) => check_det (text, ln, st, o)
  | _ => false
  end.

(* ---------- hashed comparison ----------
   For the exhaustive families the strings are enumerated inside Coq (same order as Python's
   itertools.product) and only a hash of the model's outcome per block of strings is printed; the harness
   computes the same hash from the implementation's outcome.  A differing block is re-run case by case
   through [dec_lex] to name the diverging input. *)
Definition hmask : N := Eval compute in (2 ^ 40 - 1)%N.
Definition hmix (h x : N) : N := N.land (N.shiftl h 5 + h + x + 1)%N hmask.
Definition hash_list (l : list N) : N := fold_left hmix l 7%N.

Definition flat_tok (t : tok) : list N :=
  toktype_code (ttype t) :: N.of_nat (length (tcontents t)) :: tcontents t
    ++ [N.of_nat (tstart t); N.of_nat (tend t); N.of_nat (tline t)].
Definition flat_toks (l : list tok) : list N := N.of_nat (length l) :: flat_map flat_tok l.
Definition flat_pres (r : pres) : list N :=
  match r with
  | POk l => 1%N :: flat_toks l
  | PErr (EUntermString q) => [2%N; q]
  | PErr EUntermTag => [3%N]
  | POutOfFuel => [4%N]
  end.

Definition lex_hash1 (d : bool) (s : str) : N :=
  hash_list (flat_pres (parse_template d s) ++ flat_toks (django_lex d s)).
(* both flags when the source has a newline (otherwise the flag cannot matter) *)
Definition lex_hash (s : str) : N :=
  if existsb (N.eqb c_nl) s then hmix (lex_hash1 true s) (lex_hash1 false s) else lex_hash1 true s.

Fixpoint all_strings (alphabet : list N) (n : nat) : list str :=
  match n with
  | O => [[]]
  | S k => flat_map (fun c => map (cons c) (all_strings alphabet k)) alphabet
  end.

(* one hash per prefix: over all strings prefix ++ suffix, suffix of length k *)
Definition block_hashes (alphabet : list N) (prefixes : list str) (k : nat) : list N :=
  let sufs := all_strings alphabet k in
  map (fun p => hash_list (map (fun suf => lex_hash (p ++ suf)) sufs)) prefixes.

(* literal sources with hashed outcome: (source as transport string, expected lex_hash) *)
Definition dec_lex_hash (c : string * N) : bool :=
  let '(s, _) := read_str None (s2n (fst c)) in N.eqb (lex_hash s) (snd c).
