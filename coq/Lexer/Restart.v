(* Restarting the stock lexer at a token boundary yields the rest of the token stream (the fact that
   parse_template's hand-over between DebugLexer and _detailed_tag_parser relies on), and its consequence:
   when every quoted block tag closes where stock Django closes it, parse_template = stock. *)
From Coq Require Import String.
From DJC Require Import Lib.Base Lexer.Model Lexer.Wf.

Definition tlen (t : tok) : nat := tend t - tstart t.
Fixpoint consumed (l : list tok) : nat := match l with [] => 0 | t :: r => tlen t + consumed r end.

(* Lexer.verbatim after a token, given the state before it *)
Definition state_after (v : option str) (t : tok) : option str :=
  match ttype t with
  | TBlock => match v with
              | Some _ => None
              | None => if is_verbatim_start (tcontents t) then Some (kw_end ++ tcontents t) else None
              end
  | _ => v
  end.

Lemma create_token_state v raw pos line t v' :
  create_token v raw pos line = (t, v') ->
  v' = state_after v t /\ (forall name, v = Some name -> ttype t = TBlock -> tcontents t = name).
Proof.
  unfold create_token, state_after. intros H.
  destruct (N.eqb (nth 1 raw 0%N) c_pct).
  - destruct v as [name|].
    + destruct (str_eqb (strip (inner raw)) name) eqn:E; inversion H; subst; cbn [ttype tcontents].
      * split; [reflexivity|]. intros n Hn _. inversion Hn; subst. apply str_eqb_eq. exact E.
      * split; [reflexivity|]. intros; discriminate.
    + inversion H; subst; cbn [ttype tcontents]. split; [reflexivity|]. intros; discriminate.
  - destruct v as [name|]; inversion H; subst; cbn [ttype tcontents].
    + split; [reflexivity|]. intros; discriminate.
    + split; [destruct (N.eqb _ c_lbrace); reflexivity|]. intros; discriminate.
Qed.

Lemma lex_go_fuel_irrel d : forall f1 f2 v s pos line, length s <= f1 -> length s <= f2 ->
  lex_go f1 d v s pos line = lex_go f2 d v s pos line.
Proof.
  induction f1 as [|f1 IH]; intros f2 v s pos line H1 H2.
  - destruct s; [|cbn in H1; lia]. destruct f2; reflexivity.
  - destruct s as [|c r] eqn:Es; [destruct f2; reflexivity|]. rewrite <- Es in *.
    assert (Hne : s <> []) by (rewrite Es; discriminate).
    destruct f2 as [|f2]; [rewrite Es in H2; cbn in H2; lia|].
    rewrite !lex_go_unfold by exact Hne.
    destruct (tag_at d s) as [len|] eqn:T.
    + destruct (tag_at_spec _ _ _ T) as [_ [_ [_ [_ [L _]]]]].
      destruct (create_token v (firstn len s) pos line) as [t v'].
      f_equal. apply IH; rewrite skipn_length; lia.
    + destruct (text_run_bounds d s Hne T) as [L1 L2].
      f_equal. apply IH; rewrite skipn_length; lia.
Qed.

(* the rest of a lexer run after a prefix of its tokens *)
Lemma lex_go_app d : forall pre post f v s pos line, length s <= f ->
  lex_go f d v s pos line = pre ++ post ->
  post = lex_go f d (fold_left state_after pre v) (skipn (consumed pre) s) (pos + consumed pre)
                (line + count_nl (firstn (consumed pre) s)).
Proof.
  induction pre as [|t pre IH]; intros post f v s pos line Hf H.
  - cbn [consumed fold_left skipn firstn app] in *. unfold count_nl. cbn. rewrite !Nat.add_0_r. symmetry. exact H.
  - destruct f as [|f]; [discriminate|]. destruct s as [|c r] eqn:Es; [discriminate|]. rewrite <- Es in *.
    assert (Hne : s <> []) by (rewrite Es; discriminate).
    rewrite lex_go_unfold in H by exact Hne.
    assert (Fin : forall len v', 1 <= len <= length s -> tlen t = len -> v' = state_after v t ->
               lex_go f d v' (skipn len s) (pos + len) (line + count_nl (firstn len s)) = pre ++ post ->
               post = lex_go (S f) d (fold_left state_after (t :: pre) v) (skipn (consumed (t :: pre)) s)
                             (pos + consumed (t :: pre)) (line + count_nl (firstn (consumed (t :: pre)) s))).
    { intros len v' L Hl Hv R. apply IH in R; [|rewrite skipn_length; lia].
      cbn [consumed fold_left]. rewrite Hl, <- Hv. rewrite R.
      rewrite skipn_skipn, count_nl_firstn_add, !Nat.add_assoc.
      apply lex_go_fuel_irrel; rewrite skipn_length; lia. }
    destruct (tag_at d s) as [len|] eqn:T.
    + destruct (create_token v (firstn len s) pos line) as [t' v'] eqn:CT.
      destruct (create_token_spec _ _ _ _ _ _ _ _ T CT) as [L [Hst [Hen _]]].
      destruct (create_token_state _ _ _ _ _ _ CT) as [Hv _].
      cbn [app] in H. injection H as Ht Hr. subst t'. apply (Fin len v'); try assumption; try lia.
      unfold tlen. lia.
    + destruct (text_run_bounds d s Hne T) as [L1 L2].
      cbn [app] in H. injection H as Ht Hr. apply (Fin (text_run d s) v); try assumption; try lia.
      * rewrite <- Ht. unfold tlen. cbn. lia.
      * rewrite <- Ht. reflexivity.
Qed.

Lemma create_token_shift v raw pos line a b :
  create_token v raw (pos + a) (line + b) =
  (shift_tok a b (fst (create_token v raw pos line)), snd (create_token v raw pos line)).
Proof.
  unfold create_token, shift_tok.
  destruct (N.eqb (nth 1 raw 0%N) c_pct); destruct v as [name|];
    try destruct (str_eqb _ name); cbn [fst snd ttype tcontents tstart tend tline]; f_equal; f_equal; lia.
Qed.

Lemma lex_go_shift d a b : forall f v s pos line,
  lex_go f d v s (pos + a) (line + b) = map (shift_tok a b) (lex_go f d v s pos line).
Proof.
  induction f as [|f IH]; intros v s pos line; [reflexivity|].
  destruct s as [|c r] eqn:Es; [reflexivity|]. rewrite <- Es in *.
  assert (Hne : s <> []) by (rewrite Es; discriminate).
  rewrite !lex_go_unfold by exact Hne. destruct (tag_at d s) as [len|].
  - rewrite create_token_shift. destruct (create_token v (firstn len s) pos line) as [t v'].
    cbn [fst snd map]. f_equal. rewrite <- IH. f_equal; lia.
  - cbn [map]. f_equal.
    + unfold shift_tok. cbn. f_equal. lia.
    + rewrite <- IH. f_equal; lia.
Qed.

Lemma shift_shift a b a' b' t : shift_tok a b (shift_tok a' b' t) = shift_tok (a' + a) (b' + b) t.
Proof. unfold shift_tok. cbn. f_equal; lia. Qed.

Lemma chain_consumed s : forall l a m, Forall (tok_wf s) l -> chain a l m -> a + consumed l = m.
Proof.
  induction l as [|t l IH]; intros a m F C; cbn in *; [lia|].
  destruct C as [E C]. inversion F as [|? ? W F']; subst. apply IH in C; [|exact F'].
  destruct W as [W _]. unfold tlen. lia.
Qed.

(* states reachable in parse_template: False, or "end" ++ contents *)
Definition state_ok (v : option str) : Prop :=
  match v with Some n => exists c, n = kw_end ++ c | None => True end.

Lemma state_after_ok v t : state_ok v -> state_ok (state_after v t).
Proof.
  unfold state_after. intros H. destruct (ttype t); try exact H.
  destruct v; [exact I|]. destruct (is_verbatim_start (tcontents t)); [|exact I]. eexists. reflexivity.
Qed.

Lemma fold_state_ok l : forall v, state_ok v -> state_ok (fold_left state_after l v).
Proof. induction l as [|t l IH]; intros v H; [exact H|]. cbn. apply IH. apply state_after_ok. exact H. Qed.

Lemma end_not_verbatim_start c : is_verbatim_start (kw_end ++ c) = false.
Proof.
  unfold is_verbatim_start, kw_end. cbn [app]. destruct c as [|c1 [|c2 [|c3 [|c4 [|c5 [|c6 c]]]]]]; reflexivity.
Qed.

Lemma next_verbatim_ok t : state_ok (next_verbatim t).
Proof. unfold next_verbatim. destruct (is_verbatim_start _); [eexists; reflexivity|exact I]. Qed.

(* a TBlock token produced while a verbatim block is open is its closing tag *)
Lemma lex_go_head_block d f vg s pos line b0 rest0 name :
  lex_go f d vg s pos line = b0 :: rest0 -> vg = Some name -> ttype b0 = TBlock -> tcontents b0 = name.
Proof.
  intros H Hv Ty. destruct f as [|f]; [discriminate|]. destruct s as [|c r] eqn:Es; [discriminate|].
  rewrite <- Es in *. assert (Hne : s <> []) by (rewrite Es; discriminate).
  rewrite lex_go_unfold in H by exact Hne. destruct (tag_at d s) as [len|].
  - destruct (create_token vg (firstn len s) pos line) as [t v'] eqn:CT. injection H as Ht _. subst t.
    destruct (create_token_state _ _ _ _ _ _ CT) as [_ Hn]. apply Hn; assumption.
  - injection H as Ht _. rewrite <- Ht in Ty. discriminate.
Qed.

Lemma chain_last a l t m : chain a (l ++ [t]) m -> m = tend t.
Proof.
  intros C. apply chain_app_inv in C as [m1 [_ C]]. cbn in C. destruct C as [_ E]. symmetry. exact E.
Qed.

(* the detailed scan started at a stock token's opener ends exactly where stock Django ends the token *)
Definition closes_as_stock (s : str) (t : tok) : Prop :=
  dfa_run MNormal (skipn (tstart t + 2) s) 2 = Closed (tend t - tstart t).

Lemma detailed_returns_stock s b : tok_wf s b -> is_broken b = true -> closes_as_stock s b ->
  detailed (skipn (tstart b) s) (tline b) (tstart b) = inr b.
Proof.
  intros [W1 [W2 [W3 W4]]] Hb Hc. rewrite (is_broken_block _ Hb) in W4. destruct W4 as [W4 [_ [_ W7]]].
  unfold detailed. rewrite skipn_skipn. unfold closes_as_stock in Hc. rewrite Hc. f_equal.
  rewrite slice_skipn. destruct b as [ty c a e l]. cbn [tstart tend tline ttype tcontents] in *.
  pose proof (is_broken_block _ Hb) as Ty. cbn [ttype] in Ty. subst ty. f_equal.
  - rewrite W7. f_equal. f_equal; lia.
  - lia.
Qed.

(* THE RESTART LEMMA in absolute coordinates: after the prefix good ++ [b] of a (restarted) lexer run, lexing the
   remainder of the source with the verbatim state parse_template carries over yields the rest of the run. *)
Lemma restart_rest d s i off v good b rest :
  i <= length s -> off = count_nl (firstn i s) -> state_ok v ->
  map (shift_tok i off) (django_lex_v d v (skipn i s)) = good ++ b :: rest ->
  ttype b = TBlock ->
  map (shift_tok (tend b) (count_nl (firstn (tend b) s)))
      (django_lex_v d (next_verbatim b) (skipn (tend b) s)) = rest.
Proof.
  intros Hi Hoff Hv E Ty.
  apply map_eq_app in E as [g0 [r0 [E0 [Eg Er]]]]. apply map_eq_cons in Er as [b0 [rest0 [Er0 [Eb Erest]]]].
  subst r0. destruct (django_lex_v_wf d v (skipn i s)) as [F C]. rewrite E0 in F, C.
  replace (g0 ++ b0 :: rest0) with ((g0 ++ [b0]) ++ rest0) in * by (rewrite <- app_assoc; reflexivity).
  apply Forall_app in F as [Fp Fr]. apply chain_app_inv in C as [m [Cp Cr]].
  pose proof (chain_last _ _ _ _ Cp) as Em. pose proof (chain_consumed _ _ _ _ Fp Cp) as Ec. cbn [Nat.add] in Ec.
  assert (Hb0 : tend b0 <= length s - i).
  { apply Forall_app in Fp as [_ Fb]. inversion Fb as [|? ? [_ [W _]] _]; subst. rewrite skipn_length in W. exact W. }
  assert (Etb : tend b = tend b0 + i) by (rewrite <- Eb; reflexivity).
  unfold django_lex_v in E0.
  pose proof (lex_go_app d (g0 ++ [b0]) rest0 _ _ _ _ _ (Nat.le_refl _) E0) as R.
  rewrite Ec, Em in R. clear Ec.
  (* the state *)
  assert (Hst : fold_left state_after (g0 ++ [b0]) v = next_verbatim b).
  { rewrite fold_left_app. cbn [fold_left]. set (vg := fold_left state_after g0 v).
    assert (Hvg : state_ok vg) by (apply fold_state_ok; exact Hv).
    assert (Ty0 : ttype b0 = TBlock) by (rewrite <- Eb in Ty; exact Ty).
    assert (Ec0 : tcontents b = tcontents b0) by (rewrite <- Eb; reflexivity).
    unfold state_after, next_verbatim. rewrite Ty0, Ec0. destruct vg as [name|] eqn:Evg; [|reflexivity].
    rewrite <- app_assoc in E0. cbn [app] in E0.
    pose proof (lex_go_app d g0 (b0 :: rest0) _ _ _ _ _ (Nat.le_refl _) E0) as R0. symmetry in R0.
    fold vg in R0. rewrite Evg in R0.
    rewrite (lex_go_head_block _ _ _ _ _ _ _ _ name R0 eq_refl Ty0).
    destruct Hvg as [c0 Hn]. rewrite Hn, end_not_verbatim_start. reflexivity. }
  rewrite Hst in R.
  rewrite <- Erest, R. rewrite (lex_go_shift d (tend b0) (count_nl (firstn (tend b0) (skipn i s))) _ _ _ 0 1).
  rewrite map_map. unfold django_lex_v.
  rewrite skipn_skipn. rewrite Etb. replace (i + tend b0) with (tend b0 + i) by lia.
  rewrite (lex_go_fuel_irrel d (length (skipn i s)) (length (skipn (tend b0 + i) s)))
    by (rewrite !skipn_length; lia).
  apply map_ext. intros t. rewrite shift_shift. f_equal.
  rewrite Hoff. replace (tend b0 + i) with (i + tend b0) by lia. rewrite count_nl_firstn_add. lia.
Qed.

(* If every quoted block tag of the (restarted) stock stream closes where stock closes it, the loop of
   parse_template reproduces that stream. *)
Lemma pt_go_stock d s : forall fuel i off v acc,
  i <= length s -> off = count_nl (firstn i s) -> state_ok v -> length s - i < fuel ->
  (forall t, In t (map (shift_tok i off) (django_lex_v d v (skipn i s))) -> is_broken t = true ->
             closes_as_stock s t) ->
  pt_go fuel d s i off v acc = POk (acc ++ map (shift_tok i off) (django_lex_v d v (skipn i s))).
Proof.
  induction fuel as [|f IH]; intros i off v acc Hi Hoff Hv Hf Hall; [lia|].
  cbn [pt_go]. destruct (Nat.leb (length s) i) eqn:El.
  - apply Nat.leb_le in El. rewrite skipn_all2 by lia. cbn. rewrite app_nil_r. reflexivity.
  - apply Nat.leb_gt in El.
    destruct (split_broken (map (shift_tok i off) (django_lex_v d v (skipn i s)))) as [good [b|]] eqn:S;
      destruct (split_broken_spec _ _ _ S) as [_ M]; [|rewrite M; reflexivity].
    destruct M as [Hb [rest E]].
    destruct (restart_wf d v s i off Hi Hoff) as [F _]. rewrite E in F.
    assert (Wb : tok_wf s b) by (apply Forall_app in F as [_ F]; inversion F; assumption).
    assert (Hcb : closes_as_stock s b) by (apply Hall; [rewrite E; apply in_or_app; right; left; reflexivity|exact Hb]).
    pose proof (detailed_returns_stock s b Wb Hb Hcb) as D. rewrite D.
    destruct (round_wf d v s i off good b rest b Hi Hoff E Hb D) as [_ [_ [L [_ [_ [_ [_ Ho]]]]]]].
    pose proof (restart_rest d s i off v good b rest Hi Hoff Hv E (is_broken_block _ Hb)) as R.
    rewrite Ho. rewrite IH.
    + rewrite R, E. rewrite <- !app_assoc. reflexivity.
    + lia.
    + reflexivity.
    + apply next_verbatim_ok.
    + lia.
    + rewrite R. intros t It Bt. apply Hall; [|exact Bt]. rewrite E. apply in_or_app. right. right. exact It.
Qed.

Lemma eq_stock_closed d s :
  (forall t, In t (django_lex d s) -> is_broken t = true -> closes_as_stock s t) ->
  parse_template d s = POk (django_lex d s).
Proof.
  intros H. unfold parse_template.
  rewrite (pt_go_stock d s (S (length s)) 0 0 None []); try lia; try reflexivity; try exact I.
  - cbn [skipn app]. rewrite map_shift_0. reflexivity.
  - cbn [skipn]. rewrite map_shift_0. exact H.
Qed.

(* parse_template and stock agree up to the first quoted block tag that the detailed scan closes elsewhere:
   the first difference, if any, is at such a tag (same start, same line, type BLOCK), or parse_template raises
   from it.  Together with closes_at_first_unquoted_end this is "differs only by keeping a quoted close". *)
Lemma first_difference d s :
  parse_template d s = POk (django_lex d s) \/
  exists pre b post, django_lex d s = pre ++ b :: post /\ is_broken b = true /\ ~ closes_as_stock s b /\
    Forall (fun t => is_broken t = true -> closes_as_stock s t) pre.
Proof.
  assert (G : forall l, (Forall (fun t => is_broken t = true -> closes_as_stock s t) l) \/
     exists pre b post, l = pre ++ b :: post /\ is_broken b = true /\ ~ closes_as_stock s b /\
        Forall (fun t => is_broken t = true -> closes_as_stock s t) pre).
  { induction l as [|t l IH]; [left; constructor|].
    destruct (is_broken t) eqn:Bt.
    - unfold closes_as_stock at 1 3.
      destruct (dfa_run MNormal (skipn (tstart t + 2) s) 2) as [n|m] eqn:D.
      + destruct (Nat.eq_dec n (tend t - tstart t)) as [En|En].
        * destruct IH as [IH|[pre [b [post [E [Bb [Nb Fp]]]]]]].
          -- left. constructor; [|exact IH]. intros _. unfold closes_as_stock. rewrite D, En. reflexivity.
          -- right. exists (t :: pre), b, post. rewrite E. repeat split; try assumption.
             constructor; [|exact Fp]. intros _. unfold closes_as_stock. rewrite D, En. reflexivity.
        * right. exists [], t, l. repeat split; try assumption; [|constructor].
          unfold closes_as_stock. rewrite D. intros X. inversion X. contradiction.
      + right. exists [], t, l. repeat split; try assumption; [|constructor].
        unfold closes_as_stock. rewrite D. discriminate.
    - destruct IH as [IH|[pre [b [post [E [Bb [Nb Fp]]]]]]].
      + left. constructor; [|exact IH]. intros X. rewrite Bt in X. discriminate.
      + right. exists (t :: pre), b, post. rewrite E. repeat split; try assumption.
        constructor; [|exact Fp]. intros X. rewrite Bt in X. discriminate. }
  destruct (G (django_lex d s)) as [A|B]; [|right; exact B].
  left. apply eq_stock_closed. rewrite Forall_forall in A. exact A.
Qed.

(* decidable form, for generators and for C10a *)
Definition closes_as_stockb (s : str) (t : tok) : bool :=
  match dfa_run MNormal (skipn (tstart t + 2) s) 2 with
  | Closed n => Nat.eqb n (tend t - tstart t)
  | EndIn _ => false
  end.

Lemma closes_as_stockb_iff s t : closes_as_stockb s t = true <-> closes_as_stock s t.
Proof.
  unfold closes_as_stockb, closes_as_stock. destruct (dfa_run MNormal (skipn (tstart t + 2) s) 2) as [n|m].
  - rewrite Nat.eqb_eq. split; [intros; subst; reflexivity|intros X; inversion X; reflexivity].
  - split; discriminate.
Qed.
