(* Model of django_components.util.django_monkeypatch.monkeypatch_template_cls on a hierarchy of Template classes
   (property C09: "the token stream that the PATCHED Django Template compiles from"; the documented manual entry
   point for custom template classes).  Definitions only; proofs in Lexer/PatchProofs.v.

   A class is its own attribute dictionary, restricted to the two attributes that matter here:
     compile_nodelist  (own definition, or inherited: Python attribute lookup walks the parent chain)
     _djc_patched      (own flag; `is_template_cls_patched` reads it with getattr, i.e. ALSO through the parents)
   Class 0 is django.template.Template (own stock compile_nodelist).  Classes are numbered in creation order, the
   parent of a class is an earlier class (single inheritance from Template, as custom template classes are).

     monkeypatch_template_cls(cls):
         monkeypatch_template_compile_nodelist(cls)     - ALWAYS sets cls.compile_nodelist (own attribute)
         monkeypatch_template_render(cls)               - skipped when is_template_cls_patched(cls) (not modelled:
                                                          render is no part of C09)
         cls._djc_patched = True
     apps.ready() = monkeypatch_template_cls(Template) = [EPatch 0]                                              *)
From DJC Require Import Lib.Base Lexer.Model.

Inductive route := RStock | RPatched.    (* lexer used by compile_nodelist: Django's (Debug)Lexer / parse_template *)
Record cls := mkCls { cparent : option nat; ccompile : option route; cflag : bool }.
Notation world := (list cls) (only parsing).

Definition template_cls : cls := mkCls None (Some RStock) false.
Definition world0 : world := [template_cls].          (* before django.setup() *)

(* attribute lookup along the parent chain; fuel = number of classes is enough (parents are earlier classes) *)
Fixpoint mro_compile (fuel : nat) (w : world) (c : nat) : route :=
  match fuel with
  | O => RStock
  | S f =>
      match nth_error w c with
      | None => RStock
      | Some k =>
          match ccompile k with
          | Some r => r
          | None => match cparent k with Some p => mro_compile f w p | None => RStock end
          end
      end
  end.
Fixpoint mro_flag (fuel : nat) (w : world) (c : nat) : bool :=
  match fuel with
  | O => false
  | S f =>
      match nth_error w c with
      | None => false
      | Some k => cflag k || match cparent k with Some p => mro_flag f w p | None => false end
      end
  end.

Definition compile_route (w : world) (c : nat) : route := mro_compile (length w) w c.
Definition is_patched (w : world) (c : nat) : bool := mro_flag (length w) w c.     (* is_template_cls_patched *)

Fixpoint update {A} (i : nat) (f : A -> A) (l : list A) : list A :=
  match l, i with
  | [], _ => []
  | x :: r, O => f x :: r
  | x :: r, S j => x :: update j f r
  end.

Inductive event :=
  | ENew (parent : nat) (own_compile : bool)   (* class C(parent): [def compile_nodelist: stock Django code] *)
  | EPatch (c : nat).                          (* monkeypatch_template_cls(c); django.setup() is EPatch 0 *)

Definition step (w : world) (e : event) : world :=
  match e with
  | ENew p own => w ++ [mkCls (Some p) (if own then Some RStock else None) false]
  | EPatch c => update c (fun k => mkCls (cparent k) (Some RPatched) true) w
  end.
Definition run (h : list event) (w : world) : world := fold_left step h w.

(* the event refers to existing classes *)
Definition ev_ok (w : world) (e : event) : bool :=
  match e with ENew p _ => Nat.ltb p (length w) | EPatch c => Nat.ltb c (length w) end.
Fixpoint hist_ok (h : list event) (w : world) : bool :=
  match h with [] => true | e :: r => ev_ok w e && hist_ok r (step w e) end.

(* the token stream class c compiles a source from *)
Definition compile_stream (w : world) (c : nat) (dotall : bool) (s : str) : pres :=
  match compile_route w c with
  | RPatched => parse_template dotall s
  | RStock => POk (django_lex dotall s)
  end.

(* ---------- correspondence case ---------- *)
Definition route_code (r : route) : N := match r with RStock => 0 | RPatched => 1 end%N.
(* (history from world0, observed per class: (route code, is_template_cls_patched)) *)
Notation patch_case := (list event * list (N * bool))%type (only parsing).
Definition check_patch (c : patch_case) : bool :=
  let '(h, o) := c in
  let w := run h world0 in
  hist_ok h world0 &&
  list_eqb (fun a b => N.eqb (fst a) (fst b) && Bool.eqb (snd a) (snd b))
           (map (fun i => (route_code (compile_route w i), is_patched w i)) (seq 0 (length w))) o.
