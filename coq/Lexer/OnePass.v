(* parse_template (stock lexer, hand-over to the detailed scan at the first quoted block tag, restart) computes the
   one-pass reference lexer [spec_lex] of Lexer/Model.v, for every source; and the first place where its stream
   differs from stock Django's is a quoted block tag whose stock-closing percent-brace lies inside a quoted string. *)
From Coq Require Import String.
From DJC Require Import Lib.Base Lexer.Model Lexer.Wf Lexer.Scan Lexer.Restart.

(* ---------- str.strip: the stripped prefix survives an extension of the text ---------- *)
Lemma lstrip_app x y : lstrip (x ++ y) = if forallb py_isspace x then lstrip y else lstrip x ++ y.
Proof.
  induction x as [|c x IH]; [reflexivity|]. cbn [app lstrip forallb].
  destruct (py_isspace c); [exact IH|reflexivity].
Qed.

Lemma lstrip_all_space x : forallb py_isspace x = true -> lstrip x = [].
Proof.
  induction x as [|c x IH]; [reflexivity|]. cbn [forallb lstrip]. destruct (py_isspace c); [exact IH|discriminate].
Qed.

Lemma lstrip_suffix l : exists h, l = h ++ lstrip l.
Proof.
  induction l as [|c l [h IH]]; [exists []; reflexivity|]. cbn [lstrip]. destruct (py_isspace c).
  - exists (c :: h). cbn [app]. f_equal. exact IH.
  - exists []. reflexivity.
Qed.

Lemma rstrip_app x y : rstrip (x ++ y) = if forallb py_isspace (rev y) then rstrip x else x ++ rstrip y.
Proof.
  unfold rstrip. rewrite rev_app_distr, lstrip_app. destruct (forallb py_isspace (rev y)); [reflexivity|].
  rewrite rev_app_distr, rev_involutive. reflexivity.
Qed.

Lemma rstrip_prefix x : exists t, x = rstrip x ++ t.
Proof.
  unfold rstrip. destruct (lstrip_suffix (rev x)) as [h H]. exists (rev h).
  rewrite <- rev_app_distr, <- H, rev_involutive. reflexivity.
Qed.

Lemma strip_app_prefix a b : exists w, strip (a ++ b) = strip a ++ w.
Proof.
  unfold strip. rewrite lstrip_app. destruct (forallb py_isspace a) eqn:E.
  - rewrite (lstrip_all_space a E). exists (rstrip (lstrip b)). reflexivity.
  - rewrite rstrip_app. destruct (forallb py_isspace (rev b)).
    + exists []. rewrite app_nil_r. reflexivity.
    + destruct (rstrip_prefix (lstrip a)) as [t Ht]. exists (t ++ rstrip b).
      rewrite app_assoc, <- Ht. reflexivity.
Qed.

(* a tag whose stock contents are a verbatim-closing name ("end...") does not open a verbatim block, however far
   the quote-aware scan extends it *)
Lemma extended_end_not_verbatim_start body j0 j c0 :
  j0 <= j -> strip (firstn j0 body) = kw_end ++ c0 -> is_verbatim_start (strip (firstn j body)) = false.
Proof.
  intros L H. replace j with (j0 + (j - j0)) by lia. rewrite firstn_add.
  destruct (strip_app_prefix (firstn j0 body) (firstn (j - j0) (skipn j0 body))) as [w Hw].
  rewrite Hw, H, <- app_assoc. apply end_not_verbatim_start.
Qed.

(* ---------- pres plumbing ---------- *)
Lemma pprepend_nil r : pprepend [] r = r.
Proof. destruct r; reflexivity. Qed.

Lemma pcons_pprepend t g r : pcons t (pprepend g r) = pprepend (t :: g) r.
Proof. destruct r; reflexivity. Qed.

Lemma pprepend_app a b r : pprepend a (pprepend b r) = pprepend (a ++ b) r.
Proof. destruct r; cbn; [rewrite app_assoc|..]; reflexivity. Qed.

Lemma pprepend_snoc a t r : pprepend a (pcons t r) = pprepend (a ++ [t]) r.
Proof. destruct r; cbn; [rewrite <- app_assoc|..]; reflexivity. Qed.

(* ---------- spec_go ---------- *)
(* the step of the reference lexer at a block tag that stock emits as a BLOCK token with a quote (fuel made
   canonical: the length of what remains) *)
Definition spec_at_broken (d : bool) (v : option str) (s : str) (pos line : nat) : pres :=
  match find_uclose QOut (skipn 2 s) with
  | Some j =>
      let c := strip (firstn j (skipn 2 s)) in
      pcons (mkTok TBlock c pos (pos + (j + 4)) line)
            (spec_go (length (skipn (j + 4) s)) d (verbatim_after_block v c) (skipn (j + 4) s) (pos + (j + 4))
                     (line + count_nl (firstn (j + 4) s)))
  | None => PErr (err_of_qstate (qrun QOut (skipn 2 s)))
  end.

Lemma spec_go_unfold f d v s pos line : s <> [] ->
  spec_go (S f) d v s pos line =
  match tag_at d s with
  | Some len =>
      let '(t, v') := create_token v (firstn len s) pos line in
      if is_broken t then
        match find_uclose QOut (skipn 2 s) with
        | Some j =>
            pcons (mkTok TBlock (strip (firstn j (skipn 2 s))) pos (pos + (j + 4)) line)
                  (spec_go f d (verbatim_after_block v (strip (firstn j (skipn 2 s)))) (skipn (j + 4) s)
                           (pos + (j + 4)) (line + count_nl (firstn (j + 4) s)))
        | None => PErr (err_of_qstate (qrun QOut (skipn 2 s)))
        end
      else pcons t (spec_go f d v' (skipn len s) (pos + len) (line + count_nl (firstn len s)))
  | None =>
      pcons (mkTok TText (firstn (text_run d s) s) pos (pos + text_run d s) line)
            (spec_go f d v (skipn (text_run d s) s) (pos + text_run d s)
                     (line + count_nl (firstn (text_run d s) s)))
  end.
Proof. intros H. destruct s; [congruence|reflexivity]. Qed.

Lemma spec_go_nil f d v pos line : spec_go f d v [] pos line = POk [].
Proof. destruct f; reflexivity. Qed.

Lemma tag_uclose_bound d s len j : tag_at d s = Some len -> find_uclose QOut (skipn 2 s) = Some j ->
  1 <= j + 4 <= length s.
Proof.
  intros T F. destruct (tag_at_spec _ _ _ T) as [_ [_ [_ [_ [L _]]]]].
  apply find_uclose_bound in F. rewrite skipn_length in F. lia.
Qed.

Lemma spec_go_fuel_irrel d : forall f1 f2 v s pos line, length s <= f1 -> length s <= f2 ->
  spec_go f1 d v s pos line = spec_go f2 d v s pos line.
Proof.
  induction f1 as [|f1 IH]; intros f2 v s pos line H1 H2.
  - destruct s; [|cbn in H1; lia]. rewrite !spec_go_nil. reflexivity.
  - destruct s as [|c r] eqn:Es; [rewrite !spec_go_nil; reflexivity|]. rewrite <- Es in *.
    assert (Hne : s <> []) by (rewrite Es; discriminate).
    destruct f2 as [|f2]; [rewrite Es in H2; cbn in H2; lia|].
    rewrite !spec_go_unfold by exact Hne.
    destruct (tag_at d s) as [len|] eqn:T.
    + destruct (tag_at_spec _ _ _ T) as [_ [_ [_ [_ [L _]]]]].
      destruct (create_token v (firstn len s) pos line) as [t v']. destruct (is_broken t).
      * destruct (find_uclose QOut (skipn 2 s)) as [j|] eqn:F; [|reflexivity].
        pose proof (tag_uclose_bound _ _ _ _ T F) as B.
        f_equal. apply IH; rewrite skipn_length; lia.
      * f_equal. apply IH; rewrite skipn_length; lia.
    + destruct (text_run_bounds d s Hne T) as [L1 L2].
      f_equal. apply IH; rewrite skipn_length; lia.
Qed.

Lemma pcons_oof t r : pcons t r = POutOfFuel -> r = POutOfFuel.
Proof. destruct r; intros H; try discriminate; reflexivity. Qed.

Lemma spec_go_no_oof d : forall f v s pos line, spec_go f d v s pos line <> POutOfFuel.
Proof.
  induction f as [|f IH]; intros v s pos line; [discriminate|].
  destruct s as [|c r]; [discriminate|]. rewrite spec_go_unfold by discriminate.
  destruct (tag_at d (c :: r)).
  - destruct (create_token _ _ _ _) as [t v']. destruct (is_broken t).
    + destruct (find_uclose _ _); [|discriminate]. intros X. apply pcons_oof in X. exact (IH _ _ _ _ X).
    + intros X. apply pcons_oof in X. exact (IH _ _ _ _ X).
  - intros X. apply pcons_oof in X. exact (IH _ _ _ _ X).
Qed.

(* at a BLOCK token with a quote the reference lexer takes the quote-aware step *)
Lemma spec_go_head_broken d f v s pos line b rest :
  length s <= f -> lex_go f d v s pos line = b :: rest -> is_broken b = true ->
  spec_go f d v s pos line = spec_at_broken d v s pos line.
Proof.
  intros Hf H Hb. destruct f as [|f]; [discriminate|]. destruct s as [|c r] eqn:Es; [discriminate|].
  rewrite <- Es in *. assert (Hne : s <> []) by (rewrite Es; discriminate).
  rewrite lex_go_unfold in H by exact Hne. rewrite spec_go_unfold by exact Hne. unfold spec_at_broken.
  destruct (tag_at d s) as [len|] eqn:T.
  - destruct (create_token v (firstn len s) pos line) as [t v'] eqn:CT. injection H as Ht _. subst t.
    rewrite Hb. destruct (find_uclose QOut (skipn 2 s)) as [j|] eqn:F; [|reflexivity].
    pose proof (tag_uclose_bound _ _ _ _ T F) as B. cbn zeta. f_equal.
    apply spec_go_fuel_irrel; rewrite skipn_length; lia.
  - injection H as Ht _. subst b. discriminate.
Qed.

(* [closes_as_stock s0 t] for a token at the head of the lexed remainder *)
Lemma closes_head_find_uclose s0 s pos len t :
  s = skipn pos s0 -> tstart t = pos -> tend t = pos + len -> 4 <= len ->
  closes_as_stock s0 t -> find_uclose QOut (skipn 2 s) = Some (len - 4).
Proof.
  intros Hs Hst Hen L C. unfold closes_as_stock in C. rewrite Hst, Hen in C.
  rewrite <- skipn_skipn, <- Hs in C. pose proof (dfa_run_normal (skipn 2 s) 2) as M. rewrite C in M.
  cbn [scan_matches] in M. destruct M as [j [F K]]. rewrite F. f_equal. lia.
Qed.

(* Along a prefix of the stock stream in which every quoted block tag closes where stock closes it, the reference
   lexer emits the stock tokens and is then in the state of the stock lexer. *)
Lemma spec_go_stock_prefix d s0 : forall pre f v s pos line rest,
  s = skipn pos s0 -> length s <= f ->
  lex_go f d v s pos line = pre ++ rest ->
  Forall (fun t => is_broken t = true -> closes_as_stock s0 t) pre ->
  spec_go f d v s pos line =
  pprepend pre (spec_go f d (fold_left state_after pre v) (skipn (consumed pre) s) (pos + consumed pre)
                        (line + count_nl (firstn (consumed pre) s))).
Proof.
  induction pre as [|t pre IH]; intros f v s pos line rest Hs Hf H Fc.
  - cbn [consumed fold_left skipn firstn]. unfold count_nl. cbn [count_sym N.to_nat].
    rewrite !Nat.add_0_r, pprepend_nil. reflexivity.
  - destruct f as [|f]; [discriminate|]. destruct s as [|c r] eqn:Es; [discriminate|]. rewrite <- Es in *.
    assert (Hne : s <> []) by (rewrite Es; discriminate).
    pose proof (Forall_inv Fc) as Ct. pose proof (Forall_inv_tail Fc) as Fc'. cbn beta in Ct.
    rewrite lex_go_unfold in H by exact Hne. rewrite spec_go_unfold by exact Hne.
    (* the common continuation *)
    assert (Fin : forall len v', 1 <= len <= length s -> tlen t = len -> v' = state_after v t ->
               lex_go f d v' (skipn len s) (pos + len) (line + count_nl (firstn len s)) = pre ++ rest ->
               pcons t (spec_go f d v' (skipn len s) (pos + len) (line + count_nl (firstn len s))) =
               pprepend (t :: pre)
                 (spec_go (S f) d (fold_left state_after (t :: pre) v) (skipn (consumed (t :: pre)) s)
                          (pos + consumed (t :: pre)) (line + count_nl (firstn (consumed (t :: pre)) s)))).
    { intros len v' L Hl Hv R.
      assert (Lf : length (skipn len s) <= f) by (rewrite skipn_length; lia).
      assert (Hs' : skipn len s = skipn (pos + len) s0) by (rewrite Hs; apply skipn_skipn).
      rewrite (IH f v' _ (pos + len) _ rest Hs' Lf R Fc').
      rewrite pcons_pprepend. cbn [consumed fold_left]. rewrite Hl, <- Hv. f_equal.
      rewrite skipn_skipn, count_nl_firstn_add, !Nat.add_assoc.
      apply spec_go_fuel_irrel; rewrite !skipn_length; lia. }
    destruct (tag_at d s) as [len|] eqn:T.
    + destruct (create_token v (firstn len s) pos line) as [t' v'] eqn:CT.
      destruct (create_token_spec _ _ _ _ _ _ _ _ T CT) as [L [Hst [Hen [Hln Hc]]]].
      destruct (create_token_state _ _ _ _ _ _ CT) as [Hv _].
      cbn [app] in H. injection H as Ht Hr. subst t'.
      destruct (is_broken t) eqn:Bt.
      * pose proof (closes_head_find_uclose s0 s pos len t Hs Hst Hen ltac:(lia) (Ct eq_refl)) as Fu.
        rewrite Fu. replace (len - 4 + 4) with len by lia.
        pose proof (is_broken_block _ Bt) as Ty.
        destruct Hc as [[Hty _]|[_ [_ [_ Hct]]]]; [congruence|].
        assert (Et : {| ttype := TBlock; tcontents := strip (firstn (len - 4) (skipn 2 s));
                        tstart := pos; tend := pos + len; tline := line |} = t).
        { destruct t as [ty c0 a e l]. cbn [ttype tcontents tstart tend tline] in *. subst. reflexivity. }
        rewrite Et. rewrite <- Hct.
        assert (Ev : verbatim_after_block v (tcontents t) = v').
        { rewrite Hv. unfold state_after, verbatim_after_block. rewrite Ty. reflexivity. }
        rewrite Ev. apply (Fin len v'); try assumption; try lia. unfold tlen. lia.
      * apply (Fin len v'); try assumption; try lia. unfold tlen. lia.
    + destruct (text_run_bounds d _ Hne T) as [L1 L2].
      cbn [app] in H. injection H as Ht Hr. rewrite Ht.
      apply (Fin (text_run d s) v); try lia.
      * rewrite <- Ht. unfold tlen. cbn. lia.
      * rewrite <- Ht. reflexivity.
      * exact Hr.
Qed.

(* one round of parse_template's loop, seen from the reference lexer: stock tokens up to the first quoted block
   tag, then the quote-aware step *)
Lemma spec_go_round d s0 f v s pos line good ob :
  s = skipn pos s0 -> length s <= f ->
  split_broken (lex_go f d v s pos line) = (good, ob) ->
  spec_go f d v s pos line =
  pprepend good
    match ob with
    | None => POk []
    | Some b => spec_at_broken d (fold_left state_after good v) (skipn (consumed good) s)
                               (pos + consumed good) (line + count_nl (firstn (consumed good) s))
    end.
Proof.
  intros Hs Hf S. destruct (split_broken_spec _ _ _ S) as [Fg M].
  assert (Fc : Forall (fun t => is_broken t = true -> closes_as_stock s0 t) good).
  { eapply Forall_impl; [|exact Fg]. cbn. intros t E X. congruence. }
  destruct ob as [b|].
  - destruct M as [Hb [rest E]].
    rewrite (spec_go_stock_prefix d s0 good f v s pos line (b :: rest) Hs Hf E Fc). f_equal.
    pose proof (lex_go_app d good (b :: rest) f v s pos line Hf E) as R. symmetry in R.
    apply (spec_go_head_broken d f _ _ _ _ b rest); [rewrite skipn_length; lia|exact R|exact Hb].
  - rewrite <- (app_nil_r good) in M.
    rewrite (spec_go_stock_prefix d s0 good f v s pos line [] Hs Hf M Fc). f_equal.
    pose proof (lex_go_app d good [] f v s pos line Hf M) as R. symmetry in R.
    (* the stock run is over: so is the reference run *)
    remember (skipn (consumed good) s) as s1 eqn:E1.
    destruct f as [|f]; [reflexivity|]. destruct s1 as [|c r] eqn:Es; [reflexivity|]. exfalso.
    rewrite lex_go_unfold in R by discriminate.
    destruct (tag_at d (c :: r)); [destruct (create_token _ _ _ _)|]; discriminate.
Qed.

(* ---------- the verbatim state handed to the restarted lexer is the stock state ---------- *)
Lemma restart_block_first_close d v s i off b :
  In b (map (shift_tok i off) (django_lex_v d v (skipn i s))) -> ttype b = TBlock ->
  first_close (skipn (tstart b + 2) s) (tend b - tstart b - 4).
Proof.
  intros I Ty. apply in_map_iff in I as [b0 [E I0]]. subst b. cbn [shift_tok ttype tstart tend] in *.
  pose proof (stock_block_first_close d v (skipn i s) b0 I0 Ty) as H. rewrite skipn_skipn in H.
  replace (tstart b0 + i + 2) with (i + (tstart b0 + 2)) by lia.
  replace (tend b0 + i - (tstart b0 + i) - 4) with (tend b0 - tstart b0 - 4) by lia. exact H.
Qed.

Lemma restart_state d s i off v good b rest j :
  i <= length s -> off = count_nl (firstn i s) -> state_ok v ->
  map (shift_tok i off) (django_lex_v d v (skipn i s)) = good ++ b :: rest ->
  is_broken b = true ->
  find_uclose QOut (skipn (tstart b + 2) s) = Some j ->
  tend b - tstart b - 4 <= j /\
  verbatim_after_block (fold_left state_after good v) (strip (firstn j (skipn (tstart b + 2) s))) =
  (if is_verbatim_start (strip (firstn j (skipn (tstart b + 2) s)))
   then Some (kw_end ++ strip (firstn j (skipn (tstart b + 2) s))) else None).
Proof.
  intros Hi Hoff Hv E Hb Fu. pose proof (is_broken_block _ Hb) as Ty.
  assert (Ib : In b (map (shift_tok i off) (django_lex_v d v (skipn i s))))
    by (rewrite E; apply in_or_app; right; left; reflexivity).
  pose proof (restart_block_first_close d v s i off b Ib Ty) as FC.
  assert (Lj : tend b - tstart b - 4 <= j).
  { eapply first_unquoted_ge_first; [apply find_uclose_some; exact Fu|exact FC]. }
  split; [exact Lj|].
  set (vb := fold_left state_after good v). assert (Hvb : state_ok vb) by (apply fold_state_ok; exact Hv).
  unfold verbatim_after_block. destruct vb as [name|] eqn:Evb; [|reflexivity].
  (* b is the head of a lexer run in state Some name: its contents are name = "end..." *)
  unfold django_lex_v in E. rewrite <- (lex_go_shift d i off _ v (skipn i s) 0 1) in E.
  pose proof (lex_go_app d good (b :: rest) _ v (skipn i s) (0 + i) (1 + off) (Nat.le_refl _) E) as R. symmetry in R.
  fold vb in R. rewrite Evb in R.
  pose proof (lex_go_head_block _ _ _ _ _ _ _ _ name R eq_refl Ty) as Hn.
  destruct Hvb as [c0 Hc0].
  destruct (restart_wf d v s i off Hi Hoff) as [F _].
  unfold django_lex_v in F. rewrite <- (lex_go_shift d i off _ v (skipn i s) 0 1) in F. rewrite E in F.
  apply Forall_app in F as [_ F]. pose proof (Forall_inv F) as Wb.
  destruct Wb as [_ [_ [_ W]]]. rewrite Ty in W. destruct W as [W4 [_ [_ Wc]]].
  assert (Ec : strip (firstn (tend b - tstart b - 4) (skipn (tstart b + 2) s)) = kw_end ++ c0).
  { rewrite <- Hc0, <- Hn, Wc. unfold slice. f_equal. f_equal. lia. }
  rewrite (extended_end_not_verbatim_start _ _ _ _ Lj Ec). reflexivity.
Qed.

(* ---------- parse_template computes the reference lexer ---------- *)
Lemma pt_go_spec d s : forall fuel i off v acc,
  i <= length s -> off = count_nl (firstn i s) -> state_ok v -> length s - i < fuel ->
  pt_go fuel d s i off v acc = pprepend acc (spec_go (length s - i) d v (skipn i s) i (1 + off)).
Proof.
  induction fuel as [|f IH]; intros i off v acc Hi Hoff Hv Hf; [lia|].
  cbn [pt_go]. destruct (Nat.leb (length s) i) eqn:El.
  - apply Nat.leb_le in El. rewrite skipn_all2 by lia. rewrite spec_go_nil. cbn. rewrite app_nil_r. reflexivity.
  - apply Nat.leb_gt in El.
    assert (Elex : map (shift_tok i off) (django_lex_v d v (skipn i s)) =
                   lex_go (length s - i) d v (skipn i s) i (1 + off)).
    { unfold django_lex_v. rewrite <- (lex_go_shift d i off _ v (skipn i s) 0 1), skipn_length. reflexivity. }
    destruct (split_broken (map (shift_tok i off) (django_lex_v d v (skipn i s)))) as [good ob] eqn:S.
    pose proof S as S'. rewrite Elex in S'.
    rewrite (spec_go_round d s (length s - i) v (skipn i s) i (1 + off) good ob eq_refl
               ltac:(rewrite skipn_length; lia) S').
    destruct (split_broken_spec _ _ _ S) as [_ M]. destruct ob as [b|].
    + destruct M as [Hb [rest E]].
      (* position and line of b *)
      destruct (restart_wf d v s i off Hi Hoff) as [F C]. rewrite E in F, C.
      apply Forall_app in F as [Fg Fb]. pose proof (Forall_inv Fb) as Wb.
      apply chain_app_inv in C as [m [Cg Cb]]. cbn [chain] in Cb. destruct Cb as [Em _]. subst m.
      pose proof (chain_consumed _ _ _ _ Fg Cg) as Ec.
      destruct Wb as [_ [_ [Wl _]]].
      assert (Eline : 1 + off + count_nl (firstn (consumed good) (skipn i s)) = tline b).
      { rewrite Wl, <- Ec, count_nl_firstn_add, Hoff. lia. }
      rewrite Ec, skipn_skipn, Ec, Eline.
      destruct (detailed (skipn (tstart b) s) (tline b) (tstart b)) as [e|fixed] eqn:D.
      * rewrite detailed_as_find_uclose in D. unfold spec_at_broken.
        destruct (find_uclose QOut (skipn 2 (skipn (tstart b) s))); [discriminate|].
        inversion D. reflexivity.
      * destruct (round_wf d v s i off good b rest fixed Hi Hoff E Hb D) as [_ [_ [L [_ [_ [_ [_ Ho]]]]]]].
        rewrite detailed_as_find_uclose in D. unfold spec_at_broken.
        destruct (find_uclose QOut (skipn 2 (skipn (tstart b) s))) as [j|] eqn:Fu; [|discriminate].
        rewrite skipn_skipn in Fu.
        destruct (restart_state d s i off v good b rest j Hi Hoff Hv E Hb Fu) as [_ Est].
        rewrite (IH (tend fixed) _ (next_verbatim fixed) (acc ++ good ++ [fixed]));
          [|lia|exact Ho|apply next_verbatim_ok|lia].
        assert (Ef : fixed = mkTok TBlock (strip (firstn j (skipn (tstart b + 2) s))) (tstart b)
                                   (tstart b + (j + 4)) (tline b)).
        { rewrite <- (skipn_skipn 2 (tstart b) s). congruence. }
        clear D. subst fixed. cbn [tend tline tstart] in *.
        rewrite (skipn_skipn 2 (tstart b) s).
        rewrite pprepend_app, pprepend_snoc, <- app_assoc. f_equal.
        assert (Esk : skipn (j + 4) (skipn (tstart b) s) = skipn (tstart b + (j + 4)) s) by apply skipn_skipn.
        rewrite Esk. f_equal.
        -- rewrite skipn_length. reflexivity.
        -- unfold next_verbatim. cbn [tcontents]. symmetry. exact Est.
        -- rewrite slice_len. lia.
    + cbn. rewrite app_nil_r. reflexivity.
Qed.

Lemma parse_template_eq_spec d s : parse_template d s = spec_lex d s.
Proof.
  unfold parse_template, spec_lex.
  rewrite (pt_go_spec d s (S (length s)) 0 0 None []); [|lia|reflexivity|exact I|lia].
  rewrite pprepend_nil, Nat.sub_0_r. reflexivity.
Qed.

(* ---------- first difference with the stock stream ---------- *)
(* body of a token = the source after its two-character opener; stock_close_index = where the closing pair of
   the token starts, counted in the body *)
Definition tok_body (s : str) (t : tok) : str := skipn (tstart t + 2) s.
Definition close_index (t : tok) : nat := tend t - tstart t - 4.

Lemma first_difference_full d s :
  parse_template d s = POk (django_lex d s) \/
  exists pre b post, django_lex d s = pre ++ b :: post /\ is_broken b = true /\
    Forall (fun t => is_broken t = true -> closes_as_stock s t) pre /\
    qstate_at (tok_body s b) (close_index b) <> QOut /\
    match parse_template d s with
    | POk toks => exists fixed post', toks = pre ++ fixed :: post' /\
        ttype fixed = TBlock /\ tstart fixed = tstart b /\ tline fixed = tline b /\ tend b < tend fixed /\
        first_unquoted_close (tok_body s b) (close_index fixed)
    | PErr _ => True
    | POutOfFuel => False
    end.
Proof.
  destruct (first_difference d s) as [A|[pre [b [post [E [Hb [Nb Fp]]]]]]]; [left; exact A|].
  right. exists pre, b, post. split; [exact E|]. split; [exact Hb|]. split; [exact Fp|].
  pose proof (is_broken_block _ Hb) as Ty.
  assert (Ib : In b (django_lex_v d None s)) by (unfold django_lex in E; rewrite E; apply in_or_app; right; left; reflexivity).
  split.
  { intros Q. apply Nb. apply (closes_as_stock_iff_unquoted d None s b Ib Ty). exact Q. }
  (* the reference lexer along pre, then at b *)
  rewrite parse_template_eq_spec. unfold spec_lex. unfold django_lex, django_lex_v in E.
  rewrite (spec_go_stock_prefix d s pre (length s) None s 0 1 (b :: post) eq_refl (Nat.le_refl _) E Fp).
  pose proof (lex_go_app d pre (b :: post) _ None s 0 1 (Nat.le_refl _) E) as R. symmetry in R.
  assert (Ls : length (skipn (consumed pre) s) <= length s) by (rewrite skipn_length; lia).
  rewrite (spec_go_head_broken d _ _ _ _ _ b post Ls R Hb).
  (* position of b *)
  destruct (django_lex_v_wf d None s) as [F C]. unfold django_lex_v in F, C. rewrite E in F, C.
  apply Forall_app in F as [Fg Fb]. pose proof (Forall_inv Fb) as Wb.
  apply chain_app_inv in C as [m [Cg Cb]]. cbn [chain] in Cb. destruct Cb as [Em _]. subst m.
  pose proof (chain_consumed _ _ _ _ Fg Cg) as Ec. cbn [Nat.add] in Ec.
  destruct Wb as [_ [_ [Wl W]]]. rewrite Ty in W. destruct W as [W4 _].
  unfold spec_at_broken. rewrite Ec, skipn_skipn.
  replace (1 + count_nl (firstn (tstart b) s)) with (tline b) by (rewrite Wl; reflexivity).
  destruct (find_uclose QOut (skipn (tstart b + 2) s)) as [j|] eqn:Fu; [|exact I].
  pose proof (stock_block_first_close d None s b Ib Ty) as FC.
  pose proof (find_uclose_some _ _ _ Fu) as FU.
  assert (Lj : tend b - tstart b - 4 < j).
  { pose proof (first_unquoted_ge_first _ _ _ FU FC) as L.
    destruct (Nat.eq_dec (tend b - tstart b - 4) j) as [Ej|Nj]; [|lia]. exfalso. apply Nb.
    apply (closes_as_stock_iff_unquoted d None s b Ib Ty). rewrite Ej. destruct FU as [[_ Q] _]. exact Q. }
  cbn zeta.
  match goal with |- match pprepend pre (pcons ?t ?r) with _ => _ end =>
    set (fx := t); destruct r as [post'|e|] eqn:Er; cbn [pcons pprepend]; [|exact I|] end.
  - exists fx, post'. split; [reflexivity|]. subst fx. cbn [ttype tstart tend tline].
    split; [reflexivity|]. split; [reflexivity|]. split; [reflexivity|]. split; [lia|].
    unfold close_index, tok_body. cbn [tstart tend]. replace (0 + tstart b + (j + 4) - (0 + tstart b) - 4) with j by lia.
    exact FU.
  - exact (spec_go_no_oof _ _ _ _ _ _ Er).
Qed.
