(* Model of the template lexing path of django-components (property C09; reused by C10a / C12).

     django.template.base.DebugLexer.tokenize + Lexer.create_token      -> [django_lex]
     django_components.util.template_parser._detailed_tag_parser        -> [detailed]
     django_components.util.template_parser.parse_template              -> [parse_template]

   Strings are lists of code points ([str] of Lib/Base.v), positions / lengths / line numbers are [nat].
   Definitions only - the proofs are in Lexer/Proofs.v so the model still runs when a proof breaks.

   Django's [tag_re] is the pattern  ({%.*?%}|{{.*?}}|{#.*?#})  compiled with or without re.DOTALL
   (django_components.apps.ready() recompiles it with DOTALL when COMPONENTS.multiline_tags is on).
   It is modelled by the structural matcher [tag_at] (pattern anchored to the source's pattern string
   in Lexer/Proofs.v, `tag_re_anchor`); the flag is the parameter [dotall] of every function.

   Reuse (C10a): [django_lex], [parse_template], and the theorems `eq_stock_when_no_quote`,
   `eq_stock_when_quotes_closed` of Props/C09.v. *)
From Coq Require Import String.
From DJC Require Import Lib.Base.

(* ---------- characters ---------- *)
Definition c_lbrace : N := 123%N.   (* { *)
Definition c_rbrace : N := 125%N.   (* } *)
Definition c_pct    : N := 37%N.    (* % *)
Definition c_hash   : N := 35%N.    (* # *)
Definition c_dq     : N := 34%N.    (* double quote *)
Definition c_sq     : N := 39%N.    (* single quote *)
Definition c_bslash : N := 92%N.    (* \ *)
Definition c_nl     : N := 10%N.    (* \n *)

Definition is_quote (c : N) : bool := N.eqb c c_sq || N.eqb c c_dq.

(* Python's str.isspace for one code point (the set str.strip() removes); anchored to CPython by
   Gen/C09.v `py_space_chars` (see Proofs.v, `py_isspace_anchor`). *)
Definition py_space_chars : list N :=
  [9; 10; 11; 12; 13; 28; 29; 30; 31; 32; 133; 160; 5760; 8192; 8193; 8194; 8195; 8196; 8197; 8198; 8199;
   8200; 8201; 8202; 8232; 8233; 8239; 8287; 12288]%N.
Definition py_isspace (c : N) : bool := existsb (N.eqb c) py_space_chars.

Fixpoint lstrip (s : str) : str :=
  match s with
  | [] => []
  | c :: r => if py_isspace c then lstrip r else s
  end.
Definition rstrip (s : str) : str := rev (lstrip (rev s)).
Definition strip (s : str) : str := rstrip (lstrip s).           (* str.strip() *)

Definition count_nl (s : str) : nat := N.to_nat (count_sym c_nl s).   (* s.count(newline) *)
Definition slice (s : str) (a b : nat) : str := firstn (b - a) (skipn a s).   (* s[a:b], a <= b <= len *)

(* ---------- tokens ---------- *)
Inductive toktype := TText | TVar | TBlock | TComment.   (* TokenType.TEXT=0 VAR=1 BLOCK=2 COMMENT=3 *)
Record tok := mkTok { ttype : toktype; tcontents : str; tstart : nat; tend : nat; tline : nat }.

(* ---------- tag_re ---------- *)
(* `.*?XY` after an opener: offset of the first "XY" such that (without DOTALL) no newline precedes it *)
Fixpoint find_close (dotall : bool) (c1 c2 : N) (s : str) : option nat :=
  match s with
  | [] => None
  | x :: r =>
      if N.eqb x c1 && match r with y :: _ => N.eqb y c2 | [] => false end then Some 0
      else if negb dotall && N.eqb x c_nl then None
      else option_map S (find_close dotall c1 c2 r)
  end.

(* closing pair of the alternative selected by the character after the brace *)
Definition closer_of (k : N) : option (N * N) :=
  if N.eqb k c_pct then Some (c_pct, c_rbrace)
  else if N.eqb k c_lbrace then Some (c_rbrace, c_rbrace)
  else if N.eqb k c_hash then Some (c_hash, c_rbrace)
  else None.

(* tag_re.match at the head of s: total length of the match *)
Definition tag_at (dotall : bool) (s : str) : option nat :=
  match s with
  | o :: k :: r =>
      if N.eqb o c_lbrace then
        match closer_of k with
        | Some (c1, c2) => option_map (fun j => S (S (S (S j)))) (find_close dotall c1 c2 r)
        | None => None
        end
      else None
  | _ => None
  end.

(* number of characters before the leftmost position where tag_re matches (len s if none) *)
Fixpoint text_run (dotall : bool) (s : str) : nat :=
  match s with
  | [] => 0
  | _ :: r => match tag_at dotall s with Some _ => 0 | None => S (text_run dotall r) end
  end.

(* ---------- Lexer.create_token (in_tag = True) ---------- *)
Definition kw_verbatim  : str := Eval compute in s2n "verbatim"%string.
Definition kw_verbatim_ : str := Eval compute in s2n "verbatim "%string.
Definition kw_end       : str := Eval compute in s2n "end"%string.

(* content[:9] in (verbatim, verbatim+space) *)
Definition is_verbatim_start (content : str) : bool :=
  let p := firstn 9 content in str_eqb p kw_verbatim || str_eqb p kw_verbatim_.

(* token_string[2:-2] for len >= 4 *)
Definition inner (raw : str) : str := firstn (length raw - 4) (skipn 2 raw).

(* verbatim state: None = False, Some name = the end... contents that closes the block *)
Definition create_token (v : option str) (raw : str) (pos line : nat) : tok * option str :=
  let e := pos + length raw in
  let content := strip (inner raw) in
  let k := nth 1 raw 0%N in                 (* token_string[0:2] is one of the three openers *)
  if N.eqb k c_pct then
    match v with
    | Some name =>
        if str_eqb content name then (mkTok TBlock content pos e line, None)
        else (mkTok TText raw pos e line, v)
    | None =>
        (mkTok TBlock content pos e line,
         if is_verbatim_start content then Some (kw_end ++ content) else None)
    end
  else
    match v with
    | Some _ => (mkTok TText raw pos e line, v)
    | None => (mkTok (if N.eqb k c_lbrace then TVar else TComment) content pos e line, None)
    end.

(* ---------- DebugLexer.tokenize ---------- *)
(* One token per non-empty piece of tag_re.split; pos / line are the running position and line number.
   fuel: one unit per token (every token consumes at least one character). *)
Fixpoint lex_go (fuel : nat) (dotall : bool) (v : option str) (s : str) (pos line : nat) : list tok :=
  match fuel with
  | O => []
  | S f =>
      match s with
      | [] => []
      | _ :: _ =>
          match tag_at dotall s with
          | Some len =>
              let raw := firstn len s in
              let '(t, v') := create_token v raw pos line in
              t :: lex_go f dotall v' (skipn len s) (pos + len) (line + count_nl raw)
          | None =>
              let len := text_run dotall s in
              let raw := firstn len s in
              mkTok TText raw pos (pos + len) line
                :: lex_go f dotall v (skipn len s) (pos + len) (line + count_nl raw)
          end
      end
  end.

(* DebugLexer(s) with lexer.verbatim = v; .tokenize() *)
Definition django_lex_v (dotall : bool) (v : option str) (s : str) : list tok :=
  lex_go (length s) dotall v s 0 1.
(* stock Django *)
Definition django_lex (dotall : bool) (s : str) : list tok := django_lex_v dotall None s.

(* ---------- _detailed_tag_parser ---------- *)
(* The scan after the opening brace-percent is a character automaton.  The implementation consumes runs
   with three regexes (not-quote-or-percent*, not-quote*, (backslash-any | not-q)* ) - run by run this is:
     MNormal      outside strings
     MPct         just read a '%' outside strings (the code peeks one character ahead)
     MToQuote     after a '%' that was not followed by '}': `take_until_any(QUOTE_CHARS)` - everything up
                  to the next quote character is content (INCLUDING any percent-brace)
     MQuote q     inside a q-quoted string
     MEsc q       just read a backslash inside a q-quoted string (backslash-any; before a newline the backslash
                  is matched by not-q and the newline by not-q - the same two characters are consumed)     *)
Inductive smode := MNormal | MPct | MToQuote | MQuote (q : N) | MEsc (q : N).
Inductive scan := Closed (n : nat) | EndIn (m : smode).

(* n = index (in the text passed to _detailed_tag_parser) of the character being read;
   Closed n: n = index just after the closing percent-brace *)
Fixpoint dfa_run (m : smode) (s : str) (n : nat) : scan :=
  match s with
  | [] => EndIn m
  | c :: r =>
      match m with
      | MNormal => if is_quote c then dfa_run (MQuote c) r (S n)
                   else if N.eqb c c_pct then dfa_run MPct r (S n)
                   else dfa_run MNormal r (S n)
      | MPct => if N.eqb c c_rbrace then Closed (S n)
                else if is_quote c then dfa_run (MQuote c) r (S n)
                else dfa_run MToQuote r (S n)
      | MToQuote => if is_quote c then dfa_run (MQuote c) r (S n) else dfa_run MToQuote r (S n)
      | MQuote q => if N.eqb c q then dfa_run MNormal r (S n)
                    else if N.eqb c c_bslash then dfa_run (MEsc q) r (S n)
                    else dfa_run (MQuote q) r (S n)
      | MEsc q => dfa_run (MQuote q) r (S n)
      end
  end.

Inductive perr :=
  | EUntermString (q : N)   (* Unexpected end of text - unterminated {q} string *)
  | EUntermTag.             (* Unexpected end of text - unterminated {% tag *)

Definition err_of_mode (m : smode) : perr :=
  match m with MQuote q | MEsc q => EUntermString q | _ => EUntermTag end.

(* text starts with brace-percent *)
Definition detailed (text : str) (lineno start_index : nat) : perr + tok :=
  match dfa_run MNormal (skipn 2 text) 2 with
  | Closed n => inr (mkTok TBlock (strip (slice text 2 (n - 2))) start_index (n + start_index) lineno)
  | EndIn m => inl (err_of_mode m)
  end.

(* ---------- parse_template ---------- *)
Inductive pres := POk (l : list tok) | PErr (e : perr) | POutOfFuel.

Definition shift_tok (dp dl : nat) (t : tok) : tok :=
  mkTok (ttype t) (tcontents t) (tstart t + dp) (tend t + dp) (tline t + dl).

(* token.token_type == BLOCK and (single quote in token.contents or double quote in token.contents) *)
Definition is_broken (t : tok) : bool :=
  match ttype t with TBlock => existsb is_quote (tcontents t) | _ => false end.

(* the `for token in tokens` loop: tokens appended before the break, and the broken one *)
Fixpoint split_broken (l : list tok) : list tok * option tok :=
  match l with
  | [] => ([], None)
  | t :: r => if is_broken t then ([], Some t)
              else let '(g, b) := split_broken r in (t :: g, b)
  end.

Definition next_verbatim (fixed : tok) : option str :=
  if is_verbatim_start (tcontents fixed) then Some (kw_end ++ tcontents fixed) else None.

(* one unit of fuel per iteration of `while index_start < index_end` *)
Fixpoint pt_go (fuel : nat) (dotall : bool) (s : str) (index_start lineno_offset : nat)
         (verbatim : option str) (acc : list tok) : pres :=
  match fuel with
  | O => POutOfFuel
  | S f =>
      if Nat.leb (length s) index_start then POk acc
      else
        let toks := map (shift_tok index_start lineno_offset)
                        (django_lex_v dotall verbatim (skipn index_start s)) in
        match split_broken toks with
        | (good, None) => POk (acc ++ good)
        | (good, Some b) =>
            match detailed (skipn (tstart b) s) (tline b) (tstart b) with
            | inl e => PErr e
            | inr fixed =>
                let index_start' := tend fixed in
                let off' := tline fixed - 1 + count_nl (slice s (tstart b) index_start') in
                pt_go f dotall s index_start' off' (next_verbatim fixed) (acc ++ good ++ [fixed])
            end
        end
  end.

Definition parse_template (dotall : bool) (s : str) : pres :=
  pt_go (S (length s)) dotall s 0 0 None [].

(* ---------- specification-level scan (what the property asks of a quoted tag) ---------- *)
(* the closing percent-brace is the first one outside quoted strings: the same automaton without MToQuote -
   a '%' that is not followed by '}' is ordinary content. *)
Inductive qmode := QNormal | QPct | QQuote (q : N) | QEsc (q : N).
Inductive qscan := QClosed (n : nat) | QEndIn (m : qmode).
Fixpoint spec_run (m : qmode) (s : str) (n : nat) : qscan :=
  match s with
  | [] => QEndIn m
  | c :: r =>
      match m with
      | QNormal => if is_quote c then spec_run (QQuote c) r (S n)
                   else if N.eqb c c_pct then spec_run QPct r (S n)
                   else spec_run QNormal r (S n)
      | QPct => if N.eqb c c_rbrace then QClosed (S n)
                else if is_quote c then spec_run (QQuote c) r (S n)
                else if N.eqb c c_pct then spec_run QPct r (S n)
                else spec_run QNormal r (S n)
      | QQuote q => if N.eqb c q then spec_run QNormal r (S n)
                    else if N.eqb c c_bslash then spec_run (QEsc q) r (S n)
                    else spec_run (QQuote q) r (S n)
      | QEsc q => spec_run (QQuote q) r (S n)
      end
  end.

Definition err_of_qmode (m : qmode) : perr :=
  match m with QQuote q | QEsc q => EUntermString q | _ => EUntermTag end.

Definition detailed_q (text : str) (lineno start_index : nat) : perr + tok :=
  match spec_run QNormal (skipn 2 text) 2 with
  | QClosed n => inr (mkTok TBlock (strip (slice text 2 (n - 2))) start_index (n + start_index) lineno)
  | QEndIn m => inl (err_of_qmode m)
  end.

(* S-model of parse_template: the same loop with the specification scan *)
Fixpoint pt_go_spec (fuel : nat) (dotall : bool) (s : str) (index_start lineno_offset : nat)
         (verbatim : option str) (acc : list tok) : pres :=
  match fuel with
  | O => POutOfFuel
  | S f =>
      if Nat.leb (length s) index_start then POk acc
      else
        let toks := map (shift_tok index_start lineno_offset)
                        (django_lex_v dotall verbatim (skipn index_start s)) in
        match split_broken toks with
        | (good, None) => POk (acc ++ good)
        | (good, Some b) =>
            match detailed_q (skipn (tstart b) s) (tline b) (tstart b) with
            | inl e => PErr e
            | inr fixed =>
                let index_start' := tend fixed in
                let off' := tline fixed - 1 + count_nl (slice s (tstart b) index_start') in
                pt_go_spec f dotall s index_start' off' (next_verbatim fixed) (acc ++ good ++ [fixed])
            end
        end
  end.
Definition parse_template_spec (dotall : bool) (s : str) : pres :=
  pt_go_spec (S (length s)) dotall s 0 0 None [].

(* The input class in which implementation and specification can differ (trigger c09-lone-percent): the scan of
   some re-parsed tag enters MToQuote, i.e. meets, outside strings, a percent sign followed by a character that
   is neither a closing brace nor a quote.  [enters_toquote] decides it for one scan, [lone_pct_free] for a
   whole source (it follows the loop of parse_template). *)
Fixpoint enters_toquote (m : smode) (s : str) : bool :=
  match s with
  | [] => false
  | c :: r =>
      match m with
      | MNormal => if is_quote c then enters_toquote (MQuote c) r
                   else if N.eqb c c_pct then enters_toquote MPct r
                   else enters_toquote MNormal r
      | MPct => if N.eqb c c_rbrace then false
                else if is_quote c then enters_toquote (MQuote c) r
                else true
      | MToQuote => true
      | MQuote q => if N.eqb c q then enters_toquote MNormal r
                    else if N.eqb c c_bslash then enters_toquote (MEsc q) r
                    else enters_toquote (MQuote q) r
      | MEsc q => enters_toquote (MQuote q) r
      end
  end.

Fixpoint lone_pct_free_go (fuel : nat) (dotall : bool) (s : str) (index_start lineno_offset : nat)
         (verbatim : option str) : bool :=
  match fuel with
  | O => true
  | S f =>
      if Nat.leb (length s) index_start then true
      else
        let toks := map (shift_tok index_start lineno_offset)
                        (django_lex_v dotall verbatim (skipn index_start s)) in
        match split_broken toks with
        | (_, None) => true
        | (_, Some b) =>
            negb (enters_toquote MNormal (skipn 2 (skipn (tstart b) s)))
            && match detailed (skipn (tstart b) s) (tline b) (tstart b) with
               | inl _ => true
               | inr fixed =>
                   lone_pct_free_go f dotall s (tend fixed)
                     (tline fixed - 1 + count_nl (slice s (tstart b) (tend fixed))) (next_verbatim fixed)
               end
        end
  end.
Definition lone_pct_free (dotall : bool) (s : str) : bool :=
  lone_pct_free_go (S (length s)) dotall s 0 0 None.

(* ---------- correspondence cases ---------- *)
Definition toktype_code (t : toktype) : N :=
  match t with TText => 0 | TVar => 1 | TBlock => 2 | TComment => 3 end%N.

(* observed token: (token_type.value, contents, position[0], position[1], lineno) *)
Notation otok := (N * str * N * N * N)%type (only parsing).
Definition tok_obs (t : tok) : otok :=
  (toktype_code (ttype t), tcontents t, N.of_nat (tstart t), N.of_nat (tend t), N.of_nat (tline t)).
Definition otok_eqb (a b : otok) : bool :=
  let '(ty, c, s, e, l) := a in
  let '(ty', c', s', e', l') := b in
  N.eqb ty ty' && str_eqb c c' && N.eqb s s' && N.eqb e e' && N.eqb l l'.

(* observed outcome of parse_template: tokens, or TemplateSyntaxError (1 = unterminated string with quote q,
   2 = unterminated tag) *)
Inductive obs := OToks (l : list otok) | OErrString (q : N) | OErrTag.
Definition pres_matches (r : pres) (o : obs) : bool :=
  match r, o with
  | POk l, OToks l' => list_eqb otok_eqb (map tok_obs l) l'
  | PErr (EUntermString q), OErrString q' => N.eqb q q'
  | PErr EUntermTag, OErrTag => true
  | _, _ => false
  end.

(* case = (re.DOTALL on tag_re?, source, observed parse_template, observed DebugLexer(source).tokenize()) *)
Notation lex_case := (bool * str * obs * list otok)%type (only parsing).
Definition check_lex (c : lex_case) : bool :=
  let '(d, s, o, stock) := c in
  pres_matches (parse_template d s) o
  && list_eqb otok_eqb (map tok_obs (django_lex d s)) stock.

(* case for the verbatim-carrying restart: DebugLexer(source) with lexer.verbatim preset *)
Notation lexv_case := (bool * option str * str * list otok)%type (only parsing).
Definition check_lexv (c : lexv_case) : bool :=
  let '(d, v, s, stock) := c in
  list_eqb otok_eqb (map tok_obs (django_lex_v d v s)) stock.

(* case for _detailed_tag_parser(text, lineno, start_index) called directly (text starts with "{%") *)
Notation det_case := (str * N * N * obs)%type (only parsing).
Definition check_det (c : det_case) : bool :=
  let '(text, ln, st, o) := c in
  match detailed text (N.to_nat ln) (N.to_nat st), o with
  | inr t, OToks [t'] => otok_eqb (tok_obs t) t'
  | inl (EUntermString q), OErrString q' => N.eqb q q'
  | inl EUntermTag, OErrTag => true
  | _, _ => false
  end.
