(* Model of the template lexing path of django-components (property C09; reused by C10a / C12).

     django.template.base.DebugLexer.tokenize + Lexer.create_token      -> [django_lex]
     django_components.util.template_parser._detailed_tag_parser        -> [detailed]
     django_components.util.template_parser.parse_template              -> [parse_template]

   Strings are lists of code points ([str] of Lib/Base.v), positions / lengths / line numbers are [nat].
   Definitions only - the proofs are in Lexer/{Wf,Scan,Restart,OnePass,Proofs}.v so the model still runs when a proof breaks.

   Django's [tag_re] is the pattern  ({%.*?%}|{{.*?}}|{#.*?#})  compiled with or without re.DOTALL
   (django_components.apps.ready() recompiles it with DOTALL when COMPONENTS.multiline_tags is on).
   It is modelled by the structural matcher [tag_at] (pattern anchored to the source's pattern string
   in Lexer/Wf.v, `tag_re_anchor`); the flag is the parameter [dotall] of every function.

   Reuse (C10a): [django_lex], [parse_template], and the theorems `eq_stock_when_no_quote`,
   `eq_stock_when_quotes_closed`, `eq_stock_when_stock_close_unquoted` of Lexer/Proofs.v (restated in Props/C09.v).

   The file has two parts: the M-model (transliteration of the three functions) and, at the end, the S-model:
   [qstate]/[qrun] ("inside a quoted string"), [find_uclose] (first percent-brace outside quoted strings) and
   [spec_go]/[spec_lex] (one-pass reference lexer).  Lexer/Proofs.v proves parse_template = spec_lex. *)
From Coq Require Import String.
From DJC Require Import Lib.Base.

(* ---------- characters ---------- *)
Definition c_lbrace : N := 123%N.   (* { *)
Definition c_rbrace : N := 125%N.   (* } *)
Definition c_pct    : N := 37%N.    (* % *)
Definition c_hash   : N := 35%N.    (* # *)
Definition c_dq     : N := 34%N.    (* double quote *)
Definition c_sq     : N := 39%N.    (* single quote *)
Definition c_bslash : N := 92%N.    (* \ *)
Definition c_nl     : N := 10%N.    (* \n *)

Definition is_quote (c : N) : bool := N.eqb c c_sq || N.eqb c c_dq.

(* Python's str.isspace for one code point (the set str.strip() removes); anchored to CPython by
   Gen/C09.v `py_space_chars` (see Wf.v, `py_isspace_anchor`). *)
Definition py_space_chars : list N :=
  [9; 10; 11; 12; 13; 28; 29; 30; 31; 32; 133; 160; 5760; 8192; 8193; 8194; 8195; 8196; 8197; 8198; 8199;
   8200; 8201; 8202; 8232; 8233; 8239; 8287; 12288]%N.
Definition py_isspace (c : N) : bool := existsb (N.eqb c) py_space_chars.

Fixpoint lstrip (s : str) : str :=
  match s with
  | [] => []
  | c :: r => if py_isspace c then lstrip r else s
  end.
Definition rstrip (s : str) : str := rev (lstrip (rev s)).
Definition strip (s : str) : str := rstrip (lstrip s).           (* str.strip() *)

Definition count_nl (s : str) : nat := N.to_nat (count_sym c_nl s).   (* s.count(newline) *)
Definition slice (s : str) (a b : nat) : str := firstn (b - a) (skipn a s).   (* s[a:b], a <= b <= len *)

(* ---------- tokens ---------- *)
Inductive toktype := TText | TVar | TBlock | TComment.   (* TokenType.TEXT=0 VAR=1 BLOCK=2 COMMENT=3 *)
Record tok := mkTok { ttype : toktype; tcontents : str; tstart : nat; tend : nat; tline : nat }.

(* ---------- tag_re ---------- *)
(* `.*?XY` after an opener: offset of the first "XY" such that (without DOTALL) no newline precedes it *)
Fixpoint find_close (dotall : bool) (c1 c2 : N) (s : str) : option nat :=
  match s with
  | [] => None
  | x :: r =>
      if N.eqb x c1 && match r with y :: _ => N.eqb y c2 | [] => false end then Some 0
      else if negb dotall && N.eqb x c_nl then None
      else option_map S (find_close dotall c1 c2 r)
  end.

(* closing pair of the alternative selected by the character after the brace *)
Definition closer_of (k : N) : option (N * N) :=
  if N.eqb k c_pct then Some (c_pct, c_rbrace)
  else if N.eqb k c_lbrace then Some (c_rbrace, c_rbrace)
  else if N.eqb k c_hash then Some (c_hash, c_rbrace)
  else None.

(* tag_re.match at the head of s: total length of the match *)
Definition tag_at (dotall : bool) (s : str) : option nat :=
  match s with
  | o :: k :: r =>
      if N.eqb o c_lbrace then
        match closer_of k with
        | Some (c1, c2) => option_map (fun j => S (S (S (S j)))) (find_close dotall c1 c2 r)
        | None => None
        end
      else None
  | _ => None
  end.

(* number of characters before the leftmost position where tag_re matches (len s if none) *)
Fixpoint text_run (dotall : bool) (s : str) : nat :=
  match s with
  | [] => 0
  | _ :: r => match tag_at dotall s with Some _ => 0 | None => S (text_run dotall r) end
  end.

(* ---------- Lexer.create_token (in_tag = True) ---------- *)
Definition kw_verbatim  : str := Eval compute in s2n "verbatim"%string.
Definition kw_verbatim_ : str := Eval compute in s2n "verbatim "%string.
Definition kw_end       : str := Eval compute in s2n "end"%string.

(* content[:9] in (verbatim, verbatim+space) *)
Definition is_verbatim_start (content : str) : bool :=
  let p := firstn 9 content in str_eqb p kw_verbatim || str_eqb p kw_verbatim_.

(* token_string[2:-2] for len >= 4 *)
Definition inner (raw : str) : str := firstn (length raw - 4) (skipn 2 raw).

(* verbatim state: None = False, Some name = the end... contents that closes the block *)
Definition create_token (v : option str) (raw : str) (pos line : nat) : tok * option str :=
  let e := pos + length raw in
  let content := strip (inner raw) in
  let k := nth 1 raw 0%N in                 (* token_string[0:2] is one of the three openers *)
  if N.eqb k c_pct then
    match v with
    | Some name =>
        if str_eqb content name then (mkTok TBlock content pos e line, None)
        else (mkTok TText raw pos e line, v)
    | None =>
        (mkTok TBlock content pos e line,
         if is_verbatim_start content then Some (kw_end ++ content) else None)
    end
  else
    match v with
    | Some _ => (mkTok TText raw pos e line, v)
    | None => (mkTok (if N.eqb k c_lbrace then TVar else TComment) content pos e line, None)
    end.

(* ---------- DebugLexer.tokenize ---------- *)
(* One token per non-empty piece of tag_re.split; pos / line are the running position and line number.
   fuel: one unit per token (every token consumes at least one character). *)
Fixpoint lex_go (fuel : nat) (dotall : bool) (v : option str) (s : str) (pos line : nat) : list tok :=
  match fuel with
  | O => []
  | S f =>
      match s with
      | [] => []
      | _ :: _ =>
          match tag_at dotall s with
          | Some len =>
              let raw := firstn len s in
              let '(t, v') := create_token v raw pos line in
              t :: lex_go f dotall v' (skipn len s) (pos + len) (line + count_nl raw)
          | None =>
              let len := text_run dotall s in
              let raw := firstn len s in
              mkTok TText raw pos (pos + len) line
                :: lex_go f dotall v (skipn len s) (pos + len) (line + count_nl raw)
          end
      end
  end.

(* DebugLexer(s) with lexer.verbatim = v; .tokenize() *)
Definition django_lex_v (dotall : bool) (v : option str) (s : str) : list tok :=
  lex_go (length s) dotall v s 0 1.
(* stock Django *)
Definition django_lex (dotall : bool) (s : str) : list tok := django_lex_v dotall None s.

(* ---------- _detailed_tag_parser ---------- *)
(* The scan after the opening brace-percent is a character automaton.  The implementation consumes runs with
   regexes (not-quote-or-percent*, (backslash-any | not-q)* ) and single characters - character by character:
     MNormal      outside strings
     MPct         just read a '%' outside strings (the code peeks one character ahead: a closing brace ends the
                  tag; otherwise the '%' is one character of content and the next character is read as in
                  MNormal - since fix fbbed58)
     MQuote q     inside a q-quoted string
     MEsc q       just read a backslash inside a q-quoted string (backslash-any; before a newline the backslash
                  is matched by not-q and the newline by not-q - the same two characters are consumed)     *)
Inductive smode := MNormal | MPct | MQuote (q : N) | MEsc (q : N).
Inductive scan := Closed (n : nat) | EndIn (m : smode).

(* n = index (in the text passed to _detailed_tag_parser) of the character being read;
   Closed n: n = index just after the closing percent-brace *)
Fixpoint dfa_run (m : smode) (s : str) (n : nat) : scan :=
  match s with
  | [] => EndIn m
  | c :: r =>
      match m with
      | MNormal => if is_quote c then dfa_run (MQuote c) r (S n)
                   else if N.eqb c c_pct then dfa_run MPct r (S n)
                   else dfa_run MNormal r (S n)
      | MPct => if N.eqb c c_rbrace then Closed (S n)
                else if is_quote c then dfa_run (MQuote c) r (S n)
                else if N.eqb c c_pct then dfa_run MPct r (S n)
                else dfa_run MNormal r (S n)
      | MQuote q => if N.eqb c q then dfa_run MNormal r (S n)
                    else if N.eqb c c_bslash then dfa_run (MEsc q) r (S n)
                    else dfa_run (MQuote q) r (S n)
      | MEsc q => dfa_run (MQuote q) r (S n)
      end
  end.

Inductive perr :=
  | EUntermString (q : N)   (* Unexpected end of text - unterminated {q} string *)
  | EUntermTag.             (* Unexpected end of text - unterminated {% tag *)

Definition err_of_mode (m : smode) : perr :=
  match m with MQuote q | MEsc q => EUntermString q | _ => EUntermTag end.

(* text starts with brace-percent *)
Definition detailed (text : str) (lineno start_index : nat) : perr + tok :=
  match dfa_run MNormal (skipn 2 text) 2 with
  | Closed n => inr (mkTok TBlock (strip (slice text 2 (n - 2))) start_index (n + start_index) lineno)
  | EndIn m => inl (err_of_mode m)
  end.

(* ---------- parse_template ---------- *)
Inductive pres := POk (l : list tok) | PErr (e : perr) | POutOfFuel.

Definition shift_tok (dp dl : nat) (t : tok) : tok :=
  mkTok (ttype t) (tcontents t) (tstart t + dp) (tend t + dp) (tline t + dl).

(* token.token_type == BLOCK and (single quote in token.contents or double quote in token.contents) *)
Definition is_broken (t : tok) : bool :=
  match ttype t with TBlock => existsb is_quote (tcontents t) | _ => false end.

(* the `for token in tokens` loop: tokens appended before the break, and the broken one *)
Fixpoint split_broken (l : list tok) : list tok * option tok :=
  match l with
  | [] => ([], None)
  | t :: r => if is_broken t then ([], Some t)
              else let '(g, b) := split_broken r in (t :: g, b)
  end.

Definition next_verbatim (fixed : tok) : option str :=
  if is_verbatim_start (tcontents fixed) then Some (kw_end ++ tcontents fixed) else None.

(* one unit of fuel per iteration of `while index_start < index_end` *)
Fixpoint pt_go (fuel : nat) (dotall : bool) (s : str) (index_start lineno_offset : nat)
         (verbatim : option str) (acc : list tok) : pres :=
  match fuel with
  | O => POutOfFuel
  | S f =>
      if Nat.leb (length s) index_start then POk acc
      else
        let toks := map (shift_tok index_start lineno_offset)
                        (django_lex_v dotall verbatim (skipn index_start s)) in
        match split_broken toks with
        | (good, None) => POk (acc ++ good)
        | (good, Some b) =>
            match detailed (skipn (tstart b) s) (tline b) (tstart b) with
            | inl e => PErr e
            | inr fixed =>
                let index_start' := tend fixed in
                let off' := tline fixed - 1 + count_nl (slice s (tstart b) index_start') in
                pt_go f dotall s index_start' off' (next_verbatim fixed) (acc ++ good ++ [fixed])
            end
        end
  end.

Definition parse_template (dotall : bool) (s : str) : pres :=
  pt_go (S (length s)) dotall s 0 0 None [].

(* ====================================================================================== *)
(* SPECIFICATION LEVEL (S-model): what the property asks, written without the mechanism     *)
(* ====================================================================================== *)
(* "inside / outside a quoted string" - a fold over the characters that does not look at percent signs or
   braces at all: a quote character opens a string, the same character closes it, a backslash inside a string
   protects the next character. *)
Inductive qstate := QOut | QIn (q : N) | QEsc (q : N).
Definition qstep (st : qstate) (c : N) : qstate :=
  match st with
  | QOut => if is_quote c then QIn c else QOut
  | QIn q => if N.eqb c q then QOut else if N.eqb c c_bslash then QEsc q else QIn q
  | QEsc q => QIn q
  end.
Definition qrun (st : qstate) (p : str) : qstate := fold_left qstep p st.
(* the state in which the character at index j of s is read *)
Definition qstate_at (s : str) (j : nat) : qstate := qrun QOut (firstn j s).
Definition is_qout (st : qstate) : bool := match st with QOut => true | _ => false end.

(* first index j with s[j..j+2) = percent-brace read outside quoted strings (st = state at index 0) *)
Fixpoint find_uclose (st : qstate) (s : str) : option nat :=
  match s with
  | [] => None
  | c :: r =>
      if is_qout st && N.eqb c c_pct && match r with y :: _ => N.eqb y c_rbrace | [] => false end then Some 0
      else option_map S (find_uclose (qstep st c) r)
  end.

Definition err_of_qstate (st : qstate) : perr :=
  match st with QIn q | QEsc q => EUntermString q | QOut => EUntermTag end.

(* One-pass reference lexer: stock Django's loop ([lex_go]) in which a block tag that stock would emit as a BLOCK
   token with a quote character in its contents ends at the first percent-brace outside its quoted strings
   instead of at the first percent-brace.  Everything else - text runs, variables, comments, the verbatim state
   machine of Lexer.create_token, positions, line numbers - is stock.  An unterminated string / tag is the error
   of the whole run. *)
Definition pcons (t : tok) (r : pres) : pres := match r with POk l => POk (t :: l) | e => e end.
Definition pprepend (l : list tok) (r : pres) : pres := match r with POk l' => POk (l ++ l') | e => e end.

(* Lexer.verbatim after a BLOCK token with the given contents, stock rule (create_token) *)
Definition verbatim_after_block (v : option str) (contents : str) : option str :=
  match v with
  | Some _ => None
  | None => if is_verbatim_start contents then Some (kw_end ++ contents) else None
  end.

Fixpoint spec_go (fuel : nat) (dotall : bool) (v : option str) (s : str) (pos line : nat) : pres :=
  match fuel with
  | O => POk []
  | S f =>
      match s with
      | [] => POk []
      | _ :: _ =>
          match tag_at dotall s with
          | Some len =>
              let raw := firstn len s in
              let '(t, v') := create_token v raw pos line in
              if is_broken t then
                match find_uclose QOut (skipn 2 s) with
                | Some j =>
                    let n := j + 4 in
                    let contents := strip (firstn j (skipn 2 s)) in
                    pcons (mkTok TBlock contents pos (pos + n) line)
                          (spec_go f dotall (verbatim_after_block v contents) (skipn n s) (pos + n)
                                   (line + count_nl (firstn n s)))
                | None => PErr (err_of_qstate (qrun QOut (skipn 2 s)))
                end
              else pcons t (spec_go f dotall v' (skipn len s) (pos + len) (line + count_nl raw))
          | None =>
              let len := text_run dotall s in
              let raw := firstn len s in
              pcons (mkTok TText raw pos (pos + len) line)
                    (spec_go f dotall v (skipn len s) (pos + len) (line + count_nl raw))
          end
      end
  end.
Definition spec_lex (dotall : bool) (s : str) : pres := spec_go (length s) dotall None s 0 1.

(* ---------- correspondence cases ---------- *)
Definition toktype_code (t : toktype) : N :=
  match t with TText => 0 | TVar => 1 | TBlock => 2 | TComment => 3 end%N.

(* observed token: (token_type.value, contents, position[0], position[1], lineno) *)
Notation otok := (N * str * N * N * N)%type (only parsing).
Definition tok_obs (t : tok) : otok :=
  (toktype_code (ttype t), tcontents t, N.of_nat (tstart t), N.of_nat (tend t), N.of_nat (tline t)).
Definition otok_eqb (a b : otok) : bool :=
  let '(ty, c, s, e, l) := a in
  let '(ty', c', s', e', l') := b in
  N.eqb ty ty' && str_eqb c c' && N.eqb s s' && N.eqb e e' && N.eqb l l'.

(* observed outcome of parse_template: tokens, or TemplateSyntaxError (1 = unterminated string with quote q,
   2 = unterminated tag) *)
Inductive obs := OToks (l : list otok) | OErrString (q : N) | OErrTag.
Definition pres_matches (r : pres) (o : obs) : bool :=
  match r, o with
  | POk l, OToks l' => list_eqb otok_eqb (map tok_obs l) l'
  | PErr (EUntermString q), OErrString q' => N.eqb q q'
  | PErr EUntermTag, OErrTag => true
  | _, _ => false
  end.

(* case = (re.DOTALL on tag_re?, source, observed parse_template, observed DebugLexer(source).tokenize()) *)
Notation lex_case := (bool * str * obs * list otok)%type (only parsing).
Definition check_lex (c : lex_case) : bool :=
  let '(d, s, o, stock) := c in
  pres_matches (parse_template d s) o
  && list_eqb otok_eqb (map tok_obs (django_lex d s)) stock.

(* case for the verbatim-carrying restart: DebugLexer(source) with lexer.verbatim preset *)
Notation lexv_case := (bool * option str * str * list otok)%type (only parsing).
Definition check_lexv (c : lexv_case) : bool :=
  let '(d, v, s, stock) := c in
  list_eqb otok_eqb (map tok_obs (django_lex_v d v s)) stock.

(* case for _detailed_tag_parser(text, lineno, start_index) called directly (text starts with "{%") *)
Notation det_case := (str * N * N * obs)%type (only parsing).
Definition check_det (c : det_case) : bool :=
  let '(text, ln, st, o) := c in
  match detailed text (N.to_nat ln) (N.to_nat st), o with
  | inr t, OToks [t'] => otok_eqb (tok_obs t) t'
  | inl (EUntermString q), OErrString q' => N.eqb q q'
  | inl EUntermTag, OErrTag => true
  | _, _ => false
  end.
