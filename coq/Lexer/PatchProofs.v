(* Proofs about Lexer/PatchModel.v: a class handed to monkeypatch_template_cls compiles from parse_template's token
   stream from then on, whatever the class hierarchy and whatever was patched before or after. *)
From DJC Require Import Lib.Base Lexer.Model Lexer.PatchModel Lexer.Proofs.

Lemma update_length {A} (f : A -> A) : forall l i, length (update i f l) = length l.
Proof. induction l as [|x l IH]; intros [|i]; cbn; try reflexivity. rewrite IH. reflexivity. Qed.

Lemma nth_error_update_same {A} (f : A -> A) : forall l i x, nth_error l i = Some x ->
  nth_error (update i f l) i = Some (f x).
Proof.
  induction l as [|y l IH]; intros [|i] x H; cbn in *; try discriminate.
  - inversion H. reflexivity.
  - apply IH. exact H.
Qed.

Lemma nth_error_update_other {A} (f : A -> A) : forall l i j, i <> j ->
  nth_error (update i f l) j = nth_error l j.
Proof.
  induction l as [|y l IH]; intros [|i] [|j] N; cbn; try reflexivity; try congruence.
  apply IH. congruence.
Qed.

Lemma step_length w e : length w <= length (step w e).
Proof. destruct e; cbn [step]; [rewrite app_length; lia|rewrite update_length; lia]. Qed.

Lemma run_length h : forall w, length w <= length (run h w).
Proof.
  induction h as [|e h IH]; intros w; cbn; [lia|]. etransitivity; [apply step_length|apply IH].
Qed.

(* the class carries its own patched compile_nodelist and its own flag *)
Definition own_patched (w : list cls) (c : nat) : Prop :=
  exists k, nth_error w c = Some k /\ ccompile k = Some RPatched /\ cflag k = true.

Lemma own_patched_step w e c : own_patched w c -> own_patched (step w e) c.
Proof.
  intros [k [Hn [Hc Hf]]]. destruct e as [p own|c']; cbn [step].
  - exists k. split; [|split; assumption]. rewrite nth_error_app1; [exact Hn|]. apply nth_error_Some. congruence.
  - destruct (Nat.eq_dec c' c) as [E|N].
    + subst c'. eexists. split; [apply nth_error_update_same; exact Hn|]. split; reflexivity.
    + exists k. split; [|split; assumption]. rewrite nth_error_update_other by exact N. exact Hn.
Qed.

Lemma own_patched_run h : forall w c, own_patched w c -> own_patched (run h w) c.
Proof. induction h as [|e h IH]; intros w c H; cbn; [exact H|]. apply IH. apply own_patched_step. exact H. Qed.

Lemma patch_makes_own_patched w c : c < length w -> own_patched (step w (EPatch c)) c.
Proof.
  intros L. destruct (nth_error w c) as [k|] eqn:E; [|apply nth_error_None in E; lia].
  cbn [step]. eexists. split; [apply nth_error_update_same; exact E|]. split; reflexivity.
Qed.

Lemma own_patched_after_patch : forall h w c, c < length w -> In (EPatch c) h -> own_patched (run h w) c.
Proof.
  induction h as [|e h IH]; intros w c L I; [destruct I|]. cbn [run fold_left]. destruct I as [E|I].
  - subst e. apply own_patched_run. apply patch_makes_own_patched. exact L.
  - apply IH; [|exact I]. pose proof (step_length w e). lia.
Qed.

Lemma own_patched_route w c : own_patched w c -> compile_route w c = RPatched /\ is_patched w c = true.
Proof.
  intros [k [Hn [Hc Hf]]]. assert (L : c < length w) by (apply nth_error_Some; congruence).
  unfold compile_route, is_patched. destruct (length w) as [|n]; [lia|]. cbn [mro_compile mro_flag].
  rewrite Hn, Hc, Hf. split; reflexivity.
Qed.

(* ---- 8a ---- *)
Lemma patched_class_compiles_from_parse_template : forall h w c, c < length w -> In (EPatch c) h ->
  compile_route (run h w) c = RPatched /\ is_patched (run h w) c = true /\
  forall d s, compile_stream (run h w) c d s = spec_lex d s.
Proof.
  intros h w c L I. destruct (own_patched_route _ _ (own_patched_after_patch h w c L I)) as [R F].
  split; [exact R|]. split; [exact F|]. intros d s. unfold compile_stream. rewrite R.
  apply parse_template_eq_spec.
Qed.

(* ---- 8b: patching is local: a class that is never handed to monkeypatch_template_cls keeps its own attributes ---- *)
Lemma never_patched_keeps_own : forall h w c k, nth_error w c = Some k -> ~ In (EPatch c) h ->
  nth_error (run h w) c = Some k.
Proof.
  induction h as [|e h IH]; intros w c k Hn N; [exact Hn|]. cbn [run fold_left]. apply IH.
  - destruct e as [p own|c']; cbn [step].
    + rewrite nth_error_app1; [exact Hn|]. apply nth_error_Some. congruence.
    + rewrite nth_error_update_other; [exact Hn|]. intros E. apply N. left. congruence.
  - intros I. apply N. right. exact I.
Qed.

(* ---- 8c: a class without its own compile_nodelist compiles like its parent ---- *)
Definition wf (w : list cls) : Prop :=
  forall i k p, nth_error w i = Some k -> cparent k = Some p -> p < i.

Lemma mro_compile_fuel w : wf w -> forall f1 f2 c, c < f1 -> c < f2 -> mro_compile f1 w c = mro_compile f2 w c.
Proof.
  intros W. induction f1 as [|f1 IH]; intros f2 c L1 L2; [lia|]. destruct f2 as [|f2]; [lia|].
  cbn [mro_compile]. destruct (nth_error w c) as [k|] eqn:E; [|reflexivity].
  destruct (ccompile k); [reflexivity|]. destruct (cparent k) as [p|] eqn:P; [|reflexivity].
  pose proof (W c k p E P). apply IH; lia.
Qed.

Lemma wf_step w e : wf w -> ev_ok w e = true -> wf (step w e).
Proof.
  intros W Ok i k p Hn Hp. destruct e as [q own|c]; cbn [step ev_ok] in *.
  - apply Nat.ltb_lt in Ok. destruct (Nat.lt_ge_cases i (length w)) as [L|G].
    + rewrite nth_error_app1 in Hn by exact L. exact (W i k p Hn Hp).
    + rewrite nth_error_app2 in Hn by exact G. destruct (i - length w) as [|j] eqn:Ej.
      * cbn in Hn. inversion Hn; subst k. cbn in Hp. inversion Hp; subst. lia.
      * cbn in Hn. destruct j; discriminate.
  - destruct (Nat.eq_dec c i) as [E|N].
    + subst c. destruct (nth_error w i) as [k0|] eqn:E0.
      * rewrite (nth_error_update_same _ _ _ _ E0) in Hn. inversion Hn; subst k. cbn in Hp. exact (W i k0 p E0 Hp).
      * apply nth_error_None in E0. assert (X : nth_error (update i (fun k1 => mkCls (cparent k1) (Some RPatched) true) w) i <> None) by congruence.
        apply nth_error_Some in X. rewrite update_length in X. lia.
    + rewrite nth_error_update_other in Hn by exact N. exact (W i k p Hn Hp).
Qed.

Lemma wf_run : forall h w, wf w -> hist_ok h w = true -> wf (run h w).
Proof.
  induction h as [|e h IH]; intros w W Ok; [exact W|]. cbn [hist_ok] in Ok. apply andb_true_iff in Ok as [O1 O2].
  cbn [run fold_left]. apply IH; [apply wf_step; assumption|exact O2].
Qed.

Lemma wf_world0 : wf world0.
Proof. intros [|[|i]] k p Hn Hp; cbn in Hn; try discriminate. inversion Hn; subst. discriminate. Qed.

Lemma inherits_parent_route : forall h c k p, hist_ok h world0 = true ->
  nth_error (run h world0) c = Some k -> ccompile k = None -> cparent k = Some p ->
  compile_route (run h world0) c = compile_route (run h world0) p.
Proof.
  intros h c k p Ok Hn Hc Hp. pose proof (wf_run h world0 wf_world0 Ok) as W.
  set (w := run h world0) in *. pose proof (W c k p Hn Hp) as Lp.
  assert (Lc : c < length w) by (apply nth_error_Some; congruence).
  unfold compile_route. destruct (length w) as [|n] eqn:En; [lia|].
  rewrite (mro_compile_fuel w W (S n) n p) by lia. cbn [mro_compile]. rewrite Hn, Hc, Hp. reflexivity.
Qed.
