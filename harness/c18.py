"""C18 - template caching is transparent and behaves as a bounded LRU.

Models: coq/LRU/Model.v (list level), coq/LRU/Heap.v (pointer level: heap of nodes, sentinels, dict)
Theorems: coq/Props/C18.v (proofs in LRU/Proofs.v, LRU/HeapProofs.v - `lru_refines`)
Correspondence: (1) LRUCache API on all op sequences up to a length bound x capacities, plus random long
ones, against the list-level model; (1h) the pointer structure of the real object after EVERY call ((key, value)
of the nodes walking `next` from head, keys walking `prev` from tail, which listed node each dict key maps to - by
position, independent of object identities; unreachable objects are not compared) against the heap model; (2) cached_template identity pattern over histories x cache sizes, incl. differently configured Engine
instances; (3) component renders over more inline templates than the cache holds.
Direct oracles: OrderedDict reference LRU step by step (which key leaves at each overflow) + recency order read
off through the public API (fresh insertions evict in LRU order); cached_template result renders like a fresh
compile with the SAME class / engine; component output == expected text.
"""
import collections
import itertools

import common as C
import c18_util as U
from common import cN, cZ, clist, copt

IMPORTS = "From DJC Require Import Lib.Base LRU.Model."
IMPORTS_H = "From DJC Require Import Lib.Base LRU.Model LRU.Heap."
UNIVERSE = list(range(8)) + [""]     # keys the generators draw from ("" is also the sentinels' key)


def op_term(o):
    if o[0] == "get":
        return "OGet %s" % cN(o[1])
    if o[0] == "has":
        return "OHas %s" % cN(o[1])
    if o[0] == "set":
        return "OSet %s %s" % (cN(o[1]), cN(o[2]))
    return "OClear"


def out_term(r):
    kind, v = r
    if kind == "val":
        return "RVal %s" % copt(v, cN)
    if kind == "bool":
        return "RBool %s" % C.cbool(v)
    if kind == "unit":
        return "RUnit"
    return "RErr"


def enc_key(k):
    """key of the heap-model cases: "" (the key the sentinel nodes carry) -> 0, int k -> k+1"""
    return 0 if k == "" else k + 1


class Snapshotter:
    """Reads the pointer structure of a real LRUCache, in a form that does not depend on object identities:
       fwd  = (key, value) of the nodes met walking `next` from head.next up to the tail sentinel,
       bwd  = keys of the nodes met walking `prev` from tail.prev up to the head sentinel,
       dict = for every key of `cache`: the position, in the forward walk, of the node object it maps to (None: not on the list)."""

    def __init__(self, c):
        self.c = c
        self.broken = None

    def snap(self):
        c = self.c
        try:
            bound = len(c.cache) + 3
            fwd_nodes, n = [], c.head.next
            while n is not None and n is not c.tail and len(fwd_nodes) <= bound:
                fwd_nodes.append(n)
                n = n.next
            bwd, n = [], c.tail.prev
            while n is not None and n is not c.head and len(bwd) <= bound:
                bwd.append(enc_key(n.key))
                n = n.prev
            pos = {id(x): i for i, x in reversed(list(enumerate(fwd_nodes)))}
            d = sorted((enc_key(k), pos.get(id(node))) for k, node in c.cache.items())
            return [(enc_key(x.key), x.value) for x in fwd_nodes], bwd, d
        except Exception as e:  # noqa  - the object is not the structure the heap model describes
            self.broken = "%s: %s" % (type(e).__name__, e)
            return [], [], []


def eviction_order(c, present, cap):
    """Recency order of `present` read off through the PUBLIC API only: insert fresh keys one at a time and record
    which of the original keys stop being cached.  Destroys the cache contents - call it last."""
    gone_steps, remaining = [], list(present)
    for j in range(max(cap, 0) + len(present) + 1):
        if not remaining:
            break
        try:
            c.set(("fresh", j), 0)
            gone = [k for k in remaining if not c.has(k)]
        except Exception as e:  # noqa
            gone_steps.append("raised %s" % type(e).__name__)
            break
        gone_steps.append(gone)
        remaining = [k for k in remaining if k not in gone]
    return gone_steps


def cached_keys(c, universe):
    try:
        return [k for k in universe if c.has(k)]
    except Exception as e:  # noqa
        return ["raised %s" % type(e).__name__]


def run_impl_lru(cap, ops, universe=UNIVERSE, probe=True):
    from django_components.util.cache import LRUCache
    c = LRUCache(maxsize=cap)
    sn = Snapshotter(c)
    outs, present, snaps = [], [], []
    hit = evict = False
    for o in ops:
        try:
            if o[0] == "get":
                r = c.get(o[1])
                hit = hit or r is not None
                outs.append(("val", r))
            elif o[0] == "has":
                outs.append(("bool", bool(c.has(o[1]))))
            elif o[0] == "set":
                n0, new = len(c.cache), o[1] not in c.cache
                c.set(o[1], o[2])
                if new and n0 > 0 and len(c.cache) == n0:
                    evict = True
                outs.append(("unit", None))
            else:
                c.clear()
                outs.append(("unit", None))
        except Exception as e:  # noqa
            outs.append(("err", type(e).__name__))
        present.append(cached_keys(c, universe))     # API only
        snaps.append(sn.snap())
    keys = cached_keys(c, universe)
    try:
        n = len(c.cache)
    except Exception:  # noqa
        n = -1
    order = eviction_order(c, keys, cap) if (probe and cap is not None) else None
    return {"outs": outs, "keys": keys, "n": n, "nontrivial": hit and evict, "present": present,
            "snaps": snaps, "order": order, "broken": sn.broken}


def ref_lru(cap, ops):
    """Independent reference (direct statement of the property): OrderedDict, least recently used first."""
    d = collections.OrderedDict()
    outs, present = [], []
    for o in ops:
        if o[0] == "get":
            if o[1] in d:
                d.move_to_end(o[1])
                outs.append(("val", d[o[1]]))
            else:
                outs.append(("val", None))
        elif o[0] == "has":
            outs.append(("bool", o[1] in d))
        elif o[0] == "set":
            if cap is not None and cap <= 0:
                pass
            else:
                if o[1] not in d and cap is not None and len(d) >= cap:
                    d.popitem(last=False)
                d[o[1]] = o[2]
                d.move_to_end(o[1])
            outs.append(("unit", None))
        else:
            d.clear()
            outs.append(("unit", None))
        present.append(sorted(d.keys(), key=UNIVERSE.index))
    lru_first = list(d.keys())
    # what inserting fresh keys must evict: nothing while there is room, then the entries least recently used first
    order = None
    if cap is not None:
        order = ([[]] * max(0, cap - len(d)) + [[k] for k in lru_first]) if lru_first else []
    return {"outs": outs, "keys": sorted(d.keys(), key=UNIVERSE.index), "n": len(d), "present": present,
            "order": order, "lru_first": lru_first}


def lru_oracle(chk, cap, ops, im, ref):
    """the property's own words on the implementation: bounded, LRU eviction, dictionary answers"""
    rep = {"kind": "lru", "maxsize": cap, "ops": ops}
    if (im["outs"], im["keys"], im["n"]) != (ref["outs"], ref["keys"], ref["n"]) or im["present"] != ref["present"]:
        step = next((i for i, (a, b) in enumerate(zip(im["present"], ref["present"])) if a != b), None)
        chk.fail("lru-api", "LRUCache differs from a bounded-LRU dictionary (results / which keys are cached after each call)",
                 dict(rep, first_differing_call=step, impl={"outs": im["outs"], "cached_after_each_call": im["present"], "len": im["n"]},
                      reference={"outs": ref["outs"], "cached_after_each_call": ref["present"], "len": ref["n"]}))
    elif im["order"] is not None and im["order"] != ref["order"]:
        chk.fail("lru-eviction-order", "after the calls, inserting fresh keys does not evict the cached keys least-recently-used first",
                 dict(rep, evicted_by_each_fresh_insert=im["order"], expected=ref["order"]))
    if cap is not None and any(len(p) > max(cap, 0) for p in im["present"] if not (p and str(p[0]).startswith("raised"))):
        chk.fail("lru-size", "more keys cached than maxsize", dict(rep, cached_after_each_call=im["present"]))


def enc_ops(ops):
    return [(o[0], enc_key(o[1])) + tuple(o[2:]) if o[0] != "clear" else o for o in ops]


def lru_case_term(cap, ops, outs, keys, n):
    return "(%s, %s, %s, %s, %s)" % (copt(cap, cZ), clist([op_term(o) for o in enc_ops(ops)]),
                                     clist([out_term(r) for r in outs]), clist([cN(k) for k in sorted(enc_key(k) for k in keys if not str(k).startswith("raised"))]), cN(max(n, 0)))


def heap_case_term(cap, ops, im):
    snaps = ["(%s, %s, %s)" % (clist(["(%s, %s)" % (cN(k), cN(v)) for k, v in f]), clist([cN(k) for k in b]),
                               clist(["(%s, %s)" % (cN(k), copt(p, cN)) for k, p in d])) for f, b, d in im["snaps"]]
    return "(%s, %s, %s, %s)" % (copt(cap, cZ), clist([op_term(o) for o in enc_ops(ops)]),
                                 clist([out_term(r) for r in im["outs"]]), clist(snaps))


def gen_lru_sequences(chk, maxlen, nkeys, caps, nrandom, randlen):
    alphabet = [("get", k) for k in range(nkeys)] + [("has", k) for k in range(nkeys)] + \
               [("set", k) for k in range(nkeys)] + [("clear",)]
    for L in range(0, maxlen + 1):
        for seq in itertools.product(alphabet, repeat=L):
            ops = [(o[0], o[1], 100 + i) if o[0] == "set" else o for i, o in enumerate(seq)]
            for cap in caps:
                yield cap, ops, "exh%d" % L
    rng = chk.rng
    alphabet_w = [("get", 3), ("has", 1), ("set", 4), ("clear", 0.3)]
    for _ in range(nrandom):
        cap = rng.choice([None, 0, 1, 2, 3, 4, 5, -1])
        nk = rng.choice([3, 4, 6, 8])
        empty_key = rng.random() < 0.25           # "" - the key the sentinel nodes carry - used as an ordinary key
        L = rng.randint(6, randlen)
        ops = []
        for i in range(L):
            kind = rng.choices([a for a, _ in alphabet_w], [w for _, w in alphabet_w])[0]
            key = "" if (empty_key and rng.random() < 0.2) else rng.randrange(nk)
            if kind == "clear":
                ops.append(("clear",))
            elif kind == "set":
                ops.append(("set", key, 100 + i))
            else:
                ops.append((kind, key))
        yield cap, ops, "random"


# ---------------------------------------------------------------------------------------------
def make_engines():
    """Two differently configured instances of the stock Engine class + the configured default engine object."""
    from django.template import Engine, engines
    return {"E1": Engine(string_if_invalid="<E1>"), "E2": Engine(string_if_invalid="<E2>"),
            "DEF": engines["django"].engine}


def engine_instance_class(hist, keys, i):
    """Input predicate of the finding 'cache key ignores the engine INSTANCE': call i passes an explicit engine and an earlier
    call since the last clear compiled the same source + template class with a DIFFERENT explicit engine object of the same class."""
    src, cls, eng = keys[hist[i][1]]
    if eng is None:
        return False
    for j in range(i - 1, -1, -1):
        if hist[j][0] == "clear":
            return False
        s2, c2, e2 = keys[hist[j][1]]
        if s2 == src and c2 is cls and e2 is not None and e2 is not eng and type(e2) is type(eng):
            return True
    return False


def run_impl_ct(cap, hist, keys):
    """hist: list of ('c', key_index) | ('clear',).  Returns identity pattern + oracle failures (call index, what)."""
    import django_components.cache as dc_cache
    from django.template import Context, Template
    from django_components.template import cached_template
    from django_components.util.cache import LRUCache
    import djsetup

    fails = []
    if cap is None:
        dc_cache.template_cache = LRUCache(maxsize=None)
        cm = djsetup.components_settings()
    else:
        dc_cache.template_cache = None  # lazily re-created from the settings
        cm = djsetup.components_settings(template_cache_size=cap)
    ids, alive, first_seen = [], [], {}
    with cm:
        for i, h in enumerate(hist):
            if h[0] == "clear":
                dc_cache.get_template_cache().clear()
                ids.append(None)
                continue
            src, cls, eng = keys[h[1]]
            try:
                t = cached_template(src, template_cls=cls, engine=eng)
            except Exception as e:  # noqa
                fails.append((i, {"call": i, "raised": "%s: %s" % (type(e).__name__, e)}))
                ids.append(None)
                continue
            alive.append(t)
            if id(t) not in first_seen:
                first_seen[id(t)] = i
            ids.append(first_seen[id(t)])
            # direct oracle: transparent - same source/class/engine, renders like a fresh compile with THAT engine
            fresh = (cls or Template)(src, engine=eng)
            ctx = {"x": "<v%d>" % i}
            got, exp = t.render(Context(ctx)), fresh.render(Context(ctx))
            if t.source != src or type(t) is not (cls or Template) or t.engine is not fresh.engine or got != exp:
                fails.append((i, {"call": i, "rendered": got, "fresh_compile_renders": exp,
                                  "same_engine_object": t.engine is fresh.engine, "same_class": type(t) is (cls or Template)}))
        n = len(dc_cache.get_template_cache().cache)
        if cap is not None and n > max(0, cap):
            fails.append((-1, {"cache_len": n, "configured": cap}))
    dc_cache.template_cache = None
    return ids, fails


def ct_report(chk, cap, hist, keys, key_names, fails):
    for i, info in fails:
        trig = "cached-template-engine-instance" if (i >= 0 and engine_instance_class(hist, keys, i)) else "cached-template-transparent"
        chk.fail(trig, "cached_template returned a template that is not what compiling afresh gives (other source / class / engine, or "
                       "different rendering) / cache over capacity",
                 {"kind": "ct", "size": cap, "history": hist, "keys": key_names, "failing_call": info})


def ct_case_term(cap, hist, ids):
    ops = ["TClear" if h[0] == "clear" else "TCompile %s" % cN(h[1]) for h in hist]
    return "(%s, %s, %s)" % (copt(cap, cZ), clist(ops), clist([copt(i, cN) for i in ids]))


def make_ct_keys():
    from django.template import Template

    class T2(Template):
        pass
    E = make_engines()
    srcs = ["A{{ x }}", "B{{ x }}", "C{% if x %}{{ x }}{% endif %}", "D{{ x }}|{{ missing }}"]
    keys = [(s, None, None) for s in srcs[:3]] + [(srcs[0], T2, None), (srcs[0], None, E["DEF"]), (srcs[1], T2, E["DEF"])]
    names = ["A", "B", "C", "A/T2", "A/default-engine-object", "B/T2/default-engine-object"]
    # the engine family: one source under the implicit default engine, the default engine object, and two other instances
    ekeys = [(srcs[3], None, None), (srcs[3], None, E["E1"]), (srcs[3], None, E["E2"]), (srcs[3], None, E["DEF"]),
             (srcs[3], T2, E["E1"]), (srcs[0], None, E["E2"])]
    enames = ["D", "D/E1", "D/E2", "D/default-engine-object", "D/T2/E1", "A/E2"]
    return keys, names, ekeys, enames


def component_render_oracle(chk, sizes, nseq):
    """Renders of components with inline templates under several cache sizes == expected output; in between, the same template
    strings are compiled through cached_template() for OTHER engines (must not leak into the components, nor the other way round)."""
    import re
    import django_components.cache as dc_cache
    from django.template import Context, Template
    from django_components import Component, registry
    from django_components.template import cached_template
    import djsetup
    rng = chk.rng
    E = make_engines()
    comps = []
    for i in range(6):
        cls = type("C18Comp%d" % i, (Component,), {
            "template": "<i>T%d:{{ x }}{%% if y %%}+{{ y }}{%% endif %%}{{ c18_missing }}</i>" % i,
            "get_context_data": lambda self, x=None, y=None: {"x": x, "y": y},
            "__module__": "verif_c18_%d" % i})
        registry.register("c18comp%d" % i, cls)
        comps.append(cls)
    try:
        for _ in range(nseq):
            seq = [(rng.randrange(6), rng.randrange(100), rng.choice([None, 7])) for _ in range(rng.randint(3, 12))]
            # positions at which the template string of component ci is compiled for engine E1/E2 first
            other = {j: rng.choice(["E1", "E2"]) for j in range(len(seq)) if rng.random() < 0.3}
            via_tag = [rng.random() < 0.5 for _ in seq]
            for size in sizes:
                dc_cache.template_cache = None
                with djsetup.components_settings(template_cache_size=size):
                    out, eng_fail = [], []
                    for j, (ci, x, y) in enumerate(seq):
                        if j in other:
                            try:
                                t = cached_template(comps[ci].template, engine=E[other[j]])
                                got = t.render(Context({"x": x, "y": y}))
                            except Exception as e:  # noqa
                                got = "raised %s" % type(e).__name__
                            exp = Template(comps[ci].template, engine=E[other[j]]).render(Context({"x": x, "y": y}))
                            if got != exp:
                                eng_fail.append({"position": j, "engine": other[j], "rendered": got, "fresh_compile_renders": exp})
                        try:
                            if not via_tag[j]:
                                out.append(comps[ci].render(kwargs={"x": x, "y": y}, render_dependencies=False))
                            else:
                                t = Template("{%% component 'c18comp%d' x=x y=y / %%}" % ci)
                                out.append(t.render(Context({"x": x, "y": y})))
                        except Exception as e:  # noqa
                            out.append("raised %s" % type(e).__name__)
                    try:
                        n = len(dc_cache.get_template_cache().cache)
                    except Exception:  # noqa
                        n = -1
                exp = ["T%d:%s%s" % (ci, x, "+%s" % y if y else "") for (ci, x, y) in seq]
                got = [re.sub(r"<!--.*?-->|<i[^>]*>|</i>", "", o) for o in out]
                chk.count(("render", tuple(seq), size, tuple(sorted(other.items()))), len(set(c for c, _, _ in seq)) > max(size, 0), kind="render")
                if got != exp or n > max(size, 0) or eng_fail:
                    chk.fail("render-under-cache", "component render under template_cache_size=%r differs from fresh compile" % size,
                             {"kind": "render", "seq": seq, "size": size, "got": got, "expected": exp, "cache_len": n,
                              "same_template_string_compiled_for_other_engine_before_position": other, "other_engine_failures": eng_fail})
    finally:
        for i in range(6):
            registry.unregister("c18comp%d" % i)
        dc_cache.template_cache = None


def same_path_classes_oracle(chk, sizes, nrandom):
    """Component classes produced by a class factory: DISTINCT classes with the SAME module + qualname (hence the same
    `_class_hash`, the same import path) and DIFFERENT static templates (inline `template`, and `template_file`).  Rendered in
    every order under several cache sizes: each render must equal a fresh compile of THAT class's template."""
    import re
    import django_components.cache as dc_cache
    from django.template import Context, Template
    from django_components import Component, registry
    import djsetup
    rng = chk.rng

    def make(label, tpl=None, tfile=None):
        attrs = {"get_context_data": lambda self, x=None: {"x": x}, "__module__": __name__}
        if tpl is not None:
            attrs["template"] = tpl
        else:
            attrs["template_file"] = tfile
        cls = type("C18Twin", (Component,), attrs)      # same name, module and qualname on every call
        cls.c18_label = label
        return cls
    twins = [make("Va", tpl="<i>Va:{{ x }}{{ c18_missing }}</i>"), make("Vb", tpl="<i>Vb:{{ x }}{{ c18_missing }}</i>"),
             make("Vc", tpl="<i>Vc:{{ x }}{% if x %}!{% endif %}</i>"),
             make("Fa", tfile="c18_twin_a.html"), make("Fb", tfile="c18_twin_b.html")]
    other = type("C18NotATwin", (Component,), {"template": "<i>O:{{ x }}</i>", "get_context_data": lambda self, x=None: {"x": x},
                                               "__module__": __name__})
    other.c18_label = "O"
    classes = twins + [other]
    names = ["c18twin%d" % i for i in range(len(classes))]
    for nm, cls in zip(names, classes):
        registry.register(nm, cls)

    def expected(ci, x):
        lab = classes[ci].c18_label
        return "%s:%s%s" % (lab, x, "!" if (lab == "Vc" and x) else "")
    seqs = []
    for L in range(1, 5):                               # every order of the three inline twins, up to 4 renders
        seqs.extend(list(q) for q in itertools.product(range(3), repeat=L))
    for L in range(1, 4):                               # the template_file twins with one inline twin
        seqs.extend(list(q) for q in itertools.product([0, 3, 4], repeat=L))
    for _ in range(nrandom):
        seqs.append([rng.randrange(len(classes)) for _ in range(rng.randint(2, 10))])
    try:
        for seq in seqs:
            xs = [rng.randrange(1, 100) for _ in seq]
            via_tag = [rng.random() < 0.3 for _ in seq]
            for size in sizes:
                dc_cache.template_cache = None
                with djsetup.components_settings(template_cache_size=size):
                    out = []
                    for ci, x, tag in zip(seq, xs, via_tag):
                        try:
                            if tag:
                                out.append(Template("{%% component '%s' x=x / %%}" % names[ci]).render(Context({"x": x})))
                            else:
                                out.append(classes[ci].render(kwargs={"x": x}, render_dependencies=False))
                        except Exception as e:  # noqa
                            out.append("raised %s" % type(e).__name__)
                    try:
                        n = len(dc_cache.get_template_cache().cache)
                    except Exception:  # noqa
                        n = -1
                got = [re.sub(r"<!--.*?-->|<i[^>]*>|</i>", "", o) for o in out]
                exp = [expected(ci, x) for ci, x in zip(seq, xs)]
                chk.count(("twins", tuple(seq), size), size > 0 and len(set(c for c in seq if c < len(twins))) >= 2, kind="render_same_path_classes")
                if got != exp or n > max(size, 0):
                    chk.fail("render-same-path-classes",
                             "components that are distinct classes with the same module + qualname but different static templates: render "
                             "under template_cache_size=%r differs from a fresh compile of that class's template" % size,
                             {"kind": "twins", "classes": [c.c18_label for c in classes], "seq": seq, "x": xs, "via_tag": via_tag, "size": size,
                              "got": got, "expected": exp, "cache_len": n})
    finally:
        for nm in names:
            registry.unregister(nm)
        dc_cache.template_cache = None


IMPORTS_R = "From DJC Require Import Lib.Base LRU.Model LRU.Render."


def _mut_append(v):
    v.append("Z")
    return v


def _mut_pop(v):
    v.pop()
    return v


def _mut_dict(v):
    v["cnt"] = v.get("cnt", 0) + 1
    v.setdefault("seen", []).append(len(v))
    return v


def _mut_nested(v):
    v["l"].append(9)
    v["k"] = v["k"] + "!"
    return v


def _fmt(v):
    if isinstance(v, dict):
        return "{" + ";".join("%s=%s" % (k, _fmt(v[k])) for k in sorted(v)) + "}"
    if isinstance(v, list):
        return "n=%d[" % len(v) + ",".join(_fmt(x) for x in v) + "]"
    return str(v)


MUTATORS = {"append": _mut_append, "pop": _mut_pop, "dict": _mut_dict, "nested": _mut_nested}
# (page source, [(mutating component, the Python value the argument text denotes - None: taken from the context variable)])
MUT_PAGES = [
    ('P0:{% component "c18m_append" v=["Home", "About"] / %}', [("append", ["Home", "About"])]),
    ('P1:{% component "c18m_append" v=["Docs", "Blog", "News"] / %}', [("append", ["Docs", "Blog", "News"])]),
    ('P2:{% component "c18m_pop" v=[1, 2, 3] / %}', [("pop", [1, 2, 3])]),
    ('P3:{% component "c18m_dict" v={"a": 1, "b": "x"} / %}', [("dict", {"a": 1, "b": "x"})]),
    ('P4:{% component "c18m_nested" v={"l": [1, 2], "k": "v"} / %}', [("nested", {"l": [1, 2], "k": "v"})]),
    ('P5:{% component "c18m_append" v=[1, x] / %}', [("append", [1, "X"])]),                 # a variable inside the literal
    ('P6:{% component "c18m_append" v=lst / %}', [("append", None)]),                       # no literal at all
    ('P7:{% component "c18m_append" v=[7] / %}|{% component "c18m_dict" v={"q": 2} / %}', [("append", [7]), ("dict", {"q": 2})]),
    ('P8:{% component "c18m_append" v=[] / %}', [("append", [])]),
]


def mutable_literal_oracle(chk, sizes, nrandom):
    """Transparency when the cached Template's tags carry list / dict LITERAL arguments and the receiving component mutates its
    input in place: every render - whatever was rendered before, whatever the cache size - must print what a fresh compile prints,
    i.e. the component applied to a NEW value of the literal.  Expected text is computed here from the literal's Python value."""
    import copy
    import re
    import django_components.cache as dc_cache
    from django.template import Context
    from django_components import Component, registry
    from django_components.template import cached_template
    import djsetup
    rng = chk.rng
    names = []
    for kind, fn in MUTATORS.items():
        cls = type("C18Mut_%s" % kind, (Component,), {
            "template": "<b>{{ text }}</b>",
            "get_context_data": (lambda f: lambda self, v=None: {"text": _fmt(f(v))})(fn),
            "__module__": "verif_c18_mut"})
        registry.register("c18m_" + kind, cls)
        names.append("c18m_" + kind)
    pages = []
    for i, (src, calls) in enumerate(MUT_PAGES):
        pages.append(type("C18MutPage%d" % i, (Component,), {"template": src, "__module__": "verif_c18_mut",
                                                             "get_context_data": lambda self, **kw: kw}))

    def expected(pi):
        src, calls = MUT_PAGES[pi]
        texts = [_fmt(MUTATORS[kind](copy.deepcopy(val) if val is not None else ["L"])) for kind, val in calls]
        return "P%d:" % pi + "|".join(texts)
    seqs = []
    for L in range(1, 5):
        seqs.extend((list(q), "component") for q in itertools.product([0, 1, 2], repeat=L))
    for L in range(1, 4):
        seqs.extend((list(q), "cached_template") for q in itertools.product([3, 4, 7], repeat=L))
        seqs.extend((list(q), "mixed") for q in itertools.product([0, 1, 8], repeat=L))
    for _ in range(nrandom):
        seqs.append(([rng.randrange(len(MUT_PAGES)) for _ in range(rng.randint(2, 10))], rng.choice(["component", "cached_template", "mixed"])))
    rr_terms, rr_cases = [], []
    try:
        for seq, mode in seqs:
            modes = [mode if mode != "mixed" else rng.choice(["component", "cached_template"]) for _ in seq]
            for size in sizes:
                dc_cache.template_cache = None
                with djsetup.components_settings(template_cache_size=size):
                    out = []
                    for pi, m in zip(seq, modes):
                        ctx = {"x": "X", "lst": ["L"]}
                        try:
                            if m == "component":
                                out.append(pages[pi].render(kwargs=ctx, render_dependencies=False))
                            else:
                                out.append(cached_template(MUT_PAGES[pi][0]).render(Context(ctx)))
                        except Exception as e:  # noqa
                            out.append("raised %s" % type(e).__name__)
                    try:
                        n = len(dc_cache.get_template_cache().cache)
                    except Exception:  # noqa
                        n = -1
                got = [re.sub(r"<!--.*?-->|<b[^>]*>|</b>", "", o) for o in out]
                exp = [expected(pi) for pi in seq]
                chk.count(("mutlit", tuple(seq), tuple(modes), size), size > 0 and len(set(seq)) < len(seq), kind="render_mutable_literal_args")
                if got != exp or n > max(size, 0):
                    chk.fail("render-mutable-literal-args",
                             "templates whose tags pass list / dict literals to components that mutate their input in place: a render under "
                             "template_cache_size=%r differs from compiling afresh (the literal must denote a new value on every render)" % size,
                             {"kind": "mutlit", "pages": [MUT_PAGES[pi][0] for pi in sorted(set(seq))], "seq": seq, "via": modes, "size": size,
                              "got": got, "expected": exp, "cache_len": n})
                # model of "render through the cache" (LRU/Render.v) for the pages that append to a literal list
                if all(pi in (0, 1, 8) for pi in seq):
                    obs = []
                    for g in got:
                        mm = re.search(r"n=(\d+)\[", g)
                        obs.append(int(mm.group(1)) if mm else 999)
                    bases = [2, 3, 0, 0, 0, 0, 0, 0, 0]
                    rr_terms.append("(%s, %s, %s, %s)" % (copt(size, cZ), clist([cN(b) for b in bases]),
                                                          clist(["RRender %s tt" % cN(pi) for pi in seq]), clist([copt(o, cN) for o in obs])))
                    rr_cases.append((size, seq, modes, got))
        bad = U.coq_eval_cases("C18", "rr", IMPORTS_R, "rr_case", "check_rr", rr_terms, shard=1500)
        for i in bad[:20]:
            chk.disagree("render-through-the-cache model (LRU/Render.v, immutable nodes) != implementation: number of items the component printed",
                         {"kind": "mutlit", "size": rr_cases[i][0], "seq": rr_cases[i][1], "via": rr_cases[i][2], "got": rr_cases[i][3]})
        chk.extra["render_model_cases"] = len(rr_terms)
    finally:
        for nm in names:
            registry.unregister(nm)
        dc_cache.template_cache = None


def run_corpus(chk):
    """Minimised witnesses (incl. defects already fixed in /repo) - direct oracles only."""
    import glob
    import json
    import os
    for path in sorted(glob.glob(os.path.join(C.VERIF, "corpus", "C18", "*.json"))):
        w = json.load(open(path))
        if w.get("kind") == "ct-engine":
            E = make_engines()
            keys = [(w["source"], None, None if c[0] == "default" else E[c[0]]) for c in w["calls"]]
            hist = [("c", i) for i in range(len(keys))]
            ids, fails = run_impl_ct(w["size"], hist, keys)
            chk.count(("corpus", os.path.basename(path)), True, kind="corpus")
            ct_report(chk, w["size"], hist, keys, [c[0] for c in w["calls"]], fails)
        elif w.get("kind") == "lru":
            ops = [tuple(o) for o in w["ops"]]
            chk.count(("corpus", os.path.basename(path)), True, kind="corpus")
            lru_oracle(chk, w["maxsize"], ops, run_impl_lru(w["maxsize"], ops), ref_lru(w["maxsize"], ops))


def run(tier, seed):
    import djsetup
    djsetup.setup()
    chk = C.Check("C18", tier, seed)
    chk.prove()
    thorough = tier == "thorough"
    caps = [None, 0, 1, 2, 3, -1]
    import time
    phases, t_last = {}, [time.time()]

    def phase(name):
        phases[name] = round(time.time() - t_last[0], 1)
        t_last[0] = time.time()
    chk.extra["phase_wall_s"] = phases
    # ---- 0. corpus (witnesses of fixed defects) through the direct oracles ----
    run_corpus(chk)
    # ---- 1. LRUCache API: direct oracle, list-level model, pointer-level model ----
    terms, hterms, cases = [], [], []
    for cap, ops, kind in gen_lru_sequences(chk, 5 if thorough else 4, 3, caps, 20000 if thorough else 2000, 60 if thorough else 40):
        im = run_impl_lru(cap, ops)
        chk.count((cap, tuple(ops)), im["nontrivial"], kind=kind,
                  sample={"maxsize": cap, "ops": ops, "outs": im["outs"], "list_head_to_tail_after_each_call": [f for f, _, _ in im["snaps"]]}
                  if (im["nontrivial"] and kind == "random") else None)
        lru_oracle(chk, cap, ops, im, ref_lru(cap, ops))
        terms.append(lru_case_term(cap, ops, im["outs"], im["keys"], im["n"]))
        hterms.append(heap_case_term(cap, ops, im))
        cases.append((cap, ops))
    phase("lru_impl")
    bad = U.coq_eval_cases("C18", "lru", IMPORTS, "lru_case", "check_lru", terms, shard=1500)
    for i in bad[:20]:
        chk.disagree("LRU model != LRUCache", {"kind": "lru", "maxsize": cases[i][0], "ops": cases[i][1]})
    phase("lru_coq")
    bad = U.coq_eval_cases("C18", "heap", IMPORTS_H, "heap_case", "check_heap", hterms, shard=1500)
    phase("heap_coq")
    for i in bad[:20]:
        cap, ops = cases[i]
        im = run_impl_lru(cap, ops, probe=False)
        chk.disagree("pointer-level model (LRU/Heap.v) != the real LRUCache object after some call: (key, value) of the nodes walking next from "
                     "head / keys walking prev from tail / which listed node each dict key maps to",
                     {"kind": "heap", "maxsize": cap, "ops": ops, "impl_snapshots_fwd_bwd_dict": im["snaps"],
                      "impl_structure_unreadable": im["broken"]})
    chk.extra["heap_cases"] = len(hterms)
    del terms, hterms, cases
    # ---- 2. cached_template ----
    keys, names, ekeys, enames = make_ct_keys()
    sizes = [None, 0, 1, 2, 3]
    terms, cases = [], []

    def ct_run(cap, hist, kk, nn, kind):
        ids, fails = run_impl_ct(cap, hist, kk)
        nontriv = len(set(i for i in ids if i is not None)) < len([i for i in ids if i is not None]) and \
            len(set(h[1] for h in hist if h[0] == "c")) > (cap if cap is not None else 99)
        chk.count(("ct", kind, cap, tuple(hist)), nontriv, kind=kind,
                  sample={"template_cache_size": cap, "history": hist, "keys": nn, "object_identity": ids} if nontriv and len(hist) > 8 else None)
        ct_report(chk, cap, hist, kk, nn, fails)
        terms.append(ct_case_term(cap, hist, ids))
        cases.append((cap, hist, ids, nn))

    hists = []
    alpha = [("c", k) for k in range(4)] + [("clear",)]
    for L in range(0, (6 if thorough else 5) + 1):
        for seq in itertools.product(alpha, repeat=L):
            hists.append(list(seq))
    for _ in range(3000 if thorough else 600):
        hists.append([("clear",) if chk.rng.random() < 0.08 else ("c", chk.rng.randrange(len(keys)))
                      for _ in range(chk.rng.randint(5, 30))])
    for hi, hist in enumerate(hists):
        for cap in (sizes if len(hist) <= 4 or hi % 3 == 0 else [sizes[hi % len(sizes)]]):
            ct_run(cap, hist, keys, names, "cached_template")
    # engine family: same source under the implicit default engine / the default engine object / two other Engine instances,
    # every order (exhaustive), then random histories over all six keys
    ehists = []
    for L in range(0, (5 if thorough else 4) + 1):
        for seq in itertools.product(alpha, repeat=L):
            ehists.append(list(seq))
    for _ in range(1500 if thorough else 300):
        ehists.append([("clear",) if chk.rng.random() < 0.08 else ("c", chk.rng.randrange(len(ekeys)))
                       for _ in range(chk.rng.randint(4, 20))])
    for hi, hist in enumerate(ehists):
        for cap in (sizes if len(hist) <= 3 or hi % 3 == 0 else [sizes[hi % len(sizes)]]):
            ct_run(cap, hist, ekeys, enames, "cached_template_engines")
    phase("ct_impl")
    bad = U.coq_eval_cases("C18", "ct", IMPORTS, "ct_case", "check_ct", terms, shard=1500)
    phase("ct_coq")
    for i in bad[:20]:
        chk.disagree("cached_template model != implementation (object identity pattern; the model's key is injective in "
                     "(template class, source, engine instance))",
                     {"kind": "ct", "size": cases[i][0], "history": cases[i][1], "impl_identity": cases[i][2], "keys": cases[i][3]})
    # ---- 3. component renders ----
    component_render_oracle(chk, [0, 1, 2, 128], 300 if thorough else 60)
    same_path_classes_oracle(chk, [0, 1, 2, 128], 400 if thorough else 100)
    mutable_literal_oracle(chk, [0, 1, 2, 3, 128], 600 if thorough else 150)
    phase("render")
    chk.assumptions = [
        "Template(...) is deterministic in (class, source, engine) apart from object identity (Django)",
        "keys are compared with Python == / hash on the key tuples; the model uses injective N codes (a distinct code per "
        "(template class, source, engine instance))",
        "user keys of LRUCache are hashable values with a lawful ==; the sentinels' key \"\" may also be a user key (it is, in some runs)",
        "single-threaded use (concurrency belongs to C07)",
    ]
    return chk.finish(
        rule="LRU: every get/has/set/clear sequence up to length %d over 3 keys x maxsize in {None,0,1,2,3,-1} (exhaustive) + seeded random "
             "sequences up to length %d over up to 8 keys (+ the key \"\"), each run against the list-level model AND - pointer structure after "
             "every call: nodes forwards, backwards, dict -> node by position - against the heap model; cached_template: every compile/clear history up to length %d "
             "over 4 keys (+random over 6 keys incl. same source under another Template class / engine) and every history up to length %d over "
             "{implicit default engine, default engine object, Engine instance E1, Engine instance E2} x one source (+random) x sizes "
             "{None,0,1,2,3}; component renders over 6 inline templates x sizes {0,1,2,128} with the same template strings compiled for other "
             "engines in between; distinct component classes with the SAME module + qualname and different static templates (inline and "
             "template_file) in every order up to 4 renders (+random) x the same sizes; pages whose tags pass list / dict LITERALS to components that mutate their input in place, every order "
             "up to 4 renders (+random, via components and via cached_template) x sizes {0,1,2,3,128}, expected text computed from the literal. Non-trivial = at least one hit and one eviction (LRU), identity reuse with more keys than capacity "
             "(cached_template), more distinct templates than the cache holds (render). Distinct = distinct (config, sequence)."
             % (5 if thorough else 4, 60 if thorough else 40, 6 if thorough else 5, 5 if thorough else 4),
        explanation="20 theorems of Props/C18.v re-checked by coqc (10 about the list-level model, 9 about the pointer-level model incl. the "
                    "refinement `lru_refines`, 1 about rendering through the cache); both models evaluated by vm_compute inside Coq on every generated case and compared with the "
                    "observed LRUCache / cached_template behaviour and with the real object's pointer structure; independent OrderedDict "
                    "reference (step by step), recency order read through the public API, and fresh-compile render comparison act as direct "
                    "property oracles.",
        extra_trusted=["the reader of the real object's pointer structure (harness/c18.py Snapshotter)",
                       "modelled, not verified: Django Template compilation; CPython object/dict semantics behind the heap model's ids and association lists"])


def replay(path):
    import json
    import djsetup
    djsetup.setup()
    r = json.load(open(path))
    case = r.get("case", {})
    print(json.dumps(r, indent=1)[:4000])
    kind = case.get("kind")
    if kind in ("lru", "heap"):
        ops = [tuple(o) for o in case["ops"]]
        im, ref = run_impl_lru(case["maxsize"], ops), ref_lru(case["maxsize"], ops)
        print("ops:", ops, "maxsize:", case["maxsize"])
        print("impl: outs", im["outs"], "cached after each call", im["present"], "evicted by fresh inserts", im["order"])
        print("ref:  outs", ref["outs"], "cached after each call", ref["present"], "evicted by fresh inserts", ref["order"])
        print("impl pointer structure after each call (fwd (key+1, value), bwd key+1, dict key+1 -> position in fwd):", im["snaps"])
        bad = U.coq_eval_cases("C18", "replay", IMPORTS_H, "heap_case", "check_heap", [heap_case_term(case["maxsize"], ops, im)])
        print("heap model agrees with the real object:", not bad)
        return 1 if (bad or (im["outs"], im["present"], im["order"]) != (ref["outs"], ref["present"], ref["order"])) else 0
    if kind == "mutlit":
        chk = C.Check("C18", "quick", 0)
        mutable_literal_oracle(chk, [case["size"]], 0)
        bad = [f[2] for f in chk.failures]
        print("mutable literal arguments, exhaustive orders under size %r: %d failing sequences; first: %s" % (case["size"], len(bad), bad[:1]))
        return 1 if bad else 0
    if kind == "twins":
        chk = C.Check("C18", "quick", 0)
        same_path_classes_oracle(chk, [case["size"]], 0)
        bad = [f[2] for f in chk.failures]
        print("same-path classes, exhaustive orders under size %r: %d failing sequences; first: %s" % (case["size"], len(bad), bad[:1]))
        return 1 if bad else 0
    if kind == "ct":
        keys, names, ekeys, enames = make_ct_keys()
        kk = ekeys if case.get("keys") == enames else keys
        hist = [tuple(h) for h in case["history"]]
        ids, fails = run_impl_ct(case["size"], hist, kk)
        print("identity pattern:", ids)
        print("oracle failures:", fails)
        return 1 if fails else 0
    return 0
