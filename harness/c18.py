"""C18 - template caching is transparent and behaves as a bounded LRU.

Model: coq/LRU/Model.v   Theorems: coq/Props/C18.v
Correspondence: (1) LRUCache API on all op sequences up to a length bound x capacities, plus random long
ones; (2) cached_template identity pattern over histories x cache sizes; (3) component renders over more
inline templates than the cache holds (direct oracle: output == fresh compile).
"""
import collections
import itertools

import common as C
from common import cN, cZ, clist, copt

IMPORTS = "From DJC Require Import Lib.Base LRU.Model."


def op_term(o):
    if o[0] == "get":
        return "OGet %s" % cN(o[1])
    if o[0] == "has":
        return "OHas %s" % cN(o[1])
    if o[0] == "set":
        return "OSet %s %s" % (cN(o[1]), cN(o[2]))
    return "OClear"


def out_term(r):
    kind, v = r
    if kind == "val":
        return "RVal %s" % copt(v, cN)
    if kind == "bool":
        return "RBool %s" % C.cbool(v)
    if kind == "unit":
        return "RUnit"
    return "RErr"


def run_impl_lru(cap, ops):
    from django_components.util.cache import LRUCache
    c = LRUCache(maxsize=cap)
    outs = []
    hit = evict = False
    for o in ops:
        try:
            if o[0] == "get":
                r = c.get(o[1])
                hit = hit or r is not None
                outs.append(("val", r))
            elif o[0] == "has":
                outs.append(("bool", bool(c.has(o[1]))))
            elif o[0] == "set":
                n0, new = len(c.cache), o[1] not in c.cache
                c.set(o[1], o[2])
                if new and n0 > 0 and len(c.cache) == n0:
                    evict = True
                outs.append(("unit", None))
            else:
                c.clear()
                outs.append(("unit", None))
        except Exception as e:  # noqa
            outs.append(("err", type(e).__name__))
    keys = sorted(k for k in range(8) if c.has(k))
    return outs, keys, len(c.cache), hit and evict


def ref_lru(cap, ops):
    """Independent reference (direct statement of the property): OrderedDict LRU."""
    d = collections.OrderedDict()
    outs = []
    for o in ops:
        if o[0] == "get":
            if o[1] in d:
                d.move_to_end(o[1])
                outs.append(("val", d[o[1]]))
            else:
                outs.append(("val", None))
        elif o[0] == "has":
            outs.append(("bool", o[1] in d))
        elif o[0] == "set":
            if cap is not None and cap <= 0:
                pass
            else:
                if o[1] not in d and cap is not None and len(d) >= cap:
                    d.popitem(last=False)
                d[o[1]] = o[2]
                d.move_to_end(o[1])
            outs.append(("unit", None))
        else:
            d.clear()
            outs.append(("unit", None))
    return outs, sorted(d.keys()), len(d)


def lru_case_term(cap, ops, outs, keys, n):
    return "(%s, %s, %s, %s, %s)" % (copt(cap, cZ), clist([op_term(o) for o in ops]),
                                     clist([out_term(r) for r in outs]), clist([cN(k) for k in keys]), cN(n))


def gen_lru_sequences(chk, maxlen, nkeys, caps, nrandom, randlen):
    alphabet = [("get", k) for k in range(nkeys)] + [("has", k) for k in range(nkeys)] + \
               [("set", k) for k in range(nkeys)] + [("clear",)]
    for L in range(0, maxlen + 1):
        for seq in itertools.product(alphabet, repeat=L):
            ops = [(o[0], o[1], 100 + i) if o[0] == "set" else o for i, o in enumerate(seq)]
            for cap in caps:
                yield cap, ops, "exh%d" % L
    rng = chk.rng
    alphabet_w = [("get", 3), ("has", 1), ("set", 4), ("clear", 0.3)]
    for _ in range(nrandom):
        cap = rng.choice([None, 0, 1, 2, 3, 4, 5, -1])
        nk = rng.choice([3, 4, 6, 8])
        L = rng.randint(6, randlen)
        ops = []
        for i in range(L):
            kind = rng.choices([a for a, _ in alphabet_w], [w for _, w in alphabet_w])[0]
            if kind == "clear":
                ops.append(("clear",))
            elif kind == "set":
                ops.append(("set", rng.randrange(nk), 100 + i))
            else:
                ops.append((kind, rng.randrange(nk)))
        yield cap, ops, "random"


# ---------------------------------------------------------------------------------------------
def run_impl_ct(cap, hist, keys):
    """hist: list of ('c', key_index) | ('clear',).  Returns identity pattern + oracle failures."""
    import django_components.cache as dc_cache
    from django.template import Context, Template
    from django_components.template import cached_template
    from django_components.util.cache import LRUCache
    import djsetup

    fails = []
    if cap is None:
        dc_cache.template_cache = LRUCache(maxsize=None)
        cm = djsetup.components_settings()
    else:
        dc_cache.template_cache = None  # lazily re-created from the settings
        cm = djsetup.components_settings(template_cache_size=cap)
    ids, alive, first_seen = [], [], {}
    with cm:
        for i, h in enumerate(hist):
            if h[0] == "clear":
                dc_cache.get_template_cache().clear()
                ids.append(None)
                continue
            src, cls, eng = keys[h[1]]
            t = cached_template(src, template_cls=cls, engine=eng)
            alive.append(t)
            if id(t) not in first_seen:
                first_seen[id(t)] = i
            ids.append(first_seen[id(t)])
            # direct oracle: transparent - same source/class/engine, renders like a fresh compile
            fresh = (cls or Template)(src, engine=eng)
            ctx = {"x": "<v%d>" % i}
            if t.source != src or type(t) is not (cls or Template) or (eng is not None and t.engine is not eng) \
                    or t.render(Context(ctx)) != fresh.render(Context(ctx)):
                fails.append(i)
        n = len(dc_cache.get_template_cache().cache)
        if cap is not None and n > max(0, cap):
            fails.append(-1)
    dc_cache.template_cache = None
    return ids, fails


def ct_case_term(cap, hist, ids):
    ops = ["TClear" if h[0] == "clear" else "TCompile %s" % cN(h[1]) for h in hist]
    return "(%s, %s, %s)" % (copt(cap, cZ), clist(ops), clist([copt(i, cN) for i in ids]))


def component_render_oracle(chk, sizes, nseq):
    """Renders of components with inline templates under several cache sizes == expected output."""
    import django_components.cache as dc_cache
    from django.template import Context, Template
    from django_components import Component, registry
    import djsetup
    rng = chk.rng
    comps = []
    for i in range(6):
        cls = type("C18Comp%d" % i, (Component,), {
            "template": "<i>T%d:{{ x }}{%% if y %%}+{{ y }}{%% endif %%}</i>" % i,
            "get_context_data": lambda self, x=None, y=None: {"x": x, "y": y},
            "__module__": "verif_c18_%d" % i})
        registry.register("c18comp%d" % i, cls)
        comps.append(cls)
    try:
        for _ in range(nseq):
            seq = [(rng.randrange(6), rng.randrange(100), rng.choice([None, 7])) for _ in range(rng.randint(3, 12))]
            outs = {}
            for size in sizes:
                dc_cache.template_cache = None
                with djsetup.components_settings(template_cache_size=size):
                    out = []
                    for (ci, x, y) in seq:
                        if rng.random() < 0.5:
                            out.append(comps[ci].render(kwargs={"x": x, "y": y}, render_dependencies=False))
                        else:
                            t = Template("{%% component 'c18comp%d' x=x y=y / %%}" % ci)
                            out.append(t.render(Context({"x": x, "y": y})))
                    n = len(dc_cache.get_template_cache().cache)
                outs[size] = out
                exp = ["T%d:%s%s" % (ci, x, "+%s" % y if y else "") for (ci, x, y) in seq]
                import re
                got = [re.sub(r"<!--.*?-->|<i[^>]*>|</i>", "", o) for o in out]
                chk.count(("render", tuple(seq), size), len(set(c for c, _, _ in seq)) > max(size, 0), kind="render")
                if got != exp or n > max(size, 0):
                    chk.fail("render-under-cache", "component render under template_cache_size=%r differs from fresh compile" % size,
                             {"kind": "render", "seq": seq, "size": size, "got": got, "expected": exp, "cache_len": n})
    finally:
        for i in range(6):
            registry.unregister("c18comp%d" % i)
        dc_cache.template_cache = None


def run(tier, seed):
    import djsetup
    djsetup.setup()
    chk = C.Check("C18", tier, seed)
    chk.prove()
    thorough = tier == "thorough"
    caps = [None, 0, 1, 2, 3, -1]
    # ---- 1. LRUCache API ----
    terms, cases = [], []
    for cap, ops, kind in gen_lru_sequences(chk, 5 if thorough else 4, 3, caps, 20000 if thorough else 2000, 60 if thorough else 40):
        outs, keys, n, nontriv = run_impl_lru(cap, ops)
        chk.count((cap, tuple(ops)), nontriv, kind=kind,
                  sample={"maxsize": cap, "ops": ops, "outs": outs} if (nontriv and kind == "random") else None)
        ref = ref_lru(cap, ops)
        if (outs, keys, n) != ref:
            chk.fail("lru-api", "LRUCache differs from a bounded-LRU dictionary",
                     {"kind": "lru", "maxsize": cap, "ops": ops, "impl": [outs, keys, n], "reference": list(ref)})
        terms.append(lru_case_term(cap, ops, outs, keys, n))
        cases.append((cap, ops))
    bad = C.coq_eval_cases("C18", "lru", IMPORTS, "lru_case", "check_lru", terms, shard=3000)
    for i in bad[:20]:
        chk.disagree("LRU model != LRUCache", {"kind": "lru", "maxsize": cases[i][0], "ops": cases[i][1]})
    # ---- 2. cached_template ----
    from django.template import Template, engines

    class T2(Template):
        pass
    eng = engines["django"].engine
    srcs = ["A{{ x }}", "B{{ x }}", "C{% if x %}{{ x }}{% endif %}"]
    keys = [(s, None, None) for s in srcs] + [(srcs[0], T2, None), (srcs[0], None, eng), (srcs[1], T2, eng)]
    terms, cases = [], []
    hists = []
    alpha = [("c", k) for k in range(4)] + [("clear",)]
    for L in range(0, (6 if thorough else 5) + 1):
        for seq in itertools.product(alpha, repeat=L):
            hists.append(list(seq))
    for _ in range(3000 if thorough else 600):
        hists.append([("clear",) if chk.rng.random() < 0.08 else ("c", chk.rng.randrange(len(keys)))
                      for _ in range(chk.rng.randint(5, 30))])
    sizes = [None, 0, 1, 2, 3]
    for hi, hist in enumerate(hists):
        for cap in (sizes if len(hist) <= 4 or hi % 3 == 0 else [sizes[hi % len(sizes)]]):
            ids, fails = run_impl_ct(cap, hist, keys)
            nontriv = len(set(i for i in ids if i is not None)) < len([i for i in ids if i is not None]) and \
                len(set(h[1] for h in hist if h[0] == "c")) > (cap if cap is not None else 99)
            chk.count(("ct", cap, tuple(hist)), nontriv, kind="cached_template",
                      sample={"template_cache_size": cap, "history": hist, "object_identity": ids} if nontriv and len(hist) > 8 else None)
            if fails:
                chk.fail("cached-template-transparent", "cached_template returned a template that is not the requested one / cache over capacity",
                         {"kind": "ct", "size": cap, "history": hist, "failing_calls": fails})
            terms.append(ct_case_term(cap, hist, ids))
            cases.append((cap, hist, ids))
    bad = C.coq_eval_cases("C18", "ct", IMPORTS, "ct_case", "check_ct", terms, shard=3000)
    for i in bad[:20]:
        chk.disagree("cached_template model != implementation (object identity pattern)",
                     {"kind": "ct", "size": cases[i][0], "history": cases[i][1], "impl_identity": cases[i][2]})
    # ---- 3. component renders ----
    component_render_oracle(chk, [0, 1, 2, 128], 300 if thorough else 60)
    chk.assumptions = [
        "Template(...) is deterministic in (class, source, engine) apart from object identity (Django)",
        "keys are compared with Python == / hash on (str, str, Optional[str]) tuples; the model uses injective N codes",
        "single-threaded use (concurrency belongs to C07)",
    ]
    return chk.finish(
        rule="LRU: every get/has/set/clear sequence up to length %d over 3 keys x maxsize in {None,0,1,2,3,-1} (exhaustive) + seeded random "
             "sequences up to length %d over up to 8 keys; cached_template: every compile/clear history up to length %d over 4 keys "
             "(+random over 6 keys incl. same source under another Template class / engine) x sizes {None,0,1,2,3}; component renders over 6 inline "
             "templates x sizes {0,1,2,128}. Non-trivial = at least one hit and one eviction (LRU), identity reuse with more keys than "
             "capacity (cached_template), more distinct templates than the cache holds (render). Distinct = distinct (config, sequence)."
             % (5 if thorough else 4, 60 if thorough else 40, 6 if thorough else 5),
        explanation="10 theorems of Props/C18.v re-checked by coqc; model evaluated by vm_compute inside Coq on every generated case and "
                    "compared with the observed LRUCache / cached_template behaviour; independent OrderedDict reference and fresh-compile "
                    "render comparison act as direct property oracle.",
        extra_trusted=["modelled, not verified: the doubly-linked-list representation inside LRUCache (the model keeps the entry list it represents); Django Template compilation"])


def replay(path):
    import json
    import djsetup
    djsetup.setup()
    r = json.load(open(path))
    case = r.get("case", {})
    print(json.dumps(r, indent=1)[:3000])
    if case.get("kind") == "lru":
        ops = [tuple(o) for o in case["ops"]]
        print("impl:", run_impl_lru(case["maxsize"], ops)[:3])
        print("ref: ", ref_lru(case["maxsize"], ops))
    return 0
