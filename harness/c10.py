"""C10 - stock templating is preserved: unchanged alone, composes with components.

Model: coq/Stock/Model.v (+ coq/Lexer/Model.v of C09)   Theorems: coq/Props/C10.v
Correspondence (all implementation runs happen in worker processes, harness/c10_util.py, because django_components
patches django.template.base.Template and tag_re process-wide):
 (a) stock templates: generated families (extends / include / block / block.super / for / if / with / filter /
     autoescape / firstof / cycle / custom tags, quotes in tag arguments, error templates) over generated contexts,
     engine.debug on and off, COMPONENTS.multiline_tags on and off:
       patched Template  vs  the ORIGINAL compile_nodelist/render saved before apps.ready()  vs  a process in which
       django_components is never imported  -  tokens, output of two renders with the same Context, exception type /
       message / template_debug, Context.dicts, render_context layers.
     The lexer model (parse_template, DebugLexer, the premise `balanced quotes`) is evaluated inside Coq on the same sources.
 (b1) block resolution: abstract families (Stock/Model.v node type) rendered by Django as a family and as the flattened
     template; model outputs and the model's flattening compared inside Coq.
 (b2) component programs (harness/genprog.py, both context behaviours): page and/or component templates split into
     base + child (+ include) families vs the original (= hand-flattened) program, on the implementation.
"""
import concurrent.futures
import glob
import json
import os
import subprocess
import sys

import common as C
import c10_util as U
import genprog as G

IMPORTS = "From DJC Require Import Lib.Base Lexer.Model Stock.Model."
UTIL = os.path.join(os.path.dirname(os.path.abspath(__file__)), "c10_util.py")
WORKDIR = os.path.join(C.WORK, "C10")
TRIGGER_SHARED = "c10-blockcontext-shared"
TRIGGER_LAYER = "c10-block-in-slot-default"


# ---------------------------------------------------------------------------------------------
# workers
# ---------------------------------------------------------------------------------------------
def run_workers(jobs):
    """jobs: list of (tag, mode, spec) -> {tag: result}.  One subprocess each, NCPU at a time."""
    os.makedirs(WORKDIR, exist_ok=True)

    def one(job):
        tag, mode, spec = job
        base = "%s_p%d" % (tag, os.getpid())   # pid-tagged: two concurrent C10 runs must not share worker files
        inp, outp = os.path.join(WORKDIR, base + ".in.json"), os.path.join(WORKDIR, base + ".out.json")
        with open(inp, "w") as f:
            json.dump(spec, f)
        p = subprocess.run([sys.executable, UTIL, mode, inp, outp], stdout=subprocess.PIPE, stderr=subprocess.STDOUT, text=True,
                           timeout=3000)
        if p.returncode != 0:
            raise C.HarnessError("worker %s (%s) failed:\n%s" % (tag, mode, p.stdout[-3000:]))
        res = json.load(open(outp))
        os.remove(inp)
        os.remove(outp)
        return tag, res
    out = {}
    with concurrent.futures.ThreadPoolExecutor(max_workers=C.NCPU) as ex:
        for tag, res in ex.map(one, jobs):
            out[tag] = res
    return out


def shards(cases, n):
    k = max(1, (len(cases) + n - 1) // n)
    return [cases[i:i + k] for i in range(0, len(cases), k)]


# ---------------------------------------------------------------------------------------------
# (a) stock templates
# ---------------------------------------------------------------------------------------------
CORPUS_A = [
    # hand-written families: the shapes the statement lists, and the corner where the patched lexer differs on purpose
    {"templates": {"c10/base.html": "<h1>{% block title %}T{% endblock %}</h1>{% block body %}B{{ x }}{% endblock %}",
                   "c10/mid.html": '{% extends "c10/base.html" %}{% block body %}[{{ block.super }}|{% block inner %}i{% endblock %}]{% endblock %}',
                   "c10/leaf.html": "{% extends 'c10/mid.html' %}{% block inner %}{% for i in items %}{{ forloop.counter }}{{ i }}{% endfor %}"
                                    '{% include "c10/inc.html" with w1="a b" only %}{% endblock %}{% block title %}{{ block.super }}!{% endblock %}',
                   "c10/inc.html": "{% if w1 == 'a b' %}yes{{ x }}{% else %}no{% endif %}"},
     "main": "c10/leaf.html", "ctx": {"x": "<x>", "items": ["p", "q"]}, "features": ["family", "include", "quoted-arg"]},
    {"templates": {"c10/a.html": '{% with a="50%" b=\'%\' %}{{ a }}{{ b }}{% endwith %}{% firstof none "x % y" %}{% if x == "%}" %}1{% endif %}'},
     "main": "c10/a.html", "ctx": {"x": "%}", "none": None}, "features": ["quoted-arg", "unpremised-quote"]},
    {"templates": {"c10/a.html": "line1\n{% if x %}\n{% nosuch 'q' %}\n{% endif %}"}, "main": "c10/a.html", "ctx": {"x": 1},
     "features": ["error", "quoted-arg"]},
    {"templates": {"c10/a.html": '{% extends "c10/b.html" %}{% block c %}{% include "c10/c.html" %}{% endblock %}',
                   "c10/b.html": "{% block c %}{% endblock %}{% block d %}D{% endblock %}",
                   "c10/c.html": '{% extends "c10/b.html" %}{% block d %}inner-{{ block.super }}{% endblock %}'},
     "main": "c10/a.html", "ctx": {}, "features": ["family", "include"]},
]


def gen_stock_cases(chk, n):
    rng = chk.rng
    cases = []
    for c in CORPUS_A:
        cases.append(dict(c, kind="corpus"))
    for i in range(n):
        c = rng.random()
        g = U.StockGen(rng, multiline=(i % 3 == 0), errors=(0.0 if c < 0.6 else 0.04 if c < 0.85 else 0.0),
                       unpremised=(0.08 if c >= 0.85 else 0.0))
        case = g.case()
        case["kind"] = "clean" if c < 0.6 else "errors" if c < 0.85 else "unpremised"
        cases.append(case)
    for i, c in enumerate(cases):
        c["id"] = i
    return cases


def case_premise(case, lexobs):
    """every BLOCK token of the stock stream (of every template of the case) has balanced quotes"""
    for name in case["templates"]:
        for ty, contents, _ln, _pos in lexobs[name]["debug_lexer"]:
            if ty == 2 and ("'" in contents or '"' in contents) and not U.balanced(contents):
                return False
    return True


def has_quoted_tag(lexobs):
    return any(ty == 2 and ("'" in c or '"' in c) for ent in lexobs.values() for ty, c, _l, _p in ent["debug_lexer"])


def first_diff(a, b):
    if not isinstance(a, dict) or not isinstance(b, dict):
        return ("value", a, b)
    for k in sorted(set(a) | set(b)):
        if a.get(k) != b.get(k):
            return (k, a.get(k), b.get(k))
    return None


def otok_term(t):
    ty, contents, lineno, pos = t
    return "(%s, %s, %s, %s, %s)" % (C.cN(ty), C.cstr(contents), C.cN(pos[0]), C.cN(pos[1]), C.cN(lineno))


def pt_obs_term(o):
    if isinstance(o, list):
        return "OToks %s" % C.clist([otok_term(t) for t in o])
    msg = o.get("msg", "")
    pre = "Unexpected end of text - unterminated "
    if o.get("type") == "TemplateSyntaxError" and msg.startswith(pre):
        rest = msg[len(pre):]
        if rest == "{% tag":
            return "OErrTag"
        if rest.endswith(" string") and len(rest) == len(" string") + 1:
            return "OErrString %s" % C.cN(ord(rest[0]))
    return None


def part_a(chk, thorough):
    cases = gen_stock_cases(chk, 6000 if thorough else 1200)
    nsh = 4
    jobs = []
    for d in (True, False):
        for si, sh in enumerate(shards(cases, nsh)):
            jobs.append(("a-patched-%d-%d" % (d, si), "stock-patched", {"dotall": d, "cases": sh}))
            jobs.append(("a-pure-%d-%d" % (d, si), "stock-pure", {"dotall": d, "cases": sh}))
    res = run_workers(jobs)
    stats = {"outside_premise": 0, "outside_premise_differs": 0, "multiline_changes_output": 0, "compile_errors": 0, "render_errors": 0}
    lex_terms, lex_info, seen_src = [], [], set()
    for d in (True, False):
        pat, pure = [], []
        for si in range(len(shards(cases, nsh))):
            rp, rs = res["a-patched-%d-%d" % (d, si)], res["a-pure-%d-%d" % (d, si)]
            info = rp["info"]
            if not (info["compile_patched"] and info["render_patched"]) or info["tag_re_dotall"] != d or rs["info"]["tag_re_dotall"] != d:
                chk.extra.setdefault("patch_state", []).append({"dotall": d, "patched": info, "pure": rs["info"]})
            pat += rp["obs"]
            pure += rs["obs"]
        for case, op, os_ in zip(cases, pat, pure):
            assert op["id"] == case["id"] == os_["id"]
            prem = case_premise(case, os_["tokens"])
            quoted = has_quoted_tag(os_["tokens"])
            fam = ("family" in case["features"]) or ("include" in case["features"])
            nontriv = prem and quoted and fam
            chk.count(("a", d, case["id"], json.dumps(case["templates"], sort_keys=True)), nontriv,
                      kind="a:%s:%s" % (case["kind"], "dotall" if d else "nodotall"),
                      sample={"part": "a", "multiline_tags": d, "main": case["main"], "templates": case["templates"],
                              "patched_nodebug_render": op["patched-nodebug"].get("render1")} if nontriv and case["id"] % 97 == 5 and len(chk.samples) < 2 else None)
            replay = {"part": "a", "multiline_tags": d, "case": {k: case[k] for k in ("templates", "main", "ctx")}}
            # tokens
            for name, src in case["templates"].items():
                ent_p, ent_s = op["tokens"][name], os_["tokens"][name]
                if ent_p["debug_lexer"] != ent_s["debug_lexer"]:
                    chk.disagree("DebugLexer differs between the patched process and the process without django_components (same tag_re flags)",
                                 dict(replay, template=name))
                tok_same = ent_p["parse_template"] == ent_s["debug_lexer"]
                if prem and not tok_same:
                    chk.fail("stock-tokens-changed", "balanced quotes, yet parse_template differs from stock DebugLexer",
                             dict(replay, template=name, parse_template=ent_p["parse_template"], stock=ent_s["debug_lexer"]))
                if (d, src) not in seen_src and len(src) <= 600 and len(lex_terms) < (6000 if thorough else 1500):
                    seen_src.add((d, src))
                    o = pt_obs_term(ent_p["parse_template"])
                    tprem = all(U.balanced(c) for ty, c, _l, _p in ent_s["debug_lexer"] if ty == 2 and ("'" in c or '"' in c))
                    if o is None:
                        chk.disagree("parse_template raised an exception the model does not have", dict(replay, template=name, exc=ent_p["parse_template"]))
                    else:
                        lex_terms.append("(%s, %s, %s, %s, %s)" % (C.cbool(d), C.cstr(src), o,
                                                               C.clist([otok_term(t) for t in ent_s["debug_lexer"]]), C.cbool(tprem)))
                        lex_info.append(dict(replay, template=name))
            # compile / render / errors / context state
            differs = False
            for dbg in ("nodebug", "debug"):
                a, b, c = op["patched-" + dbg], op["stock-" + dbg], os_["stock-" + dbg]
                if a["compile"] != "ok":
                    stats["compile_errors"] += 1
                elif isinstance(a.get("render1"), dict):
                    stats["render_errors"] += 1
                if b != c:
                    chk.disagree("saved original Template methods behave differently from a process without django_components",
                                 dict(replay, debug=dbg, diff=first_diff(b, c)))
                if a != b or a != c:
                    differs = True
                    if prem:
                        chk.fail("stock-render-changed", "stock template behaves differently under the patched Template (engine.debug=%s)" % (dbg == "debug"),
                                 dict(replay, debug=dbg, diff_patched_vs_original=first_diff(a, b), diff_patched_vs_pure=first_diff(a, c)))
            if not prem:
                stats["outside_premise"] += 1
                stats["outside_premise_differs"] += 1 if differs else 0
        if d:
            dot_obs = pat
        else:
            for case, x, y in zip(cases, dot_obs, pat):
                if x["patched-nodebug"] != y["patched-nodebug"]:
                    stats["multiline_changes_output"] += 1
    bad = C.coq_eval_cases("C10", "slex", IMPORTS, "bool * str * obs * list otok * bool", "check_stock_lex", lex_terms, shard=150)
    for i in bad[:10]:
        chk.disagree("lexer model (parse_template / DebugLexer / balanced-quotes premise) != implementation", lex_info[i])
    stats["lexer_sources_evaluated_in_coq"] = len(lex_terms)
    chk.extra["part_a"] = stats
    return stats


# ---------------------------------------------------------------------------------------------
# (b1) abstract families: Django's block resolution vs the model
# ---------------------------------------------------------------------------------------------
G1_CORPUS = [
    {"chain": [[("block", 0, [("leaf", 5), ("super",), ("block", 1, [("leaf", 6)])])],
               [("block", 0, [("super",), ("leaf", 4)]), ("block", 1, [("leaf", 7)])]],
     "root": [("leaf", 0), ("wrap", 2, [("block", 0, [("leaf", 1)])]), ("block", 2, [("leaf", 3), ("super",)])]},
    {"chain": [[("block", 0, [("super",), ("super",)])], [("block", 0, [("leaf", 1), ("super",)])]], "root": [("block", 0, [("leaf", 0)])]},
    {"chain": [[("wrap", 3, [("block", 1, [("leaf", 2)])])]], "root": [("block", 0, [("block", 1, [("leaf", 0)]), ("super",)])]},
]


def part_b1(chk, thorough):
    rng = chk.rng
    exh = U.g1_exhaustive(thorough)
    fams = list(G1_CORPUS) + exh + [U.g1_family(rng) for _ in range(4000 if thorough else 700)]
    cases = []
    for i, fam in enumerate(fams):
        tpls, leaf = U.g1_templates(fam, "c10/g%d" % i)
        flat = U.g1_flatten(fam)
        tpls["c10/g%d_flat.html" % i] = U.g1_src(flat)
        cases.append({"id": i, "templates": tpls, "main": leaf, "also": ["c10/g%d_flat.html" % i], "features": [],
                      "ctx": {"r%d" % k: list(range(k)) for k in range(4)}})
    nsh = C.NCPU if thorough else 6
    res = run_workers([("b1-%d" % si, "stock-patched", {"dotall": True, "cases": sh}) for si, sh in enumerate(shards(cases, nsh))])
    obs = []
    for si in range(len(shards(cases, nsh))):
        obs += res["b1-%d" % si]["obs"]
    terms, infos = [], []
    texts = C.clist([C.cstr(t) for t in U.G1_TEXTS])
    for fam, case, o in zip(fams, cases, obs):
        flat = U.g1_flatten(fam)
        fam_out = o["patched-nodebug"].get("render1")
        flat_out = o["patched-nodebug"].get("also", {}).get(case["also"][0])
        stock_out = o["stock-nodebug"].get("render1")
        nblocks = sum(len(U.g1_blocks_of(t)) for t in fam["chain"] + [fam["root"]])
        nontriv = bool(fam["chain"]) and "{{ block.super }}" in "".join(case["templates"].values()) and nblocks >= 3
        chk.count(("b1", json.dumps(fam)), nontriv, kind="b1:%s:levels=%d" % ("exhaustive" if 0 < case["id"] - len(G1_CORPUS) + 1 <= len(exh) else "random", 1 + len(fam["chain"])),
                  sample={"part": "b1", "templates": case["templates"], "family_output": fam_out, "flattened_output": flat_out}
                  if nontriv and case["id"] % 150 == 7 and len(chk.samples) < 4 else None)
        replay = {"part": "b1", "family": fam, "templates": case["templates"], "family_output": fam_out, "flattened_output": flat_out}
        if not isinstance(fam_out, str) or not isinstance(flat_out, str):
            chk.disagree("abstract family did not render", replay)
            continue
        if fam_out != flat_out or fam_out != stock_out:
            chk.fail("stock-family-not-flattened", "a stock template family renders differently from its hand-flattened template", replay)
        terms.append("(%s, %s, %s, %s, %s)" % (texts, U.c_family(fam), C.cstr(fam_out), U.c_fnodes(flat), C.cstr(flat_out)))
        infos.append(replay)
    bad = C.coq_eval_cases("C10", "blk", IMPORTS, "list str * family * str * list fnode * str", "check_blk", terms, shard=250)
    for i in bad[:10]:
        chk.disagree("block model (render_family / flatten / render_f) != Django on an abstract family", infos[i])
    chk.extra["part_b1"] = {"families": len(fams), "exhaustive": len(exh)}


# ---------------------------------------------------------------------------------------------
# (b2) component programs
# ---------------------------------------------------------------------------------------------
def load_corpus_b():
    out = []
    for p in sorted(glob.glob(os.path.join(C.VERIF, "corpus", "C10", "*.json"))):
        d = json.load(open(p))
        if d.get("part") == "b2":
            d["corpus_file"] = os.path.basename(p)
            out.append(d)
    return out


def gen_family_programs(chk, n):
    rng = chk.rng
    out = []
    tries = 0
    while len(out) < n and tries < 20 * n:
        tries += 1
        mode = "django" if tries % 2 else "isolated"
        g = G.Gen(rng, mode, ncomp=rng.choice([1, 2, 2, 3]), collide=rng.choice([0.0, 0.3]), provide=rng.choice([0.0, 0.0, 0.3]),
                  errors=rng.choice([0.0, 0.0, 0.05]), depth=rng.choice([2, 3]))
        prog = g.program()
        regime = rng.choice(["any", "any", "page-only", "page-only", "comps-shallow", "comps-shallow", "shared-names", "shared-names",
                             "include-reuse", "include-reuse"])
        collide = regime in ("shared-names", "include-reuse")
        targets = ["page"] + [c for c, _ in prog["lib"]]
        if regime == "page-only":
            which, knobs = {"page"}, {}
        elif regime == "comps-shallow":
            which = {t for t in targets[1:] if rng.random() < 0.7} or {targets[1]}
            if rng.random() < 0.5:
                which.add("page")
            knobs = {"skip_slot_bodies": True, "p_include": 0.0}
        elif regime == "include-reuse":
            # the page is a family that includes partials; every included template draws its block names from the same small
            # pool as the page family (stock {% include %} isolates them); components stay plain, so nothing is in a known class
            which, knobs = {"page"}, {"p_include": rng.choice([0.3, 0.5]), "inc_own_namespace": True}
        else:
            which, knobs = None, {}
        fp = U.make_family_program(rng, prog, "u%d" % tries, collide=collide, which=which, knobs=knobs)
        fp["regime"] = regime
        if not fp["stats"]:
            continue
        flat = U.flatten_family_program(fp)
        if U.norm(flat["page"]) != U.norm(prog["page"]) or any(U.norm(a[1]["tpl"]) != U.norm(b[1]["tpl"]) for a, b in zip(flat["lib"], prog["lib"])):
            raise C.HarnessError("harness bug: flattening the generated family does not give back the program")
        out.append({"fp": fp, "flat": {k: prog[k] for k in ("lib", "page", "ctx", "mode")},
                    "page_named": rng.random() < 0.5, "leaf_named": rng.random() < 0.3, "features": sorted(G.features(prog))})
    return out


def part_b2(chk, thorough):
    cases = []
    for c in load_corpus_b():
        c["fp"]["regime"] = "corpus"
        cases.append({"fp": c["fp"], "flat": c["flat"], "page_named": c.get("page_named", False),
                      "leaf_named": c.get("leaf_named", False), "features": [], "corpus_file": c["corpus_file"],
                      "recorded": c.get("recorded_family_output")})
    cases += gen_family_programs(chk, 12000 if thorough else 2000)
    for i, c in enumerate(cases):
        c["id"] = i
    jobs = [("b2-%d" % si, "comp", {"cases": [{k: c[k] for k in ("id", "fp", "flat", "page_named", "leaf_named")} for c in sh]})
            for si, sh in enumerate(shards(cases, C.NCPU))]
    res = run_workers(jobs)
    obs = {}
    for r in res.values():
        for o in r["obs"]:
            obs[o["id"]] = o
    stats = {"programs": len(cases), "in_trigger_class": 0, "known_reproduced": 0, "errors_equal": 0}
    flat_terms, flat_infos = [], []
    second = []      # programs failing inside a known class: re-run with the component families flattened
    for c in cases:
        o = obs[c["id"]]
        fp = U.norm(c["fp"])
        trig = U.shares_block_context(fp)
        trig2 = U.slot_layer_class(fp)
        fam_out, flat_out = tuple(o["family"]), tuple(o["flat"])
        st = set(fp["stats"])
        nontriv = bool(st & {"block-override", "block-three", "block-super-pre", "block-super-post", "block-super-mid", "block-skip"}) \
            and "comp-nested" in c["features"] and any(f[1]["chain"] for f in fp["lib"]) and flat_out[0] == "ok"
        chk.count(("b2", json.dumps(fp, sort_keys=True)), nontriv,
                  kind="b2:%s:%s%s%s" % (fp["mode"], fp.get("regime", "corpus"), ":shared-bc-class" if trig else "", ":slot-layer-class" if trig2 else ""),
                  sample={"part": "b2", "mode": fp["mode"], "page_family": U.fam_templates(fp["page"], "page")[0] or U.fam_templates(fp["page"], "page")[2],
                          "output": flat_out} if nontriv and c["id"] % 211 == 3 else None)
        if {"other:Timeout", "other:RecursionError"} & {fam_out[1], flat_out[1]}:
            stats["nonterminating_skipped"] = stats.get("nonterminating_skipped", 0) + 1
            continue
        if flat_out[0] == "err" and fam_out == flat_out:
            stats["errors_equal"] += 1
        if c.get("corpus_file"):
            stats.setdefault("corpus", {})[c["corpus_file"]] = "equal" if fam_out == flat_out else "differs: family %r, flattened %r" % (fam_out[1][:80], flat_out[1][:80])
        if trig:
            stats["in_trigger_class"] += 1
        if trig2:
            stats["in_slot_layer_class"] = stats.get("in_slot_layer_class", 0) + 1
        if not trig and not trig2:
            stats["outside_both_classes"] = stats.get("outside_both_classes", 0) + 1
            if U.deep_slot_fill_class(fp):
                stats["block_in_fill_of_deep_slot_strict"] = stats.get("block_in_fill_of_deep_slot_strict", 0) + 1
        if fam_out != flat_out:
            replay = {"part": "b2", "fp": fp, "flat": U.norm(c["flat"]), "page_named": c["page_named"], "leaf_named": c["leaf_named"],
                      "family_output": fam_out, "flattened_output": flat_out, "trigger_detail": [trig, trig2], "corpus_file": c.get("corpus_file")}
            if (trig or trig2) and c.get("recorded") is not None and list(fam_out) != list(c["recorded"]):
                # a recorded witness of a known class must show the RECORDED wrong output, not just any wrong output
                chk.fail("known-class-behaviour-changed", "corpus witness of a known finding renders neither like the flattened program nor "
                         "like the recorded defective output", dict(replay, recorded_family_output=c["recorded"]))
            if trig or trig2:
                fp2 = U.without_component_families(fp)
                if (fp2["page"]["chain"] or U.fam_blocks_of(fp2["page"]["root"]) or fp2["inc"]) and not U.shares_block_context(fp2) \
                        and not U.slot_layer_class(fp2):
                    second.append((c, fp2, replay))
            if trig:
                stats["known_reproduced"] += 1
                chk.fail(TRIGGER_SHARED, "component whose template family declares blocks rendered while another family's BlockContext is current: "
                         "family renders differently from the flattened program", replay)
            elif trig2:
                stats["slot_layer_reproduced"] = stats.get("slot_layer_reproduced", 0) + 1
                chk.fail(TRIGGER_LAYER, "block tag inside the default content of a slot is resolved against the block context of the template "
                         "that wrote the component tag: family renders differently from the flattened program", replay)
            else:
                chk.fail("family-not-flattened", "a program written with extends/block/include renders differently from its hand-flattened program", replay)
        # tie the harness's flattening to Stock/Model.v flatten: per family, other tags abstracted
        if len(flat_terms) < (4000 if thorough else 1200):
            for key, fam in [("page", fp["page"])] + [(x[0], x[1]) for x in fp["lib"]] + list(fp["inc"].items()):
                if not fam["chain"] and not U.fam_blocks_of(fam["root"]):
                    continue
                ab = U.Abstractor()
                afam = {"chain": [ab.nodes(t) for t in fam["chain"]], "root": ab.nodes(fam["root"])}
                aflat = ab.nodes(U.fam_flatten(fam))
                flat_terms.append("(%s, %s)" % (U.c_family(afam), U.c_fnodes(aflat)))
                flat_infos.append({"part": "b2-flatten", "family": fam, "key": key})
    # Inside a known class the wrong output itself is not predicted (the component-side block plumbing is not modelled).
    # What the class does NOT excuse is checked: with every component family flattened the program is outside both classes,
    # the page family / its includes are still families, and it must render like the flattened program.
    if second:
        jobs = [("b2x-%d" % si, "comp", {"cases": [{"id": c["id"], "fp": fp2, "flat": c["flat"], "page_named": c["page_named"], "leaf_named": False}
                                                   for c, fp2, _ in sh]}) for si, sh in enumerate(shards(second, C.NCPU))]
        obs2 = {}
        for r in run_workers(jobs).values():
            for o in r["obs"]:
                obs2[o["id"]] = o
        for c, fp2, replay in second:
            o = obs2[c["id"]]
            fam_out, flat_out = tuple(o["family"]), tuple(o["flat"])
            chk.count(("b2x", json.dumps(fp2, sort_keys=True)), False, kind="b2:%s:known-class-with-component-families-flattened" % fp2["mode"])
            if {"other:Timeout", "other:RecursionError"} & {fam_out[1], flat_out[1]}:
                continue
            if fam_out != flat_out:
                chk.fail("family-not-flattened", "program of a known class still renders differently from its hand-flattened program after every "
                         "component family was flattened (page family and includes kept): not explained by the known finding",
                         dict(replay, fp=fp2, family_output=fam_out, flattened_output=flat_out, trigger_detail=[None, None],
                              original_family_program=replay["fp"]))
        stats["known_class_rechecked_without_component_families"] = len(second)
    bad = C.coq_eval_cases("C10", "flat", IMPORTS, "family * list fnode", "check_flat", flat_terms, shard=300)
    for i in bad[:10]:
        chk.disagree("harness flattening of a template family != Stock/Model.v flatten", flat_infos[i])
    stats["families_flattened_in_coq"] = len(flat_terms)
    chk.extra["part_b2"] = stats


# ---------------------------------------------------------------------------------------------
# (a-history) a template file used by a component, then by stock tags
# ---------------------------------------------------------------------------------------------
TRIGGER_FLAG = "c10-component-template-flag-shared"


def finding_status(trigger):
    try:
        data = json.load(open(os.path.join(C.VERIF, "known_findings.json")))
    except FileNotFoundError:
        return None
    for e in data.get("findings", []):
        if e.get("property") == "C10" and e.get("trigger") == trigger:
            return e.get("status")
    return None


def part_history(chk, thorough):
    """History class: stock page P includes template file T; a component uses T as its template (get_template_name); P is
    rendered again from the same loader cache.  C10: P does not use django-components, its output must not change.
    Today `_prepare_template` flags the loader-cached Template object of T, after which stock {% include %} of T no longer
    isolates the render context.  The class is ENFORCED only once known_findings.json lists the trigger (status known: the
    wrong output is reported as the known finding; status fixed: any difference is a violation); until then differences
    are counted in the evidence (`history.unregistered_differences`)."""
    rng = chk.rng
    cases = []
    for i in range(400 if thorough else 80):
        page, card = U.g1_family(rng), U.g1_family(rng)
        if not card["chain"]:
            card["chain"] = [U.g1_nodes(rng, 2, set(), False)]
        tp, pleaf = U.g1_templates(page, "c10/h%d_page" % i)
        tc, cleaf = U.g1_templates(card, "c10/h%d_card" % i)
        root = "c10/h%d_page_root.html" % i
        tp[root] = tp[root] + '|{%% include "%s" %%}' % cleaf
        cases.append({"id": i, "templates": dict(tp, **tc), "main": pleaf, "component_template": cleaf,
                      "ctx": {"r%d" % k: list(range(k)) for k in range(4)},
                      "shared_names": sorted(set(n for t in page["chain"] + [page["root"]] for n, _ in U.g1_blocks_of(t))
                                             & set(n for t in card["chain"] + [card["root"]] for n, _ in U.g1_blocks_of(t)))})
    res = run_workers([("hist-%d" % si, "history", {"cases": sh}) for si, sh in enumerate(shards(cases, 4))])
    obs = {}
    for r in res.values():
        for o in r["obs"]:
            obs[o["id"]] = o
    status = finding_status(TRIGGER_FLAG)
    stats = {"cases": len(cases), "finding_status": status, "differences": 0, "unregistered_differences": 0}
    for c in cases:
        o = obs[c["id"]]
        nontriv = bool(c["shared_names"]) and o["before"][0] == "ok"
        chk.count(("hist", json.dumps(c["templates"], sort_keys=True)), nontriv, kind="a:history:%s" % ("shared-names" if c["shared_names"] else "distinct-names"))
        replay = {"part": "history", "case": c, "observed": o}
        if o["before"] != o["after_reset"]:
            chk.disagree("stock page renders differently after loader.reset() (harness assumption broken)", replay)
        if o["before"] != o["after"]:
            stats["differences"] += 1
            if status is None:
                stats["unregistered_differences"] += 1
                stats.setdefault("example", {"templates": c["templates"], "before": o["before"], "after": o["after"]})
            else:
                chk.fail(TRIGGER_FLAG, "a stock page that includes a template file renders differently after a component used that file as its "
                         "template (loader-cached Template object flagged _djc_is_component_nested)", replay)
    chk.extra["part_history"] = stats


def run(tier, seed):
    # Gen/C09.v (tag_re pattern, delimiters, scan patterns, str.isspace set) anchors the lexer model this property reuses:
    # regenerate it from the tree under test so that a source edit breaks a proof obligation of Props/C10.v too
    import gen_constants
    gen_constants.generate(["C09"])
    chk = C.Check("C10", tier, seed)
    chk.prove()
    thorough = tier == "thorough"
    part_a(chk, thorough)
    part_history(chk, thorough)
    part_b1(chk, thorough)
    part_b2(chk, thorough)
    import collections
    print("C10 oracle failures by trigger: %s" % dict(collections.Counter(f[0] for f in chk.failures)))
    chk.assumptions = [
        "Django 5.1 template engine (Parser, nodes, loaders, Context) is the same code on both sides; only Template.compile_nodelist / "
        "Template.render and tag_re differ between a process with and without django_components",
        "multi-line tags (COMPONENTS.multiline_tags recompiles django.template.base.tag_re with re.DOTALL for the whole process) are a "
        "documented feature: each setting is compared with stock Django using the same flag; how often the flag changes the output is reported",
        "part (b): `exactly like the flattened template` is compared after removing render-id comments / data-djc-id attributes; error outcomes "
        "are compared by exception class",
    ]
    return chk.finish(
        rule="(a) seeded stock template cases (families via extends / include / block / block.super; for, if, with, filter, autoescape, firstof, "
             "cycle, custom tags; quoted arguments; error templates; %s per run) x multiline_tags {on, off} x engine.debug {on, off}: patched vs saved "
             "originals vs django_components-free process. Non-trivial = premise holds, some block tag is quoted, and the case uses extends or include. "
             "(b1) every family root x child over the templates with <= 2 nodes (thorough: root <= 3 nodes, and root x mid x leaf) from {text, block.super, loop, 2 block names}, then seeded abstract families up to 4 levels (%s). Non-trivial = has a chain, block.super and >= 3 blocks. (b2) seeded genprog component "
             "programs (both context behaviours) with page and/or component templates split into families (%s). Non-trivial = an overriding / "
             "block.super family, a component written with extends, nested components, and a successful render. Distinct = distinct templates."
             % ("6000" if thorough else "1200", "4000" if thorough else "700", "12000" if thorough else "2000"),
        explanation="Theorems of Props/C10.v re-checked by coqc. Part (a): every observable of compile + two renders compared three ways; lexer model and the "
                    "balanced-quotes premise evaluated inside Coq on the generated sources. Part (b1): Django's output for family and flattened template "
                    "compared with the model evaluated inside Coq. Part (b2): implementation renders family program and flattened program; the "
                    "harness's flattening is checked against the model's flatten inside Coq.",
        extra_trusted=["modelled, not verified: Django's loader_tags (BlockContext / BlockNode / ExtendsNode) - tied to Stock/Model.v by part (b1); "
                       "component-side plumbing of block contexts (component.py, slots.py, util/context.py) is NOT modelled: part (b2) compares the "
                       "implementation with itself on family vs flattened programs"])


def replay(path):
    r = json.load(open(path))
    case = r.get("case", {})
    print(json.dumps(r, indent=1)[:6000])
    part = case.get("part")
    if part == "a":
        c = dict(case["case"], id=0, features=[])
        d = case["multiline_tags"]
        res = run_workers([("replay-p", "stock-patched", {"dotall": d, "cases": [c]}), ("replay-s", "stock-pure", {"dotall": d, "cases": [c]})])
        print(json.dumps(res, indent=1)[:8000])
    elif part == "b2":
        res = run_workers([("replay-b", "comp", {"cases": [{"id": 0, "fp": case["fp"], "flat": case["flat"], "page_named": case["page_named"],
                                                            "leaf_named": case["leaf_named"]}]})])
        print(json.dumps(res, indent=1))
    return 0
