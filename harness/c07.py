"""C07 - concurrent renders in different threads do not interfere.

Model: coq/Conc/Model.v   Theorems: coq/Props/C07.v   Scheduler: harness/sched.py

For 2-3 small render / compile / first-access tasks the check enumerates every schedule with <= 2 pre-emptions (quick) /
<= 3 (thorough) at the anchor statements (source lines touching process-global state, located by ast + text), then seeded
random schedules.  Every schedule is run on the real implementation under the deterministic scheduler.
  direct oracle (the property itself): every thread returns / raises what it does alone, nothing hangs, the residue of the
      global tables after join is the union of the solo residues, the LRU list and dict agree, lazily resolved class data
      equals the solo value.
  correspondence: the executed schedule is handed to the model (Conc.Model.check_c07, evaluated by vm_compute inside Coq);
      the model must predict each thread's outcome class, whether it equals the solo outcome, its number of actions
      (and for a sample the whole label trace), the residue, the linked list in both directions, the dict keys, the lazily
      initialised class data.
An interference is attributed to a KNOWN root-cause class iff the trigger predicate of that class holds on the (tasks,
schedule) input (decided on the executed anchor trace, a function of the input); otherwise it is a VIOLATION.
"""
import collections
import json
import os
import re
import shutil
import sys
import tempfile
import threading
import time
import types

import common as C
import sched
from common import cN, cZ, cbool, clist, copt
from sched import Anchor as A

IMPORTS = "From DJC Require Import Lib.Base Conc.Model."
BIG = 400
NAMES = "ABC"

# ---------------------------------------------------------------------------------------------------------------
# anchors: name = constructor of Conc.Model.instr
# ---------------------------------------------------------------------------------------------------------------
P = "perfutil/provide.py"
PC = "perfutil/component.py"
L = "util/cache.py"
M = "component_media.py"
ANCHORS = [
    A("CopyRefs", P, "managed_provide_cache", "all_reference_ids_before = all_reference_ids.copy()", detail="provide_id"),
    A("SelfRef", P, "managed_provide_cache", "provide_references.setdefault(provide_id, set()).add(provide_id)", detail="provide_id"),
    A("CcHasRef", P, "cache_cleanup", "if provide_id in provide_references:", detail="provide_id"),
    A("CcDiscard", P, "cache_cleanup", "provide_references[provide_id].discard(provide_id)", detail="provide_id"),
    A("CcTestEmpty", P, "cache_cleanup", "if provide_id in provide_references and not provide_references[provide_id]:", detail="provide_id"),
    A("CcPopRefs", P, "cache_cleanup", "provide_references.pop(provide_id)", detail="provide_id"),
    A("CcPopCache", P, "cache_cleanup", "provide_cache.pop(provide_id)", detail="provide_id", nth=0),
    A("CcTestOrphan", P, "cache_cleanup", "elif provide_id not in provide_references and provide_id in provide_cache:", detail="provide_id"),
    A("CcPopOrphan", P, "cache_cleanup", "provide_cache.pop(provide_id)", detail="provide_id", nth=1),
    A("Diff", P, "managed_provide_cache", "new_reference_ids = all_reference_ids - all_reference_ids_before", detail="provide_id"),
    A("RegEmpty", P, "register_provide_reference", "if not provide_", prefix=True, detail="reference_id"),
    A("RegAddAll", P, "register_provide_reference", "all_reference_ids.add(reference_id)", detail="reference_id"),
    A("RegHas", P, "register_provide_reference", "if provide_id not in provide_references:", detail="reference_id+'/'+provide_id"),
    A("RegNew", P, "register_provide_reference", "provide_references[provide_id] = set()", detail="reference_id+'/'+provide_id"),
    A("RegAdd", P, "register_provide_reference", "provide_references[provide_id].add(reference_id)", detail="reference_id+'/'+provide_id"),
    A("UnInAll", P, "unregister_provide_reference", "if reference_id not in all_reference_ids:", detail="reference_id"),
    A("UnRemAll", P, "unregister_provide_reference", "all_reference_ids.remove(reference_id)", detail="reference_id"),
    A("UnKeys", P, "unregister_provide_reference", "for provide_id in", prefix=True, detail="reference_id"),
    A("UnIndex", P, "unregister_provide_reference", "if reference_id not in provide_references[provide_id]:", detail="reference_id+'/'+provide_id"),
    A("UnRem", P, "unregister_provide_reference", "provide_references[provide_id].remove(reference_id)", detail="reference_id+'/'+provide_id"),
    A("UnTestEmpty", P, "unregister_provide_reference", "if not provide_references[provide_id]:", detail="reference_id+'/'+provide_id"),
    A("UnPopCache", P, "unregister_provide_reference", "provide_cache.pop(provide_id)", detail="reference_id+'/'+provide_id"),
    A("UnPopRefs", P, "unregister_provide_reference", "provide_references.pop(provide_id)", detail="reference_id+'/'+provide_id"),
    A("ProvPut", "provide.py", "set_provided_context_var", "provide_cache[provide_id] = payload", detail="provide_id"),
    A("Inject", "provide.py", "get_injected_context_var", "return provide_cache[cache_key]", detail="cache_key"),
    A("CctxParent", "component.py", "_render_impl", "parent_comp_ctx = component_context_cache[", prefix=True, detail="parent_id"),
    A("CctxPut", "component.py", "_render_impl", "component_context_cache[", prefix=True, detail="render_id"),
    A("CctxDel", "component.py", "on_component_rendered", "del component_context_cache[", prefix=True, detail="render_id"),
    A("PurgeCctx", "component.py", "_render_impl", "component_context_cache.pop(tree_id, None)", detail="tree_id"),
    A("PurgeRend", "component.py", "_render_impl", "component_renderer_cache.pop(tree_id, None)", detail="tree_id"),
    A("PurgeAttr", "component.py", "_render_impl", "child_component_attrs.pop(tree_id, None)", detail="tree_id"),
    A("RendPut", PC, "component_post_render", "component_renderer_cache[render_id] = (renderer, component_name)", detail="render_id"),
    A("RendPop", PC, "component_post_render", "curr_comp_renderer, curr_comp_name = component_renderer_cache.pop(curr_item.child_id)", detail="curr_item.child_id"),
    A("AttrPop", PC, "component_post_render", "curr_comp_attrs = child_component_attrs.pop(curr_item.child_id, None)", detail="curr_item.child_id"),
    A("AttrUpd", PC, "component_post_render", "child_component_attrs.update(grandchild_component_attrs)", detail="curr_item.child_id"),
    A("GHas", L, "get", "if key in self.cache:"),
    A("GNode", L, "get", "node = self.cache[key]"),
    A("GRet", L, "get", "return node.value"),
    A("SOff", L, "set", "if self.maxsize is not None and self.maxsize <= 0:"),
    A("SHas", L, "set", "if key in self.cache:"),
    A("SNode", L, "set", "node = self.cache[key]"),
    A("SVal", L, "set", "node.value = value"),
    A("SFull", L, "set", "if self.maxsize is not None and len(self.cache) >= self.maxsize:"),
    A("STail", L, "set", "lru_node = self.tail.prev"),
    A("SDel", L, "set", "del self.cache[lru_node.key]"),
    A("SPut", L, "set", "self.cache[key] = new_node"),
    A("RmPrev", L, "_remove", "prev_node = node.prev"),
    A("RmNext", L, "_remove", "next_node = node.next"),
    A("RmSetNext", L, "_remove", "prev_node.next = next_node"),
    A("RmSetPrev", L, "_remove", "next_node.prev = prev_node"),
    A("AfNext", L, "_add_to_front", "node.next = self.head.next"),
    A("AfPrev", L, "_add_to_front", "node.prev = self.head"),
    A("AfTest", L, "_add_to_front", "if self.head.next:"),
    A("AfLink1", L, "_add_to_front", "self.head.next.prev = node"),
    A("AfLink2", L, "_add_to_front", "self.head.next = node"),
    A("NsHas", "component.py", "parse", "if start_tag not in component_node_subclasses_by_name:"),
    A("NsPut", "component.py", "parse", "component_node_subclasses_by_name[start_tag] = (subcls, registry)"),
    A("NsGet", "component.py", "parse", "cached_subcls, cached_registry = component_node_subclasses_by_name[start_tag]"),
    A("McHas", M, "_get_comp_cls_media", "if curr_cls in media_cache:", detail="curr_cls.__name__"),
    A("MResolvedQ1", M, "_get_comp_cls_media", "if comp_media is not None and not comp_media.resolved:", detail="curr_cls.__name__"),
    A("MResolvedQ2", M, "_resolve_media", "if get_import_path(comp_cls) == \"django_components.component.Component\" or comp_media.resolved:", detail="comp_cls.__name__"),
    A("MResolvePaths", M, "_resolve_component_relative_files", "_map_media_filepaths(comp_media.Media, resolve_media_file)", detail="comp_cls.__name__"),
    A("MSetRes", M, "_resolve_media", "comp_media.resolved = True", nth=0, detail="comp_cls.__name__"),
    A("MSetRes", M, "_resolve_media", "comp_media.resolved = True", nth=1, detail="comp_cls.__name__"),
    A("MReadJs", M, "_get_comp_cls_media", "media_js = getattr(media_input, \"js\", [])", detail="curr_cls.__name__"),
    A("McPut", M, "_get_comp_cls_media", "media_cache[curr_cls] = media", detail="curr_cls.__name__"),
    A("McRet", M, "_get_comp_cls_media", "return media_cache[comp_cls]", detail="comp_cls.__name__"),
]
LRU_LABELS = {"GHas", "GNode", "GRet", "SOff", "SHas", "SNode", "SVal", "SFull", "STail", "SDel", "SPut", "RmPrev", "RmNext",
              "RmSetNext", "RmSetPrev", "AfNext", "AfPrev", "AfTest", "AfLink1", "AfLink2"}

KNOWN_TRIGGERS = collections.OrderedDict([
    ("c07-provide-errorpath-global-diff",
     "a thread's render fails inside a {% provide %} body while another thread registers a provide reference between that "
     "thread's all_reference_ids.copy() and its except branch"),
    ("c07-unregister-snapshot-index",
     "a thread is inside unregister_provide_reference's loop over list(provide_references.keys()) while another thread pops one "
     "of the snapshotted keys before the first thread indexes it"),
    ("c07-lru-unsynchronised",
     "two threads are inside LRUCache.get/set of the template cache at the same time"),
    ("c07-media-double-resolve",
     "two threads run _resolve_component_relative_files for the same class whose directory contains the same relative path again"),
])


def label_codes():
    """constructor name -> label code, parsed from `Definition lbl` of Conc/Model.v."""
    txt = open(os.path.join(C.COQ, "Conc", "Model.v")).read()
    body = txt.split("Definition lbl", 1)[1].split("end.", 1)[0]
    return {m.group(1): int(m.group(2)) for m in re.finditer(r"\|\s*(\w+)[ _]*=>\s*(\d+)", body)}


# ---------------------------------------------------------------------------------------------------------------
# implementation side (runs inside worker processes)
# ---------------------------------------------------------------------------------------------------------------
class Boom(Exception):
    pass


class Env:
    """Everything a worker needs: Django set up, anchors located, component classes per task."""

    def __init__(self):
        self.dir = tempfile.mkdtemp(prefix="c07-%d-" % os.getpid())
        for sub, files in (("one", ["x.js"]), ("two", ["x.js", "two/x.js"])):
            for f in files:
                os.makedirs(os.path.dirname(os.path.join(self.dir, sub, f)), exist_ok=True)
                open(os.path.join(self.dir, sub, f), "w").write("//" + f)
        import djsetup
        djsetup.setup(components={"dirs": [self.dir]})
        self.table = sched.locate(ANCHORS)
        import django_components.util.misc as misc
        self.node_ctr = [0]

        def gen(*a, **k):
            fr = sys._getframe(2)
            name = fr.f_code.co_name
            t = threading.current_thread().name[-1].lower()
            if name == "_render_impl":
                idx = getattr(fr.f_locals["self"].__class__, "_c07_idx", None)
                if idx is not None:
                    return "%sc%04d" % (t, idx)
            elif name == "set_provided_context_var":
                kw = fr.f_locals.get("provided_kwargs") or {}
                if "x" in kw:
                    return "%sp%04d" % (t, int(kw["x"]))
            self.node_ctr[0] += 1
            return "n%05d" % (self.node_ctr[0] % 100000)
        self.real_generate = misc.generate     # the library's own id generator (util/nanoid.generate)
        self.patched_generate = gen
        misc.generate = gen
        self.id_files = {os.path.realpath(os.path.join(sched.SRC, "util", f)) for f in ("nanoid.py", "misc.py")}
        from django_components import Component
        Component.media  # the base class is resolved once and for all
        self.tasks = {}
        self.mcount = 0
        self.pkg_files = None

    def close(self):
        shutil.rmtree(self.dir, ignore_errors=True)

    # -- render tasks --------------------------------------------------------------------------
    def tpl_string(self, tname, idx, opts, body):
        return "<i>%s%d:{{ v }}</i>" % (tname, idx) + self.items_string(tname, body)

    def items_string(self, tname, items):
        out = []
        for it in items:
            if it[0] == "c":
                out.append("{%% component 'c07_%s_%d' / %%}" % (tname, it[1]))
            else:
                out.append("{%% provide '%s' x=%d %%}%s{%% endprovide %%}" % (it[2], it[1], self.items_string(tname, it[3])))
        return "".join(out)

    def build_render(self, spec):
        from django.template import Template
        from django_components import Component, registry
        tname = spec["name"]
        if tname in self.tasks:
            return self.tasks[tname]
        tpls = {}

        def mk(it):
            if it[0] == "p":
                for x in it[3]:
                    mk(x)
                return
            _, idx, opts, body = it
            src = self.tpl_string(tname, idx, opts, body)
            tpls[idx] = src
            inj, fail = opts.get("inj"), opts.get("fail", False)

            def get_context_data(self, _inj=inj, _fail=fail):
                v = None
                if _inj:
                    v = self.inject(_inj).x
                if _fail:
                    raise Boom("boom")
                return {"v": v}
            cls = type("C07_%s_%d" % (tname, idx), (Component,), {
                "template": src, "get_context_data": get_context_data, "_c07_idx": idx,
                "__module__": "verif_c07_%s" % tname})
            registry.register("c07_%s_%d" % (tname, idx), cls)
            cls.template  # resolve the class data now: lazy resolution is exercised by the media tasks only
            for x in body:
                mk(x)
        for it in spec["page"]:
            mk(it)
        page = Template(self.items_string(tname, spec["page"]))
        self.tasks[tname] = (page, tpls)
        return self.tasks[tname]

    def build_slot(self, spec):
        """Two-component page: `card` has a slot with default content; the page fills it (variant fill) or not (default).
        Every text is specific to the task, so a render that picks up another thread's slot content is visible."""
        from django_components import Component, registry
        tname = spec["name"]
        if tname in self.tasks:
            return self.tasks[tname]
        card_src = "<section>{%% slot 'body' %%}%s default for {{ who }}{%% endslot %%}</section>" % tname
        if spec["variant"] == "fill":
            page_src = ("<main>{%% component 'c07_%s_2' who=who %%}{%% fill 'body' %%}%s fill for {{ who }}{%% endfill %%}"
                        "{%% endcomponent %%}</main>" % (tname, tname))
        else:
            page_src = "<main>{%% component 'c07_%s_2' who=who / %%}</main>" % tname
        tpls = {1: page_src, 2: card_src}
        for idx, src in tpls.items():
            cls = type("C07_%s_%d" % (tname, idx), (Component,), {
                "template": src, "get_context_data": (lambda self, who=None: {"who": who}), "_c07_idx": idx,
                "__module__": "verif_c07_%s" % tname})
            registry.register("c07_%s_%d" % (tname, idx), cls)
            cls.template
            if idx == 1:
                page_cls = cls
        self.tasks[tname] = (page_cls, tpls)
        return self.tasks[tname]

    SHARED_PAGE = ("<main>{% component 'c07_xs_1' who=name|upper n=nums.1 items=[1, name, {'k': name|lower}] "
                   "opts={'a': name, 'b': [name|title, 2]} / %}</main>")

    def build_shared(self, spec):
        """Components for the shared-template task: tag arguments with filters / list / dict literals at two levels."""
        from django_components import Component, registry
        tname = spec["name"]
        if tname in self.tasks:
            return self.tasks[tname]
        tpls = {1: "<b>{{ who }}:{{ n }}:{{ items|length }}:{{ opts.b.0 }}</b>"
                   "{% component 'c07_" + tname + "_2' v=who|lower w=[who, n] / %}",
                2: "<i>{{ v }}{{ w.1 }}</i>"}
        gcd = {1: (lambda self, who=None, n=None, items=None, opts=None: {"who": who, "n": n, "items": items, "opts": opts}),
               2: (lambda self, v=None, w=None: {"v": v, "w": w})}
        for idx, src in tpls.items():
            cls = type("C07_%s_%d" % (tname, idx), (Component,), {
                "template": src, "get_context_data": gcd[idx], "_c07_idx": idx, "__module__": "verif_c07_%s" % tname})
            registry.register("c07_%s_%d" % (tname, idx), cls)
            cls.template
        self.tasks[tname] = (None, tpls)
        return self.tasks[tname]

    def make_fn(self, spec, shared):
        from django.template import Context
        if spec["kind"] == "shared":
            page = shared["page"]        # ONE Template object, compiled for this run, rendered by every thread
            return lambda: page.render(Context({"name": "Nm", "nums": [7, 8]}))
        if spec["kind"] == "slot":
            page_cls, _ = self.build_slot(spec)
            return lambda: page_cls.render(kwargs={"who": "w-" + spec["name"]}, render_dependencies=False)
        if spec["kind"] == "render":
            page, _ = self.build_render(spec)
            return lambda: page.render(Context({}))
        if spec["kind"] == "media":
            K = shared["cls"]
            return lambda: [p.count("/") for p in K.media._js]
        raise ValueError(spec)

    def fresh_media_class(self, nested):
        from django_components import Component
        self.mcount += 1
        sub = "two" if nested else "one"
        modname = "verif_c07_media_%d" % self.mcount
        mod = types.ModuleType(modname)
        mod.__file__ = os.path.join(self.dir, sub, "comp.py")
        sys.modules[modname] = mod

        class Media:
            js = ["x.js"]
        return type("C07Media", (Component,), {"Media": Media, "__module__": modname, "template": "m"})

    # -- state ---------------------------------------------------------------------------------
    def reset(self, cfg, family):
        import django_components.cache as dcc
        import django_components.perfutil.component as pc
        import django_components.perfutil.provide as pp
        from django_components.component import component_node_subclasses_by_name as nsd
        from django_components.template import cached_template
        from django_components.util.cache import LRUCache
        for d in (pp.provide_cache, pp.provide_references, pp.all_reference_ids, pc.component_context_cache,
                  pc.component_renderer_cache, pc.child_component_attrs):
            d.clear()
        dcc.template_cache = LRUCache(maxsize=cfg["cap"])
        for (tname, idx) in cfg.get("pre", []):
            spec = next(s for s in family["threads"] if s["kind"] == "render" and s["name"] == tname)
            _, tpls = self.build_render(spec)
            cached_template(tpls[idx])
        if cfg.get("pre_all"):
            for spec in family["threads"]:
                if spec["kind"] in ("render", "slot", "shared"):
                    tpls = {"render": self.build_render, "slot": self.build_slot, "shared": self.build_shared}[spec["kind"]](spec)[1]
                    for idx in sorted(tpls):
                        cached_template(tpls[idx])
        if not cfg.get("ns", True):
            nsd.clear()
        elif "component" not in nsd:
            from django.template import Template
            Template("{% component 'c07_none' / %}")
        self.node_ctr[0] = 0

    def key_code(self, key, keymap):
        if key == "":
            return 0
        if isinstance(key, tuple) and len(key) == 3:
            return keymap.get(key[1], 7777)
        return 7777

    def observe(self, cfg, family, keymap, shared):
        import django_components.cache as dcc
        import django_components.perfutil.component as pc
        import django_components.perfutil.provide as pp
        from django_components.component import component_node_subclasses_by_name as nsd
        from django_components.component_media import media_cache

        def idc(s):
            m = re.fullmatch(r"([abc])[cp](\d{4})", s)
            return (ord(m.group(1)) - 97) * 1000 + int(m.group(2)) if m else 999999
        resid = [sorted(idc(k) for k in pp.provide_cache), sorted(idc(k) for k in pp.provide_references),
                 sorted(idc(k) for k in pp.all_reference_ids), sorted(idc(k) for k in pc.component_context_cache),
                 sorted(idc(k) for k in pc.component_renderer_cache), sorted(idc(k) for k in pc.child_component_attrs)]
        c = dcc.template_cache

        def walk(start, nxt, stop):
            out, a = [], start
            for _ in range(12):
                if a is None:
                    out.append(9999)
                    return out
                if a is stop:
                    return out
                out.append(self.key_code(a.key, keymap))
                a = nxt(a)
            out.append(9998)
            return out
        lru = [walk(c.head.next, lambda n: n.next, c.tail), walk(c.tail.prev, lambda n: n.prev, c.head),
               sorted(self.key_code(k, keymap) for k in c.cache)]
        med = []
        if "cls" in shared:
            K = shared["cls"]
            cm = K.__dict__["_component_media"]
            mc = media_cache.get(K)
            med.append([1, bool(cm.resolved), cm.Media.js[0].count("/"), None if mc is None else mc._js[0].count("/")])
            media_cache.pop(K, None)
        return {"resid": resid, "lru": lru, "ns": "component" in nsd, "med": med, "cap": cfg["cap"]}

    # -- one schedule --------------------------------------------------------------------------
    def run_one(self, family, names, sched_list, keymap, timeout=15.0, fine=False, sweep=False, locs=False):
        import django_components.util.misc as misc
        realid = bool(family["cfg"].get("realid"))
        misc.generate = self.real_generate if realid else self.patched_generate
        try:
            return self._run_one(family, names, sched_list, keymap, timeout, fine, sweep, locs, realid)
        finally:
            misc.generate = self.patched_generate

    def _run_one(self, family, names, sched_list, keymap, timeout, fine, sweep, locs, realid):
        cfg = family["cfg"]
        shared = {}
        if any(s["kind"] == "media" for s in family["threads"]):
            shared["cls"] = self.fresh_media_class(cfg.get("nested", False))
        self.reset(cfg, family)
        if any(s["kind"] == "shared" for s in family["threads"]):
            from django.template import Template
            shared["page"] = Template(self.SHARED_PAGE)      # after reset: its component templates are fresh too
        fns = {n: self.make_fn(family["threads"][NAMES.index(n)], shared) for n in names}
        if sweep and self.pkg_files is None:
            self.pkg_files = sched.package_files()
        out, trace, aborted = sched.run_schedule(self.table, fns, names, sched_list, timeout=timeout, fine=fine or sweep or realid,
                                                 fine_files=self.pkg_files if sweep else None, locs=locs,
                                                 line_only=self.id_files if (realid and not sweep) else None)
        ids = {}
        if realid:
            # ids are random here: every thread's ids are read off its own anchor events, and outputs are compared
            # modulo ids (renamed in order of first appearance)
            for t, a, d in trace:
                if a in ("CctxPut", "ProvPut") and d:
                    ids.setdefault(t, [])
                    if d not in ids[t]:
                        ids[t].append(d)
            allids = [i for t in sorted(ids) for i in ids[t]]

            def canon(txt):
                found = sorted({(txt.find(i), i) for i in allids if i in txt})
                for k, (_, i) in enumerate(found):
                    txt = txt.replace(i, "ID%d" % k)
                return txt
            for n in list(out):
                o = out[n]
                if o[0] == "ok" and isinstance(o[1], str):
                    out[n] = ("ok", canon(str(o[1])))
        res = {}
        for n in names:
            o = out.get(n, ("abort", None))
            if o[0] == "ok":
                res[n] = ["ok", o[1] if isinstance(o[1], list) else str(o[1])]
            elif o[0] == "exc":
                res[n] = ["exc", type(o[1]).__name__, str(o[1])[-120:]]
            else:
                res[n] = ["abort"]
        obs = self.observe(cfg, family, keymap, shared)
        return {"res": res, "trace": [list(t) for t in trace], "aborted": aborted, "obs": obs, "ids": ids}


_ENV = None


def env():
    global _ENV
    if _ENV is None:
        _ENV = Env()
        import atexit
        atexit.register(_ENV.close)
    return _ENV


# ---------------------------------------------------------------------------------------------------------------
# families: tasks + configuration (pure data)
# ---------------------------------------------------------------------------------------------------------------
def comp(idx, body=(), **opts):
    return ["c", idx, dict(opts), list(body)]


def prov(idx, body, key="p"):
    return ["p", idx, key, list(body)]


def render(name, page):
    return {"kind": "render", "name": name, "page": page}


T_PLAIN = render("pl", [comp(1)])
T_PLAIN2 = render("pm", [comp(1)])
T_PFAIL = render("pf", [comp(1, [comp(2), comp(3, fail=True)])])
T_NEST = render("ne", [comp(1, [comp(2), comp(3)])])
T_INJ = render("in", [prov(1, [comp(2, inj="p")])])
T_INJ2 = render("io", [prov(1, [comp(2, inj="p")])])
T_FAILP = render("fp", [prov(1, [comp(2, inj="p", fail=True)])])
T_WRAP = render("wr", [comp(1, [prov(2, [comp(3, [comp(4, inj="p")])])])])
T_SIB = render("sb", [prov(1, [comp(2, inj="p"), comp(3, inj="p")])])
T_NOPROV = render("np", [comp(1, inj="p")])
T_FAILDEEP = render("fd", [comp(1, [prov(2, [comp(3, [comp(4, inj="p", fail=True)])])])])
T_TWOKEYS = render("tk", [prov(1, [prov(2, [comp(3, inj="q")], key="q")])])
T_MEDIA = {"kind": "media"}


def fam(name, threads, cap=128, pre=(), ns=True, nested=False, budget=1.0, istep=1):
    return {"name": name, "threads": list(threads), "budget": budget, "istep": istep,
            "cfg": {"cap": cap, "pre": [list(p) for p in pre], "ns": ns, "nested": nested}}


def all_pre(threads):
    """every template of every render task (all compiled beforehand)."""
    out = []
    seen = set()
    for s in threads:
        if s["kind"] != "render" or s["name"] in seen:
            continue
        seen.add(s["name"])

        def walk(items):
            for it in items:
                if it[0] == "c":
                    out.append((s["name"], it[1]))
                    walk(it[3])
                else:
                    walk(it[3])
        walk(s["page"])
    return out


HUGE = 10 ** 7


def slot_task(name, variant):
    return {"kind": "slot", "name": name, "variant": variant}


def sweep_families(tier):
    """Task pairs for the line-granularity single-pre-emption sweep (default cache size, every template compiled)."""
    S = []

    def sf(name, threads, park=None, **kw):
        f = fam(name, threads, cap=128, **kw)
        f["cfg"]["pre_all"] = True
        f["sweep"] = True
        f["park"] = park            # which threads are parked (None = each in turn); symmetric pairs need one direction only
        S.append(f)
    sf("sweep-slotfill-slotfill", [slot_task("xa", "fill"), slot_task("xb", "fill")], park=["A"])
    sf("sweep-slotfill-slotdefault", [slot_task("xa", "fill"), slot_task("xd", "default")], park=["B"])
    sf("sweep-plain-plain", [T_PLAIN, T_PLAIN2], park=["A"])
    sf("sweep-inj-inj", [T_INJ, T_INJ2], park=["A"])
    sf("sweep-nest-failp", [T_NEST, T_FAILP], park=["B"])
    sf("sweep-media-media", [T_MEDIA, T_MEDIA], park=["A"])
    # both threads render the SAME Template object, compiled for this run, for the FIRST time: tag arguments are
    # compiled lazily at first render and that state lives on the nodes of the shared template
    sf("sweep-shared-template-first-render", [{"kind": "shared", "name": "xs"}, {"kind": "shared", "name": "xs"}], park=["A"])
    return S


def realid_families(tier):
    """Families run with the library's OWN id generator (nothing mocked): steps = the anchors + every line of util/nanoid.py and
    util/misc.py.  Ids are random, so these are judged by the direct oracle only (outputs modulo ids, distinct ids)."""
    R = []
    for name, threads in (("realid-plain-plain", [T_PLAIN, T_PLAIN2]),
                          ("realid-inj-inj", [T_INJ, T_INJ2])):
        f = fam(name, threads, cap=128)
        f["cfg"]["pre_all"] = True
        f["cfg"]["realid"] = True
        f["realid"] = True
        R.append(f)
    return R


def families(tier):
    F = []
    # id-keyed tables only (template cache disabled): the class of theorem id_keyed_tables_isolated_partial
    F.append(fam("plain-plain-nocache", [T_PLAIN, T_PLAIN], cap=0))
    F.append(fam("nest-pfail-nocache", [T_NEST, T_PFAIL], cap=0, istep=2))
    F.append(fam("nest-nest-nocache", [T_NEST, T_NEST], cap=0, istep=3))
    F.append(fam("noprov-plain-nocache", [T_NOPROV, T_PLAIN2], cap=0))
    # provide tables (cache disabled so that only the provide races are in play)
    F.append(fam("inj-inj-nocache", [T_INJ, T_INJ2], cap=0))
    F.append(fam("failp-wrap-nocache", [T_FAILP, T_WRAP], cap=0, istep=2))
    F.append(fam("plain-inj-nocache", [T_PLAIN, T_INJ], cap=0))
    F.append(fam("pfail-inj-nocache", [T_PFAIL, T_INJ], cap=0, istep=2))
    F.append(fam("sib-failp-nocache", [T_SIB, T_FAILP], cap=0))
    F.append(fam("faildeep-inj-nocache", [T_FAILDEEP, T_INJ], cap=0, istep=2))
    F.append(fam("twokeys-failp-nocache", [T_TWOKEYS, T_FAILP], cap=0))
    # template cache
    F.append(fam("lru1-hit-miss", [T_PLAIN, T_PLAIN2], cap=1, pre=[("pl", 1)]))
    F.append(fam("lru2-hit-hit", [T_PLAIN, T_PLAIN2], cap=2, pre=[("pl", 1), ("pm", 1)]))
    F.append(fam("lru2-miss-miss", [T_PLAIN, T_PLAIN2], cap=2, istep=2))
    F.append(fam("lru1-same-miss", [T_PLAIN, T_PLAIN], cap=1, istep=2))
    F.append(fam("lru1-first-compile-nest", [T_NEST, T_PLAIN2], cap=1, pre=[("pm", 1)], ns=False, budget=0.5, istep=3))
    # everything together (default cache size, all templates compiled)
    F.append(fam("inj-plain-cached", [T_INJ, T_PLAIN], cap=128, pre=all_pre([T_INJ, T_PLAIN]), budget=0.5, istep=2))
    # lazy class data
    F.append(fam("media-first-access", [T_MEDIA, T_MEDIA], nested=False))
    F.append(fam("media-first-access-nested", [T_MEDIA, T_MEDIA], nested=True))
    # three threads
    F.append(fam("three-plain-nest-pfail-nocache", [T_PLAIN, T_NEST, T_PFAIL], cap=0, budget=0.4))
    F.append(fam("three-inj-failp-plain-nocache", [T_INJ, T_FAILP, T_PLAIN], cap=0, budget=0.4))
    F.append(fam("three-lru1", [T_PLAIN, T_PLAIN2, T_PLAIN], cap=1, pre=[("pl", 1)], budget=0.4))
    return F


# ---------------------------------------------------------------------------------------------------------------
# model terms
# ---------------------------------------------------------------------------------------------------------------
KEYCODES = {"p": 1, "q": 2}


def family_keymap(family):
    """template string -> model key code (>= 10), deterministic."""
    e = env()
    srcs = set()
    for s in family["threads"]:
        if s["kind"] == "render":
            _, tpls = e.build_render(s)
            srcs.update(tpls.values())
        elif s["kind"] == "slot":
            srcs.update(e.build_slot(s)[1].values())
        elif s["kind"] == "shared":
            srcs.update(e.build_shared(s)[1].values())
    return {src: 10 + i for i, src in enumerate(sorted(srcs))}


def item_term(e, tname, tidx, it, keymap, tpls):
    if it[0] == "c":
        _, idx, opts, body = it
        return "IComp %s (Some %s) %s %s %s" % (
            cN(tidx * 1000 + idx), cN(keymap[tpls[idx]]), copt(KEYCODES.get(opts.get("inj")) if opts.get("inj") else None, cN),
            cbool(opts.get("fail", False)), clist([item_term(e, tname, tidx, x, keymap, tpls) for x in body]))
    _, idx, key, body = it
    return "IProv %s %s %s %s" % (cN(KEYCODES[key]), cN(tidx * 1000 + idx), cN(idx),
                                  clist([item_term(e, tname, tidx, x, keymap, tpls) for x in body]))


def task_term(e, spec, tidx, keymap):
    if spec["kind"] in ("slot", "shared"):
        return None                      # slot content / lazily compiled tag arguments are outside the model: line-sweep families, direct oracle only
    if spec["kind"] == "media":
        return "TMedia 1%N"
    _, tpls = e.build_render(spec)
    return "TRender %s" % clist([item_term(e, spec["name"], tidx, it, keymap, tpls) for it in spec["page"]])


STATUS = {"KeyError": 1, "Boom": 2, "RuntimeError": 3, "AttributeError": 4}


def case_term(family, rec, keymap, task_terms, solo, lblc, with_labels):
    cfg = family["cfg"]
    e = env()
    names = rec["names"]
    pre = []
    for (tname, idx) in cfg["pre"]:
        spec = next(s for s in family["threads"] if s["kind"] == "render" and s["name"] == tname)
        pre.append(keymap[e.build_render(spec)[1][idx]])
    tobs = []
    for n in names:
        r = rec["res"][n]
        st = 0 if r[0] == "ok" else STATUS.get(r[1], 9) if r[0] == "exc" else 8
        same = same_result(r, solo[n]["res"])
        mine = [t for t in rec["trace"] if t[0] == n]
        mv = None
        if r[0] == "ok" and isinstance(r[1], list):
            mv = r[1][0] if r[1] else None
        labels = "None"
        if with_labels:
            labels = "(Some %s)" % clist([cN(lblc[t[1]]) for t in mine])
        tobs.append("(%s, %s, %s, %s, %s)" % (cN(st), cbool(same), cN(len(mine)), copt(mv, cN), labels))
    ob = rec["obs"]
    segs = sched.compress([t[0] for t in rec["trace"]])
    return "(%s, %s, %s, %s, %s, %s, %s, %s, %s, (%s, %s, %s), %s, %s)" % (
        copt(cfg["cap"], cZ), clist([cN(k) for k in pre]), clist([cN(k) for k in rec["rank"]]),
        clist(["(1%%N, %s)" % cN(2 if cfg["nested"] else 1)]), cbool(cfg["ns"]), clist(task_terms),
        clist(["(%d%%nat, %d%%nat)" % (names.index(t), k) for t, k in segs]), clist(tobs),
        clist([clist([cN(x) for x in l]) for l in ob["resid"]]),
        clist([cN(x) for x in ob["lru"][0]]), clist([cN(x) for x in ob["lru"][1]]), clist([cN(x) for x in ob["lru"][2]]),
        cbool(ob["ns"]),
        clist(["(%s, %s, %s, %s)" % (cN(m[0]), cbool(m[1]), cN(m[2]), copt(m[3], cN)) for m in ob["med"]]))


# ---------------------------------------------------------------------------------------------------------------
# direct oracle and trigger predicates
# ---------------------------------------------------------------------------------------------------------------
def same_result(r, s):
    if r[0] != s[0]:
        return False
    if r[0] == "ok":
        return r[1] == s[1]
    if r[0] == "exc":
        return r[1] == s[1]
    return False


def idcode(s):
    m = re.fullmatch(r"([abc])[cp](\d{4})", s)
    return (ord(m.group(1)) - 97) * 1000 + int(m.group(2)) if m else 999999


def diff_rank(trace):
    """iteration order CPython used for the `all_reference_ids - before` sets: ids in the order the except branch
    unregistered them (read off the executed trace)."""
    rank = []
    cur = {}
    for t, a, d in trace:
        if a == "Diff":
            cur[t] = True
        elif a == "UnInAll" and cur.get(t):
            c = idcode(d)
            if c not in rank:
                rank.append(c)
        elif a == "CcHasRef" and cur.get(t):
            cur[t] = False
    return rank


def interference(family, rec, solo):
    """The property itself, decided on the implementation.  Returns a list of what failed (empty = isolated)."""
    bad = []
    names = rec["names"]
    if rec["aborted"]:
        bad.append("watchdog: a thread did not finish (deadlock or runaway)")
    for n in names:
        if not same_result(rec["res"][n], solo[n]["res"]):
            bad.append("thread %s: %s, alone: %s" % (n, rec["res"][n][:2], solo[n]["res"][:2]))
    ob = rec["obs"]
    exp = [sorted(x for n in names for x in solo[n]["obs"]["resid"][i]) for i in range(6)]
    if ob["resid"] != exp:
        bad.append("residue after join %s, union of solo residues %s" % (ob["resid"], exp))
    fw, bw, dk = ob["lru"]
    cap = ob["cap"]
    if fw != bw[::-1] or sorted(fw) != dk or any(k >= 9998 for k in fw + bw) or (cap is not None and len(dk) > max(cap, 0)):
        bad.append("template cache corrupt: list forwards %s, backwards %s, dict keys %s, maxsize %s" % (fw, bw, dk, cap))
    if ob["med"]:
        sm = solo[names[0]]["obs"]["med"]
        if ob["med"] != sm:
            bad.append("class media data %s, after a solo first access %s" % (ob["med"], sm))
    return bad


def owner(idstr):
    return idstr[0].upper() if idstr and idstr[0] in "abc" else None


def triggers(family, rec):
    """Root-cause classes whose trigger predicate holds on this (tasks, schedule) input, decided on the executed trace."""
    tr = [t for t in rec["trace"] if t[1] != "_"]      # fine mode: plain lines touch no shared state
    out = []
    nxt_same = [None] * len(tr)          # index of the next event of the same thread
    last = {}
    for i in range(len(tr) - 1, -1, -1):
        nxt_same[i] = last.get(tr[i][0])
        last[tr[i][0]] = i
    # T1: CopyRefs(X,pid) ... RegAddAll(Y != X, r) [r not unregistered again] ... Diff(X,pid)
    t1 = False
    for q, (x, a, pid) in enumerate(tr):
        if a != "Diff":
            continue
        ps = [p for p in range(q) if tr[p][0] == x and tr[p][1] == "CopyRefs" and tr[p][2] == pid]
        if not ps:
            continue
        p = ps[-1]
        for s in range(p + 1, q):
            y, b, r = tr[s]
            if y != x and b == "RegAddAll" and not any(tr[u][1] == "UnRemAll" and tr[u][2] == r for u in range(s + 1, q)):
                t1 = True
    if t1:
        out.append("c07-provide-errorpath-global-diff")
    # T2: UnKeys(X,r) ... pop of provide_references[k] by Y != X ... UnIndex(X, r/k)
    t2 = False
    for p, (x, a, r) in enumerate(tr):
        if a != "UnKeys":
            continue
        for s in range(p + 1, len(tr)):
            if tr[s][0] == x and tr[s][1] in ("UnKeys", "UnInAll"):
                break
            if tr[s][0] == x and tr[s][1] == "UnIndex":
                k = tr[s][2].split("/")[1]
                for q in range(p + 1, s):
                    y, b, d = tr[q]
                    if y != x and b in ("UnPopRefs", "CcPopRefs") and d.split("/")[-1] == k:
                        t2 = True
    if t2:
        out.append("c07-unregister-snapshot-index")
    # T3: RegEmpty(X,r) followed by RegAddAll(X,r) although no provide_cache entry put by X is alive
    t3 = False
    live = set()
    for p, (x, a, d) in enumerate(tr):
        if a == "ProvPut":
            live.add(d)
        elif a in ("CcPopCache", "CcPopOrphan", "UnPopCache"):
            live.discard(d.split("/")[-1])
        elif a == "RegEmpty":
            nxt = tr[nxt_same[p]] if nxt_same[p] is not None else None
            if nxt is not None and nxt[1] == "RegAddAll" and nxt[2] == d and not any(owner(k) == x for k in live):
                t3 = True
    # (not a known class of its own on the current code: registering needlessly only EXPOSES the thread to T2; recorded
    #  in the statistics, never used to excuse an interference)
    rec["exposed_by_register_empty_check"] = t3
    # T4: LRU operations of two threads overlap
    t4 = False
    inside = {}
    for p, (x, a, d) in enumerate(tr):
        nxt = tr[nxt_same[p]] if nxt_same[p] is not None else None
        if a in LRU_LABELS:
            if any(v for y, v in inside.items() if y != x):
                t4 = True
            inside[x] = nxt is not None and nxt[1] in LRU_LABELS
        else:
            inside[x] = False
    cap = family["cfg"]["cap"]
    if t4 and (cap is None or cap > 0):      # a disabled cache (maxsize <= 0) holds no shared entries
        out.append("c07-lru-unsynchronised")
    # T5: two threads resolve the paths of the same class, and the layout re-resolves
    if family["cfg"].get("nested"):
        who = collections.defaultdict(set)
        for x, a, d in tr:
            if a == "MResolvePaths":
                who[d].add(x)
        if any(len(v) > 1 for v in who.values()):
            out.append("c07-media-double-resolve")
    return out


def preemptions(trace, names):
    """number of switches away from a thread that still has actions to do."""
    last = {}
    for i, t in enumerate(trace):
        last[t[0]] = i
    n = 0
    for i in range(1, len(trace)):
        if trace[i][0] != trace[i - 1][0] and last[trace[i - 1][0]] > i - 1:
            n += 1
    return n


# ---------------------------------------------------------------------------------------------------------------
# schedule enumeration (worker side)
# ---------------------------------------------------------------------------------------------------------------
def run_rec(e, family, names, segs, keymap, fine=False, sweep=False, locs=False):
    rec = e.run_one(family, names, [tuple(x) for x in segs], keymap, fine=fine, sweep=sweep, locs=locs)
    rec["fine"] = fine or sweep or bool(family["cfg"].get("realid"))
    rec["sweep"] = sweep
    rec["names"] = names
    rec["segs"] = [list(s) for s in segs]
    return rec


def solo_runs(e, family, keymap):
    solo = {}
    for i, spec in enumerate(family["threads"]):
        n = NAMES[i]
        rec = run_rec(e, family, [n], [], keymap)
        solo[n] = {"res": rec["res"][n], "trace": rec["trace"], "obs": rec["obs"], "aborted": rec["aborted"]}
    return solo


_SOLO_CACHE = {}


def digest(family, rec, keymap):
    """Everything the driver needs about one executed schedule (computed in the worker)."""
    key = family["name"]
    if key not in _SOLO_CACHE:
        _SOLO_CACHE[key] = job_solo(family)
    solo, _, tts = _SOLO_CACHE[key]
    ex = sched.compress([t[0] for t in rec["trace"]])
    bad = interference(family, rec, solo)
    trg = triggers(family, rec)
    dup = []
    if family["cfg"].get("realid"):
        ids = rec.get("ids", {})
        ts = sorted(ids)
        for a in range(len(ts)):
            for b in range(a + 1, len(ts)):
                for i in ids[ts[a]]:
                    if i in ids[ts[b]]:
                        dup.append([i, ts[a], ts[b]])
        if dup:
            bad.insert(0, "the same render/provide id was handed to renders running concurrently in different threads: %s" % dup)
    rec["rank"] = diff_rank(rec["trace"])
    with_labels = bool(bad) or (sum(k for _, k in ex) + len(ex)) % 10 == 0
    fine = rec.get("fine", False)
    d = {"ex": [list(x) for x in ex], "bad": bad, "trg": trg, "npre": preemptions(rec["trace"], rec["names"]),
         "f3": bool(rec.get("exposed_by_register_empty_check")), "res": rec["res"], "segs": rec["segs"], "fine": fine,
         "sweep": bool(rec.get("sweep")), "dupid": dup,
         "term": None if fine else case_term(family, rec, keymap, tts, solo, label_codes_cached(), with_labels)}
    if bad:
        d["replay"] = {"family": family, "segs": rec["segs"], "fine": fine, "sweep": d["sweep"],
                       "executed": d["ex"] if len(d["ex"]) < 40 else d["ex"][:40], "results": rec["res"],
                       "solo": {n: solo[n]["res"] for n in rec["names"]}, "failed": bad,
                       "residue": rec["obs"]["resid"], "lru": rec["obs"]["lru"], "media": rec["obs"]["med"], "triggers": trg}
    return d


_LBL = None


def label_codes_cached():
    global _LBL
    if _LBL is None:
        _LBL = label_codes()
    return _LBL


def job_enum2(args):
    """all schedules X^i Y^j X* Y* for one (family, X, Y, i)."""
    family, x, y, i, maxj, third = args[:6]
    step = args[6] if len(args) > 6 else 1
    e = env()
    keymap = family_keymap(family)
    names = [NAMES[k] for k in range(len(family["threads"]))]
    out = []
    rest = [(n, BIG) for n in names if n not in (x, y)]
    for j in range(1, maxj + 1, step):
        if third is None:
            rec = run_rec(e, family, names, [(x, i), (y, j), (x, BIG), (y, BIG)] + rest, keymap)
            out.append(rec)
        else:
            for k in range(1, third + 1, step):
                rec = run_rec(e, family, names, [(x, i), (y, j), (x, k), (y, BIG), (x, BIG)] + rest, keymap)
                out.append(rec)
                if sum(1 for t in rec["trace"] if t[0] == x) < i + k:
                    break      # X finished inside its second segment: larger k repeat this schedule
        if sum(1 for t in rec["trace"] if t[0] == y) < j:
            break              # Y finished inside its segment: larger j repeat this schedule
    return [digest(family, r, keymap) for r in out]


def job_list(args):
    family, seglists = args[:2]
    fine = len(args) > 2 and args[2]
    sweep = len(args) > 3 and args[3]
    e = env()
    keymap = family_keymap(family)
    names = [NAMES[k] for k in range(len(family["threads"]))]
    return [digest(family, run_rec(e, family, names, segs, keymap, fine=fine, sweep=sweep), keymap) for segs in seglists]


def job_sweep_plan(args):
    """Positions at which thread X is parked: EVERY line event of X inside the django_components package (both tiers; the
    whole sweep costs ~20 ms per position)."""
    family, tier = args
    e = env()
    keymap = family_keymap(family)
    names = [NAMES[k] for k in range(len(family["threads"]))]
    plan = {}
    for x in names:
        rec = run_rec(e, family, [x], [], keymap, sweep=True, locs=True)
        steps = [t for t in rec["trace"] if t[0] == x]
        ns = list(range(len(steps) + 1))
        plan[x] = {"positions": ns, "line_events": len(steps),
                   "distinct_lines": len({t[2] for t in steps if t[1] == "_"})}
    return plan


def job_realid_plan(family):
    """Pre-emption points of thread X.  `gen`: before the first execution of every distinct source line within each call of
    the id generator (the per-byte loop repeats its lines), and right after the call.  `all`: those plus every anchor."""
    e = env()
    keymap = family_keymap(family)
    names = [NAMES[k] for k in range(len(family["threads"]))]
    plan = {}
    for x in names:
        rec = run_rec(e, family, [x], [], keymap, locs=True)
        steps = [t for t in rec["trace"] if t[0] == x]
        gen, seen = set(), set()
        for i, t in enumerate(steps):
            if t[1] == "_":
                if t[2] not in seen:
                    seen.add(t[2])
                    gen.add(i)
                if i + 1 == len(steps) or steps[i + 1][1] != "_":
                    gen.add(i + 1)
                    seen = set()
        anchors = {i for i, t in enumerate(steps) if t[1] != "_"}
        plan[x] = {"gen": sorted(gen), "all": sorted(p for p in gen | anchors if p > 0), "steps": len(steps),
                   "id_generator_lines": sum(1 for t in steps if t[1] == "_")}
    return plan


def job_realid(args):
    """X^i Y^j X* Y*: X pre-empted at a line of the id generator, Y pre-empted at one of its anchors or generator lines."""
    family, x, y, positions, js = args
    e = env()
    keymap = family_keymap(family)
    names = [NAMES[k] for k in range(len(family["threads"]))]
    out = []
    for i in positions:
        for j in js:
            rec = run_rec(e, family, names, [(x, i), (y, j), (x, HUGE), (y, HUGE)], keymap)
            out.append(digest(family, rec, keymap))
    return out


def job_sweep(args):
    """park X before its (n+1)-th line, run Y (and any third thread) to completion, resume X."""
    family, x, others, positions = args
    e = env()
    keymap = family_keymap(family)
    names = [NAMES[k] for k in range(len(family["threads"]))]
    out = []
    for n in positions:
        segs = [(x, n)] + [(y, HUGE) for y in others] + [(x, HUGE)]
        out.append(digest(family, run_rec(e, family, names, segs, keymap, sweep=True), keymap))
    return out


def job_solo(family):
    e = env()
    keymap = family_keymap(family)
    solo = solo_runs(e, family, keymap)
    tts = [task_term(e, spec, i, keymap) for i, spec in enumerate(family["threads"])]
    return solo, keymap, tts


# ---------------------------------------------------------------------------------------------------------------
# driver
# ---------------------------------------------------------------------------------------------------------------
def plan_jobs(family, solo, tier, rng):
    thorough = tier == "thorough"
    names = [NAMES[k] for k in range(len(family["threads"]))]
    n = {x: len(solo[x]["trace"]) for x in names}
    slack = 8
    jobs = []
    b = family["budget"]
    pairs = [(x, y) for x in names for y in names if x != y]
    if len(names) == 2:
        for x, y in pairs:
            for i in range(0, n[x] + slack, 1 if thorough else family.get("istep", 1)):
                jobs.append(("enum", (family, x, y, i, n[y] + slack, None)))
        if thorough:
            # 3 pre-emptions: X^i Y^j X^k Y* X* on a grid (i every 3rd, j and k every 2nd up to 30 actions)
            for x, y in pairs:
                for i in range(1, n[x] + 2, 3):
                    jobs.append(("enum", (family, x, y, i, min(n[y] + 2, 30), min(n[x] + 2, 30), 2)))
    else:
        # three threads: X^i Y^j Z^k then drain, a grid; plus pairs at coarser steps
        step = 2 if thorough else 3
        lists = []
        import itertools
        for perm in itertools.permutations(names):
            x, y, z = perm
            for i in range(1, n[x] + 2, step):
                for j in range(1, n[y] + 2, step):
                    for k in range(1, n[z] + 2, step * 2):
                        lists.append([(x, i), (y, j), (z, k), (x, BIG), (y, BIG), (z, BIG)])
        rng.shuffle(lists)
        lists = lists[: int((3000 if thorough else 500) * b)]
        for c in range(0, len(lists), 40):
            jobs.append(("list", (family, lists[c:c + 40])))
    # seeded random schedules
    nrand = int((3000 if thorough else 300) * b)
    lists = []
    tot = sum(n.values()) + 10
    for _ in range(nrand):
        segs = []
        used = 0
        while used < tot:
            k = rng.choice([1, 1, 1, 2, 2, 3, 4, 6, 9])
            segs.append((rng.choice(names), k))
            used += k
        segs += [(x, BIG) for x in rng.sample(names, len(names))]
        lists.append(segs)
    for c in range(0, len(lists), 40):
        jobs.append(("list", (family, lists[c:c + 40])))
    # fine-grained random schedules: every source line of the traced files is a switch point (direct oracle only)
    nfine = int((1500 if thorough else 120) * b)
    lists = []
    for _ in range(nfine):
        segs = []
        for _ in range(rng.randint(2, 14)):
            segs.append((rng.choice(names), rng.choice([1, 2, 3, 5, 8, 13, 21, 34, 55, 89, 144])))
        segs += [(x, 20 * BIG) for x in rng.sample(names, len(names))]
        lists.append(segs)
    for c in range(0, len(lists), 30):
        jobs.append(("list", (family, lists[c:c + 30], True)))
    return jobs


def job_sequential(_):
    """Sequential oracle (no threads): a render that fails must fail the same way every time - a failed first render must
    not leave half-written state on the shared template / class that changes what LATER renders (of any thread) raise."""
    from django.template import Context, Template
    from django_components import Component, registry
    env()
    if "c07_seq_1" not in registry.all():
        registry.register("c07_seq_1", type("C07_seq_1", (Component,), {
            "template": "<u>{{ v }}</u>", "get_context_data": (lambda self, v=None, **kw: {"v": v}), "__module__": "verif_c07_seq"}))
    out = []
    for src in ("{% component 'c07_seq_1' v=who|nosuchfilter / %}",
                "{% component 'c07_seq_1' v=[who, who|nosuchfilter] / %}",
                "{% component 'c07_seq_1' v={'a': who|nosuchfilter} / %}",
                "{% component 'c07_seq_1' v=who|upper / %}"):
        t = Template(src)
        seen = []
        for _ in range(3):
            try:
                seen.append(["ok", re.sub(r"<!--.*?-->|data-djc-id-\w+(=\"\")?", "", t.render(Context({"who": "x"})))])
            except Exception as ex:  # noqa
                seen.append([type(ex).__name__, str(ex)[-200:]])
        if any(x != seen[0] for x in seen[1:]):
            out.append({"template": src, "renders": seen})
    return out


def _dispatch_safe(job):
    """A crash of the harness must never stand in for a verdict: report it, with the job as replay."""
    try:
        return _dispatch(job)
    except Exception:  # noqa
        import traceback
        kind, args = job
        return [{"error": traceback.format_exc()[-2500:], "job": {"kind": kind, "family": args[0], "rest": repr(args[1:])[:600]}}]


def _dispatch(job):
    kind, args = job
    if kind == "sweep":
        return job_sweep(args)
    if kind == "realid":
        return job_realid(args)
    return job_enum2(args) if kind == "enum" else job_list(args)


CORPUS_DIR = os.path.join(C.VERIF, "corpus", "C07")


def load_corpus():
    out = []
    if os.path.isdir(CORPUS_DIR):
        for f in sorted(os.listdir(CORPUS_DIR)):
            if f.endswith(".json"):
                out.append((f, json.load(open(os.path.join(CORPUS_DIR, f)))))
    return out


def classify(chk, family, d, stats, where):
    bad, trg = d["bad"], d["trg"]
    if not bad:
        return
    replay = dict(d["replay"], where=where)
    if d.get("dupid"):
        # ids are what keeps renders apart: a shared id is never explained by one of the known classes
        chk.fail("c07-id-shared-by-concurrent-renders", "; ".join(bad), replay)
        stats["shared-id"] += 1
        return
    if not trg:
        chk.fail("c07-interference-outside-known-classes", "; ".join(bad), replay)
        stats["outside"] += 1
        return
    stats["known:" + "+".join(trg)] += 1
    if d["f3"]:
        stats["interference-with-needless-registration(F3)"] += 1
    # attribute to one class: a class that holds alone is the cause; otherwise the first in causal order
    chk.fail(trg[0], "; ".join(bad), replay)
    for t in trg:
        stats["holds:" + t] += 1
    if len(trg) == 1:
        stats["alone:" + trg[0]] += 1


def run(tier, seed):
    import multiprocessing as mp
    chk = C.Check("C07", tier, seed)
    chk.prove()
    lblc = label_codes()
    try:
        e = env()
    except sched.AnchorError as ex:
        chk.disagree("anchor statements of the model not found in the current source: %s" % ex, {"anchors": str(ex)})
        return chk.finish(rule="n/a", explanation="the model transliterates source lines that no longer exist")
    stats = collections.Counter()
    fams = families(tier)
    ctx = mp.get_context("fork")
    terms, meta = [], []
    seen, sampled = set(), set()
    t_pool = time.time()
    with ctx.Pool(C.NCPU) as pool:
        solos = pool.map(job_solo, fams)
        # corpus first (direct oracle)
        corpus = load_corpus()
        cjobs = [("list", (c["family"], [[tuple(s) for s in c["segs"]]], bool(c.get("fine")), bool(c.get("sweep")))) for _, c in corpus]
        for f in pool.map(job_sequential, [0]):
            for bad in f:
                chk.fail("c07-failure-changes-on-repeated-render",
                         "the same template fails differently when rendered again: %s" % bad["renders"], {"kind": "sequential", **bad})
            chk.count(("sequential-oracle",), True, kind="sequential-oracle")
        cres = pool.map(_dispatch_safe, cjobs)
        for (fname, c), recs in zip(corpus, cres):
            d = recs[0]
            if "error" in d:
                chk.disagree("harness raised while replaying corpus/%s: %s" % (fname, d["error"]), d["job"])
                continue
            classify(chk, c["family"], d, stats, "corpus/" + fname)
            chk.count(("corpus", fname), bool(d["bad"]), kind="corpus")
            exp = c.get("expect")
            if exp and (not d["bad"] or exp not in d["trg"]):
                stats["corpus-not-reproduced:" + fname] += 1
        # enumeration + random
        alljobs = []
        for fi, (family, (solo, keymap, tts)) in enumerate(zip(fams, solos)):
            for j in plan_jobs(family, solo, tier, chk.rng):
                alljobs.append((fi, j))
        # line-granularity single-pre-emption sweep (direct oracle only)
        sfams = sweep_families(tier)
        plans = pool.map(job_sweep_plan, [(f, tier) for f in sfams])
        for f, plan in zip(sfams, plans):
            fi = len(fams)
            fams.append(f)
            names = [NAMES[k] for k in range(len(f["threads"]))]
            chk.extra.setdefault("line_sweep", {})[f["name"]] = {x: {k: v for k, v in plan[x].items() if k != "positions"} |
                                                                   {"parked_at": len(plan[x]["positions"])} for x in names}
            for x in (f.get("park") or names):
                pos = plan[x]["positions"]
                for c in range(0, len(pos), 25):
                    alljobs.append((fi, ("sweep", (f, x, [y for y in names if y != x], pos[c:c + 25]))))
        # the real id generator inside the scheduled region
        rfams = realid_families(tier)
        rplans = pool.map(job_realid_plan, rfams)
        for f, plan in zip(rfams, rplans):
            fi = len(fams)
            fams.append(f)
            names = [NAMES[k] for k in range(len(f["threads"]))]
            chk.extra.setdefault("realid", {})[f["name"]] = {
                x: {"steps": plan[x]["steps"], "id_generator_lines": plan[x]["id_generator_lines"],
                    "preempted_in_generator_at": len(plan[x]["gen"]), "other_thread_preempted_at": len(plan[x]["all"])} for x in names}
            for x in names[:1]:                   # the two tasks of a realid family have the same shape: one order
                for y in names:
                    if x != y:
                        pos = plan[x]["gen"]
                        for c in range(0, len(pos), 2):
                            alljobs.append((fi, ("realid", (f, x, y, pos[c:c + 2], plan[y]["all"] + [plan[y]["steps"] + 6]))))
        results = pool.map(_dispatch_safe, [j for _, j in alljobs], chunksize=4)
    for (fi, _), recs in zip(alljobs, results):
        family = fams[fi]
        for d in recs:
            if "error" in d:
                stats["harness_errors"] += 1
                chk.disagree("the harness raised while running schedules of family %s: %s" % (family["name"], d["error"]), d["job"])
                continue
            ex = tuple(tuple(x) for x in d["ex"])
            key = (fi, ex)
            if key in seen:
                stats["duplicate-schedules"] += 1
                continue
            seen.add(key)
            classify(chk, family, d, stats, "enumeration")
            bad, trg, npre = d["bad"], d["trg"], d["npre"]
            kind = "%s%s/%s" % (family["name"], "" if d["sweep"] else "/fine" if d["fine"] else "",
                                "isolated" if not bad else "+".join(trg) or "OUTSIDE")
            sample = None
            if bad and "+".join(trg) not in sampled:
                sampled.add("+".join(trg))
                sample = {"family": family["name"], "schedule": d["ex"], "results": d["res"],
                          "triggers": trg, "interference": bad}
            chk.count((family["name"], ex), npre >= 1, kind=kind, sample=sample)
            stats["preemptions=%d" % min(npre, 4)] += 1
            if d["sweep"]:
                stats["line_sweep_schedules"] += 1
            elif d["fine"]:
                stats["fine_grained_schedules"] += 1
            else:
                terms.append(d["term"])
                meta.append((family, d))
    stats["wall_impl_s"] = round(time.time() - t_pool)
    t_coq = time.time()
    bad_idx = []
    for attempt in (1, 2):
        try:
            # the tag is unique per process: several C07 checks (seed runs) may share work/C07 at the same time
            bad_idx = C.coq_eval_cases("C07", "sch%d" % os.getpid(), IMPORTS, "c07_case", "check_c07", terms, shard=400, timeout=900)
            break
        except C.HarnessError as ex:
            if attempt == 2:
                chk.disagree("the model could not be evaluated on the executed schedules (coqc failed twice): %s" % str(ex)[-1500:],
                             {"kind": "model-evaluation-failed", "n_cases": len(terms), "first_case": terms[0][:2000] if terms else None})
    stats["wall_model_s"] = round(time.time() - t_coq)
    stats["wall_proofs_s"] = round(chk.proof["wall_s"]) if chk.proof else -1
    for i in bad_idx[:20]:
        family, d = meta[i]
        chk.disagree("model prediction != implementation for a schedule",
                     {"family": family, "segs": d["segs"], "executed": d["ex"], "results": d["res"], "model_case": d["term"][:4000]})
    stats["model_disagreements"] = len(bad_idx)
    chk.extra["c07_stats"] = dict(stats)
    chk.extra["families"] = [f["name"] for f in fams]
    chk.extra["anchors"] = len(ANCHORS)
    chk.extra["known_trigger_classes"] = dict(KNOWN_TRIGGERS)
    chk.assumptions = [
        "atomicity: one source line touching library-global state = one action; real pre-emption can happen inside a line "
        "(bytecode granularity), the GIL / free threading are not modelled",
        "switches happen only at the %d anchor statements (located by ast + source text in the current tree)" % len(ANCHORS),
        "render / provide ids are unique (the harness derives them from thread and tree node)",
        "iteration order of the `all_reference_ids - before` set is read off the executed trace (CPython artefact)",
        "a failed render's own leftovers (C06) are not C07's concern: residue is compared with the union of the solo residues",
    ]
    return chk.finish(
        rule="2 threads: every schedule X^i Y^j X* Y* (<= 2 pre-emptions; thorough adds X^i Y^j X^k Y* X*) over the anchor statements, "
             "both orders, for %d task/configuration families (id-keyed tables, provide+inject, failing render inside a provide body, "
             "template cache of size 1/2 hit/miss/evict, first access of .media, first compile); 3 threads: grid of X^i Y^j Z^k; plus seeded "
             "random segment schedules.  Distinct = distinct (family, executed schedule).  Non-trivial = at least one pre-emption of a "
             "thread that still had actions to do." % len(fams),
        explanation="theorems of Props/C07.v re-checked; every executed schedule evaluated by the model (vm_compute) and compared with "
                    "outcome classes, equality with the solo outcome, action counts (label traces for every 10th case and all "
                    "interfering ones), residue, linked list both ways, dict keys, class data; interference attributed to a known class only "
                    "when that class's trigger predicate holds on the input.",
        extra_trusted=["harness/sched.py: settrace line events + baton; anchors matched by ast/source text",
                       "modelled, not verified: CPython dict/set semantics, Django template rendering, the GIL; sub-line pre-emption"])


def replay(path):
    r = json.load(open(path))
    c = r.get("case", r)
    family = c["family"]
    e = env()
    keymap = family_keymap(family)
    solo = solo_runs(e, family, keymap)
    names = [NAMES[k] for k in range(len(family["threads"]))]
    rec = run_rec(e, family, names, [tuple(s) for s in c["segs"]], keymap, fine=bool(c.get("fine")), sweep=bool(c.get("sweep")))
    print("solo:", {n: solo[n]["res"] for n in names})
    print("run: ", rec["res"])
    print("residue:", rec["obs"]["resid"], "lru:", rec["obs"]["lru"], "media:", rec["obs"]["med"])
    print("interference:", interference(family, rec, solo))
    print("triggers:", triggers(family, rec))
    for t in rec["trace"]:
        print("   ", t)
    return 0
