"""Helper of harness/c08.py: evaluate cases inside Coq like common.coq_eval_cases, but give every shard only the named
string definitions (the long generated JS/CSS literals) its own cases refer to - parsing those literals dominated the cost."""
import concurrent.futures
import os
import re

import common as C

_NAME = re.compile(r"\bg\d+\b")


def coq_eval_cases(prop, tag, imports, case_type, check_fn, terms, defs_by_name, shard=500, timeout=600):
    d = os.path.join(C.WORK, prop)
    os.makedirs(d, exist_ok=True)
    tag = "%s_p%d" % (tag, os.getpid())   # two concurrent runs of one property must not overwrite each other's shards
    paths = []
    for si in range(0, len(terms), shard):
        chunk = terms[si:si + shard]
        used = sorted({n for t in chunk for n in _NAME.findall(t)}, key=lambda n: int(n[1:]))
        path = os.path.join(d, "%s_%d.v" % (tag, si // shard))
        with open(path, "w") as f:
            f.write(imports + "\n" + "\n".join(defs_by_name[n] for n in used) + "\n")
            f.write("Definition cases : list (%s) :=\n [ " % case_type)
            f.write("\n ; ".join(chunk))
            f.write("\n ].\n")
            f.write("Eval vm_compute in (bad_indices (%s) cases).\n" % check_fn)
        paths.append((si, path))
    bad = []
    try:
        with concurrent.futures.ThreadPoolExecutor(max_workers=C.NCPU) as ex:
            futs = {ex.submit(C._coqc_file, p, timeout): (si, p) for si, p in paths}
            for fu in concurrent.futures.as_completed(futs):
                si, p = futs[fu]
                rc, out = fu.result()
                if rc != 0:
                    raise C.HarnessError("coqc failed on %s (rc=%d):\n%s" % (p, rc, out[-3000:]))
                bad.extend(si + i for i in C.parse_bad(out))
    finally:
        for si, p in paths:
            base = p[:-2]
            for ext in (".v", ".vo", ".vok", ".vos", ".glob"):
                try:
                    os.remove(base + ext)
                except FileNotFoundError:
                    pass
            try:
                os.remove(os.path.join(os.path.dirname(p), "." + os.path.basename(base) + ".aux"))
            except FileNotFoundError:
                pass
    return sorted(bad)
