"""coq/Gen/C09.v: pattern strings and constants of the current sources that Lexer/Model.v was written for.

An edit of Django's tag_re pattern, of the delimiters, of the take-until patterns of _detailed_tag_parser or a
different str.isspace set breaks the `*_anchor` Examples of coq/Lexer/Wf.v (a proof obligation of C09).
"""
import common as C
from gen_constants import generator


@generator
def gen_C09():
    from django.template import base
    from django_components.util import template_parser as tp
    out = []
    out.append("Definition tag_re_pattern : str := %s." % C.cstr(base.tag_re.pattern))
    delims = [base.BLOCK_TAG_START, base.BLOCK_TAG_END, base.VARIABLE_TAG_START, base.VARIABLE_TAG_END,
              base.COMMENT_TAG_START, base.COMMENT_TAG_END]
    out.append("Definition tag_delims : list str := [%s]." % "; ".join(C.cstr(d) for d in delims))
    pats = [tp._compile_take_until_pattern("'", True).pattern,
            tp._compile_take_until_pattern('"', True).pattern,
            tp._compile_take_until_pattern("'\"%", False).pattern]
    out.append("Definition take_until_patterns : list str := [%s]." % "; ".join(C.cstr(p) for p in pats))
    # the call sites of take_until_any / the stop-character tuples inside _detailed_tag_parser, as written in the source
    import ast
    import inspect
    import textwrap
    fn = ast.parse(textwrap.dedent(inspect.getsource(tp._detailed_tag_parser))).body[0]
    calls, consts = [], []
    for node in ast.walk(fn):
        if isinstance(node, ast.Call) and isinstance(node.func, ast.Name) and node.func.id == "take_until_any":
            calls.append((node.lineno, node.col_offset, ast.unparse(node)))
        if isinstance(node, ast.Assign) and len(node.targets) == 1 and isinstance(node.targets[0], ast.Name) \
                and node.targets[0].id in ("QUOTE_CHARS", "QUOTE_OR_PERCENT"):
            consts.append((node.lineno, node.targets[0].id + " = " + ast.unparse(node.value)))
    out.append("Definition take_until_calls : list str := [%s]." % "; ".join(C.cstr(c) for _, _, c in sorted(calls)))
    out.append("Definition scan_stop_chars : list str := [%s]." % "; ".join(C.cstr(c) for _, c in sorted(consts)))
    sp = [c for c in range(0x110000) if chr(c).isspace()]
    out.append("Definition py_space_chars : list N := [%s]%%N." % "; ".join(str(c) for c in sp))
    tt = base.TokenType
    out.append("Definition token_type_values : list N := [%s]%%N." % "; ".join(
        str(v.value) for v in (tt.TEXT, tt.VAR, tt.BLOCK, tt.COMMENT)))
    return "\n".join(out) + "\n"
