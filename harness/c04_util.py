"""C04 helpers: page-program generator, implementation runners, canonicalisers, Coq printers."""
import base64
import html as htmllib
import json
import re
import urllib.parse

import common as C
from common import clist, copt, cstr

# ------------------------------------------------------------------------------------------------
# Coq printers
# ------------------------------------------------------------------------------------------------


def b(x):
    return x if isinstance(x, bytes) else x.encode("utf-8")


def c_url(u):
    if u[0] == "cache":
        return "(UCache %s %s %s)" % (cstr(b(u[1])), "KJs" if u[2] == "js" else "KCss", copt(u[3], lambda s: cstr(b(s))))
    return "(UMedia %s)" % cstr(b(u[1]))


def c_mtag(t):
    return "(%s, %s)" % (copt(t[0], c_url), cstr(b(t[1])))


def c_kind(k):
    return "KJs" if k == "js" else "KCss"


def c_tok(t):
    if t[0] == "core":
        return "TCore"
    if t[0] == "exec":
        e = t[1]
        return "(TExec {| x_loaded_css := %s; x_loaded_js := %s; x_toload_css := %s; x_toload_js := %s |})" % (
            clist([c_url(u) for u in e["loadedCssUrls"]]), clist([c_url(u) for u in e["loadedJsUrls"]]),
            clist([c_mtag(x) for x in e["toLoadCssTags"]]), clist([c_mtag(x) for x in e["toLoadJsTags"]]))
    if t[0] == "media":
        return "(TMedia %s %s)" % (c_kind(t[1]), c_mtag(t[2]))
    return "(TInline %s %s)" % (c_kind(t[1]), cstr(b(t[2])))


def c_cinfo(ci):
    return "{| ci_js := %s; ci_css := %s; ci_mjs := %s; ci_mcss := %s |}" % (
        copt(ci["js"], lambda s: cstr(b(s))), copt(ci["css"], lambda s: cstr(b(s))),
        clist([c_mtag(t) for t in ci["mjs"]]), clist([c_mtag(t) for t in ci["mcss"]]))


def c_table(tbl):
    return clist(["(%s, %s)" % (cstr(b(h)), c_cinfo(ci)) for h, ci in tbl])


def c_rtype(t):
    return "Document" if t == "document" else "Fragment"


def c_outcome(o):
    if o[0] == "ok":
        return "(OOk %s %s %s)" % (cstr(o[1]), clist([c_tok(t) for t in o[2]]), clist([c_tok(t) for t in o[3]]))
    if o[0] == "malformed":
        return "OMalformed"
    if o[0] == "keyerror":
        return "(OKeyError %s)" % cstr(b(o[1]))
    if o[0] == "missingurl":
        return "OMissingUrl"
    if o[0] == "other":
        return "OOther"
    raise ValueError(o)


# ------------------------------------------------------------------------------------------------
# canonicalisers (implementation output -> structured tokens)
# ------------------------------------------------------------------------------------------------
_cache_prefix = [None]


def cache_prefix():
    if _cache_prefix[0] is None:
        from django.urls import reverse
        u = reverse("components_cached_script", kwargs={"comp_cls_hash": "X", "script_type": "js"})
        assert u.endswith("X.js"), u
        _cache_prefix[0] = u[:-4]
    return _cache_prefix[0]


def canon_url(u):
    """URL text as found in a tag / in the JSON -> ('cache', hash, kind, input) | ('media', text)."""
    u = htmllib.unescape(u)
    p = cache_prefix()
    if u.startswith(p):
        parts = urllib.parse.unquote(u[len(p):]).split(".")
        if len(parts) == 2 and parts[1] in ("js", "css"):
            return ("cache", parts[0], parts[1], None)
        if len(parts) == 3 and parts[2] in ("js", "css"):
            return ("cache", parts[0], parts[2], parts[1])
    return ("media", u)


_script_default = re.compile(r'<script src="([^"]+)"></script>')
_link_default = re.compile(r'<link href="([^"]+)" media="([^"]*)" rel="stylesheet">')


def canon_tag(kind, tag):
    tag = str(tag)
    if kind == "js":
        m = _script_default.fullmatch(tag)
        if m:
            return (canon_url(m.group(1)), "")
        m = re.search(r'src="([^"]+)"', tag.strip())
    else:
        m = _link_default.fullmatch(tag)
        if m:
            return (canon_url(m.group(1)), m.group(2))
        m = re.search(r'href="([^"]+)"', tag.strip())
    url = m.group(1) if m else None
    if url is not None and not url.strip():
        url = None
    return (canon_url(url) if url is not None else None, "raw:" + tag)


_tok_re = re.compile(r"<script([^>]*)>(.*?)</script>|<style([^>]*)>(.*?)</style>|<link([^>]*)>", re.S)


def core_tag():
    from django.forms import Media
    from django.templatetags.static import static
    return Media(js=[static("django_components/django_components.min.js")]).render_js()[0]


def decode_exec(body):
    d = json.loads(body)
    if sorted(d.keys()) != ["loadedCssUrls", "loadedJsUrls", "toLoadCssTags", "toLoadJsTags"]:
        raise ValueError("unexpected keys in exec script: %r" % sorted(d.keys()))

    def dec(x):
        return base64.b64decode(x).decode("utf-8")
    return {"loadedCssUrls": [canon_url(dec(x)) for x in d["loadedCssUrls"]],
            "loadedJsUrls": [canon_url(dec(x)) for x in d["loadedJsUrls"]],
            "toLoadCssTags": [canon_tag("css", dec(x)) for x in d["toLoadCssTags"]],
            "toLoadJsTags": [canon_tag("js", dec(x)) for x in d["toLoadJsTags"]],
            "raw": {k: [dec(x) for x in v] for k, v in d.items()}}


def tokenize(s):
    """Concatenated tag string -> token list; raises ValueError when something is left over."""
    if isinstance(s, bytes):
        s = s.decode("utf-8")
    toks, pos = [], 0
    core = core_tag()
    for m in _tok_re.finditer(s):
        if m.start() != pos:
            raise ValueError("unparsed text %r" % s[pos:m.start()])
        pos = m.end()
        whole = m.group(0)
        if m.group(1) is not None:
            attrs, body = m.group(1), m.group(2)
            if whole == core:
                toks.append(("core",))
            elif attrs == ' type="application/json" data-djc':
                toks.append(("exec", decode_exec(body)))
            elif attrs == "":
                toks.append(("inline", "js", body))
            else:
                toks.append(("media", "js", canon_tag("js", whole)))
        elif m.group(3) is not None:
            if m.group(3) != "":
                raise ValueError("style tag with attributes: %r" % whole)
            toks.append(("inline", "css", m.group(4)))
        else:
            toks.append(("media", "css", canon_tag("css", whole)))
    if pos != len(s):
        raise ValueError("unparsed text %r" % s[pos:])
    return toks


def find_elements(html):
    """All script/style/link elements of a final document, in order (tokens as above)."""
    if isinstance(html, bytes):
        html = html.decode("utf-8")
    return tokenize("".join(m.group(0) for m in _tok_re.finditer(html)))


# ------------------------------------------------------------------------------------------------
# class table as the pipeline sees it
# ------------------------------------------------------------------------------------------------
def nonempty_str(x):
    return x is not None and bool(x.strip())


def cinfo_of(cls):
    import warnings
    with warnings.catch_warnings():
        warnings.simplefilter("ignore")
        media = cls().media
        mjs = [canon_tag("js", t) for t in media.render_js()]
        mcss = [canon_tag("css", t) for t in media.render_css()]
    return {"js": cls.js.strip() if nonempty_str(cls.js) else None,
            "css": cls.css.strip() if nonempty_str(cls.css) else None,
            "mjs": mjs, "mcss": mcss}


def run_process(content, typ):
    """_process_dep_declarations -> canonical outcome."""
    from django_components.dependencies import _process_dep_declarations
    try:
        c2, js_b, css_b = _process_dep_declarations(b(content), typ)
    except RuntimeError as e:
        msg = str(e)
        if msg.startswith("Malformed dependencies data"):
            return ("malformed",), None, None
        if "is missing a value for attribute" in msg:
            return ("missingurl",), None, None
        raise
    except KeyError as e:
        return ("keyerror", e.args[0]), None, None
    except Exception as e:  # noqa - anything else is outside the model: reported as a disagreement / oracle failure
        return ("other", "%s: %s" % (type(e).__name__, str(e)[:200])), None, None
    return ("ok", c2, tokenize(js_b), tokenize(css_b)), js_b, css_b


# ------------------------------------------------------------------------------------------------
# page programs
# ------------------------------------------------------------------------------------------------
NAMES_ASCII = ["Card", "_x1", "A_b_9", "T", "Lst__", "zZ0"]
NAMES_UNI = ["Кнопка", "Bouton_é", "按鈕", "ǅx", "a\U0001d400", "µm", "Käse"]
JS_FILES = ["s/a.js", "s/b.js", "/abs/c.js", "https://cdn.x/d.js", "s/é.js", "s/q&r.js", "s/e.js"]
CSS_FILES = ["s/a.css", "s/b.css", "/abs/c.css", "https://cdn.x/d.css", "s/ü.css", "s/e.css"]
_prog_counter = [0]


def fake_module(name):
    """Classes made with type() need their __module__ in sys.modules (component_media looks up its __file__)."""
    import sys
    import types
    if name not in sys.modules:
        m = types.ModuleType(name)
        m.__file__ = None
        sys.modules[name] = m
    return name


def gen_class(rng, i, ncls, names_used, allow_ph, uni):
    pool = NAMES_UNI if (uni and rng.random() < 0.6) else NAMES_ASCII
    name = rng.choice(pool)
    while name in names_used:
        name = name + rng.choice("xyz_7")
    names_used.add(name)
    c = {"name": name, "base": None, "js": None, "css": None, "mjs": [], "mcss": None, "jsdata": False, "cssdata": False}
    if i > 0 and rng.random() < 0.25:
        c["base"] = rng.randrange(i)
    c["js"] = rng.choice(["/*js%d*/" % i] * 4 + [None, None, "", "  \n"])
    c["css"] = rng.choice([".c%d{}" % i] * 3 + [None, None, None, "", " "])
    if rng.random() < 0.55:
        c["mjs"] = rng.sample(JS_FILES, rng.randint(1, 3))
        if rng.random() < 0.15:
            c["mjs"].append("TAG:" + rng.choice(JS_FILES[:3]))       # SafeString tag, custom attributes
    if rng.random() < 0.5:
        fs = rng.sample(CSS_FILES, rng.randint(1, 3))
        form = rng.random()
        if form < 0.4:
            c["mcss"] = {"all": fs}
        elif form < 0.75:
            c["mcss"] = {"all": fs[:1], "print": fs[1:] + fs[:1]} if len(fs) > 1 else {"print": fs}
        else:
            c["mcss"] = fs   # list form (django-components normalises to {"all": ...})
    c["jsdata"] = rng.random() < 0.12
    c["cssdata"] = rng.random() < 0.08
    c["root"] = rng.choice(["div", "div", "multi", "text", "bare"])
    c["tpl"] = gen_nodes(rng, [j for j in range(i + 1, ncls)], 2, in_class=True, allow_ph=allow_ph, budget=[rng.randint(0, 4)])
    return c


def gen_nodes(rng, usable, depth, in_class, allow_ph, budget, slot_ok=True):
    out = []
    n = rng.randint(0, 3)
    for _ in range(n):
        if budget[0] <= 0:
            break
        budget[0] -= 1
        r = rng.random()
        if r < 0.15:
            out.append(["t", rng.choice(["x", " y ", "<i>z</i>", "<!-- c -->", "<br/>"])])
        elif r < 0.6 and usable:
            j = rng.choice(usable)
            body = gen_nodes(rng, usable, depth - 1, in_class, allow_ph, budget, slot_ok=False) if depth > 0 and rng.random() < 0.5 else None
            out.append(["c", j, body])
        elif r < 0.72 and depth > 0:
            out.append(["for", rng.choice([0, 1, 2, 2, 3]), gen_nodes(rng, usable, depth - 1, in_class, allow_ph, budget, slot_ok=False)])
        elif r < 0.82 and depth > 0:
            out.append(["if", rng.random() < 0.5, gen_nodes(rng, usable, depth - 1, in_class, allow_ph, budget, slot_ok=False)])
        elif r < 0.9 and in_class and slot_ok and not any(x[0] == "slot" for x in out):
            out.append(["slot", gen_nodes(rng, usable, depth - 1, in_class, allow_ph, budget, slot_ok=False) if depth > 0 else []])
        elif r < 0.94 and depth > 0:
            out.append(["el", rng.choice(["span", "section"]), gen_nodes(rng, usable, depth - 1, in_class, allow_ph, budget, slot_ok=False)])
        elif allow_ph and rng.random() < 0.5:
            out.append([rng.choice(["jsdep", "cssdep"])])
    return out


def gen_prog(rng, uni=None, ph_in_classes=None):
    ncls = rng.randint(1, 4)
    uni = rng.random() < 0.35 if uni is None else uni
    ph_in_classes = rng.random() < 0.12 if ph_in_classes is None else ph_in_classes
    names = set()
    classes = [gen_class(rng, i, ncls, names, ph_in_classes, uni) for i in range(ncls)]
    # at most one slot per class template (already ensured at top level); page
    page = gen_nodes(rng, list(range(ncls)), 2, in_class=False, allow_ph=False, budget=[rng.randint(0, 6)])
    shell = rng.choice(["full", "full", "full", "nohead", "nobody", "none", "spaced"])
    return {"classes": classes, "page": page, "shell": shell,
            "js_ph": rng.choice([0, 0, 1, 1, 2]) if rng.random() < 0.5 else 0,
            "css_ph": rng.choice([0, 0, 1, 1, 2]) if rng.random() < 0.5 else 0}


def nodes_src(nodes, loopvar=[0]):
    s = []
    for nd in nodes:
        k = nd[0]
        if k == "t":
            s.append(nd[1])
        elif k == "c":
            if nd[2] is None:
                s.append('{%% component "c04_%d" / %%}' % nd[1])
            else:
                s.append('{%% component "c04_%d" %%}%s{%% endcomponent %%}' % (nd[1], nodes_src(nd[2])))
        elif k == "for":
            s.append("{%% for v in r%d %%}%s{%% endfor %%}" % (nd[1], nodes_src(nd[2])))
        elif k == "if":
            s.append("{%% if %s %%}%s{%% endif %%}" % ("yes" if nd[1] else "no", nodes_src(nd[2])))
        elif k == "slot":
            s.append('{%% slot "d" default %%}%s{%% endslot %%}' % nodes_src(nd[1]))
        elif k == "el":
            s.append("<%s>%s</%s>" % (nd[1], nodes_src(nd[2]), nd[1]))
        elif k == "jsdep":
            s.append("[[J]]{% component_js_dependencies %}")
        elif k == "cssdep":
            s.append("[[C]]{% component_css_dependencies %}")
        else:
            raise ValueError(nd)
    return "".join(s)


def class_tpl(i, c):
    body = nodes_src(c["tpl"])
    tag = "[[%d]]" % i
    if c["root"] == "div":
        return "<div>%s%s</div>" % (tag, body)
    if c["root"] == "multi":
        return "<p>%s</p><p>%s</p>" % (tag, body)
    if c["root"] == "text":
        return "%s%s" % (tag, body)
    return "%s%s" % (tag, body) if body else "%s<b>b</b>" % tag    # "bare": the first root element may be a child / placeholder


def page_src(prog):
    inner = nodes_src(prog["page"])
    cssph = "[[C]]{% component_css_dependencies %}" * prog["css_ph"]
    jsph = "[[J]]{% component_js_dependencies %}" * prog["js_ph"]
    sh = prog["shell"]
    if sh == "full":
        return "<!DOCTYPE html><html><head><title>t</title>%s</head><body>%s%s</body></html>" % (cssph, inner, jsph)
    if sh == "spaced":
        return "<html><head>%s</head\n><body>%s%s</body ></html>" % (cssph, inner, jsph)
    if sh == "nohead":
        return "<body>%s%s%s</body>" % (cssph, inner, jsph)
    if sh == "nobody":
        return "<html><head>%s</head>%s%s</html>" % (cssph, inner, jsph)
    return "%s%s%s" % (cssph, inner, jsph)


CTX = {"r0": [], "r1": [0], "r2": [0, 1], "r3": [0, 1, 2], "yes": True, "no": False}


class Built:
    """Component classes of a program, registered under c04_<i>; use as a context manager."""

    def __init__(self, prog):
        from django.utils.safestring import mark_safe
        from django_components import Component, registry
        self.prog, self.registry = prog, registry
        _prog_counter[0] += 1
        self.n = _prog_counter[0]
        fake_module("verif_c04_p%d" % self.n)
        self.classes = []
        for i, c in enumerate(prog["classes"]):
            base = self.classes[c["base"]] if c["base"] is not None else Component
            attrs = {"template": class_tpl(i, c), "__module__": "verif_c04_p%d" % self.n}
            if c["js"] is not None or c["base"] is None:
                attrs["js"] = c["js"]
            if c["css"] is not None or c["base"] is None:
                attrs["css"] = c["css"]
            if c["mjs"] or c["mcss"] is not None:
                m = {}
                if c["mjs"]:
                    m["js"] = [mark_safe('<script src="%s" defer></script>' % f[4:]) if f.startswith("TAG:") else f for f in c["mjs"]]
                if c["mcss"] is not None:
                    m["css"] = c["mcss"]
                attrs["Media"] = type("Media", (), m)
            if c["jsdata"]:
                attrs["get_js_data"] = (lambda k: lambda self, *a, **kw: {"k": k})(i)
            if c["cssdata"]:
                attrs["get_css_data"] = (lambda k: lambda self, *a, **kw: {"c": k})(i)
            self.classes.append(type(c["name"], (base,), attrs))
        self.page_cls = type("C04Page", (Component,), {"template": "[[P]]" + page_src(prog), "__module__": "verif_c04_p%d" % self.n})

    def __enter__(self):
        for i, cls in enumerate(self.classes):
            self.registry.register("c04_%d" % i, cls)
        return self

    def __exit__(self, *a):
        for i, cls in enumerate(self.classes):
            try:
                self.registry.unregister("c04_%d" % i)
            except Exception:
                pass
        import sys
        sys.modules.pop("verif_c04_p%d" % self.n, None)

    # files a class declares, own + inherited (Media.extend default), as the generator wrote them
    def declared(self, i, kind):
        c = self.prog["classes"][i]
        if kind == "js":
            own = [f[4:] if f.startswith("TAG:") else f for f in c["mjs"]]
        else:
            m = c["mcss"]
            own = [] if m is None else (list(m) if isinstance(m, list) else [f for fs in m.values() for f in fs])
        inh = self.declared(c["base"], kind) if c["base"] is not None else []
        return own + inh

    def table(self, with_page):
        tbl = [(cls._class_hash, cinfo_of(cls)) for cls in self.classes]
        if with_page:
            tbl.append((self.page_cls._class_hash, cinfo_of(self.page_cls)))
        return tbl


PATHS = ["template+render_dependencies", "middleware", "Component.render", "Component.render(nodeps)+render_dependencies"]


def render_paths(bu, typ, path):
    """-> (intermediate content with markers or None, final html str)."""
    import djsetup
    from django.template import Context, Template
    from django_components import render_dependencies
    prog = bu.prog
    if path == PATHS[0]:
        djsetup.reset_ids()
        mid = Template(page_src(prog)).render(Context(dict(CTX)))
        return mid, render_dependencies(mid, typ)
    if path == PATHS[1]:
        from django.http import HttpResponse
        from django_components.dependencies import ComponentDependencyMiddleware
        djsetup.reset_ids()
        mid = Template(page_src(prog)).render(Context(dict(CTX)))
        resp = ComponentDependencyMiddleware(lambda req: HttpResponse(mid))(None)
        return mid, resp.content.decode("utf-8")
    if path == PATHS[2]:
        djsetup.reset_ids()
        return None, bu.page_cls.render(context=dict(CTX), type=typ)
    djsetup.reset_ids()
    mid = bu.page_cls.render(context=dict(CTX), render_dependencies=False)
    return mid, render_dependencies(mid, typ)


_vis = re.compile(r"\[\[(\d+|P|J|C)\]\]")


def visible(html):
    """Visible instance tags, in document order: class indices / 'P'; and the placeholder counts."""
    seq = _vis.findall(html)
    return [x if x == "P" else int(x) for x in seq if x not in ("J", "C")], seq.count("J"), seq.count("C")


_idre = re.compile(r"(data-djc-id-)(\w{6})")


def norm_ids(html):
    """Render ids -> ordinals of first appearance (ids depend on how many templates were compiled before)."""
    seen = {}
    return _idre.sub(lambda m: m.group(1) + "#%d" % seen.setdefault(m.group(2), len(seen)), html)


def first_occ(seq):
    out = []
    for x in seq:
        if x not in out:
            out.append(x)
    return out


def media_url(path):
    """What Django's Media prints for a declared path (static() without STATIC_URL = the quoted path)."""
    from django.forms import Media
    return htmllib.unescape(re.search(r'src="([^"]+)"', Media(js=[path]).render_js()[0]).group(1))
