"""C04 helpers: page-program generator, implementation runners, canonicalisers, Coq printers."""
import base64
import html as htmllib
import json
import re
import urllib.parse

import common as C
from common import clist, copt, cstr

# ------------------------------------------------------------------------------------------------
# Coq printers
# ------------------------------------------------------------------------------------------------


def b(x):
    return x if isinstance(x, bytes) else x.encode("utf-8")


def c_url(u):
    if u[0] == "cache":
        return "(UCache %s %s %s)" % (cstr(b(u[1])), "KJs" if u[2] == "js" else "KCss", copt(u[3], lambda s: cstr(b(s))))
    return "(UMedia %s)" % cstr(b(u[1]))


def c_mtag(t):
    return "(%s, %s)" % (copt(t[0], c_url), cstr(b(t[1])))


def c_kind(k):
    return "KJs" if k == "js" else "KCss"


def c_tok(t):
    if t[0] == "core":
        return "TCore"
    if t[0] == "exec":
        e = t[1]
        return "(TExec {| x_loaded_css := %s; x_loaded_js := %s; x_toload_css := %s; x_toload_js := %s |})" % (
            clist([c_url(u) for u in e["loadedCssUrls"]]), clist([c_url(u) for u in e["loadedJsUrls"]]),
            clist([c_mtag(x) for x in e["toLoadCssTags"]]), clist([c_mtag(x) for x in e["toLoadJsTags"]]))
    if t[0] == "media":
        return "(TMedia %s %s)" % (c_kind(t[1]), c_mtag(t[2]))
    return "(TInline %s %s)" % (c_kind(t[1]), cstr(b(t[2])))


def c_cinfo(ci):
    return "{| ci_js := %s; ci_css := %s; ci_mjs := %s; ci_mcss := %s |}" % (
        copt(ci["js"], lambda s: cstr(b(s))), copt(ci["css"], lambda s: cstr(b(s))),
        clist([c_mtag(t) for t in ci["mjs"]]), clist([c_mtag(t) for t in ci["mcss"]]))


def c_table(tbl):
    return clist(["(%s, %s)" % (cstr(b(h)), c_cinfo(ci)) for h, ci in tbl])


def c_rtype(t):
    return "Document" if t == "document" else "Fragment"


def c_outcome(o):
    if o[0] == "ok":
        return "(OOk %s %s %s)" % (cstr(o[1]), clist([c_tok(t) for t in o[2]]), clist([c_tok(t) for t in o[3]]))
    if o[0] == "malformed":
        return "OMalformed"
    if o[0] == "keyerror":
        return "(OKeyError %s)" % cstr(b(o[1]))
    if o[0] == "missingurl":
        return "OMissingUrl"
    if o[0] == "other":
        return "OOther"
    raise ValueError(o)


# ------------------------------------------------------------------------------------------------
# canonicalisers (implementation output -> structured tokens)
# ------------------------------------------------------------------------------------------------
_cache_prefix = [None]


def cache_prefix():
    if _cache_prefix[0] is None:
        from django.urls import reverse
        u = reverse("components_cached_script", kwargs={"comp_cls_hash": "X", "script_type": "js"})
        assert u.endswith("X.js"), u
        _cache_prefix[0] = u[:-4]
    return _cache_prefix[0]


def canon_url(u):
    """URL text as found in a tag / in the JSON -> ('cache', hash, kind, input) | ('media', text)."""
    u = htmllib.unescape(u)
    p = cache_prefix()
    if u.startswith(p):
        parts = urllib.parse.unquote(u[len(p):]).split(".")
        if len(parts) == 2 and parts[1] in ("js", "css"):
            return ("cache", parts[0], parts[1], None)
        if len(parts) == 3 and parts[2] in ("js", "css"):
            return ("cache", parts[0], parts[2], parts[1])
    return ("media", u)


_script_default = re.compile(r'<script src="([^"]+)"></script>')
_link_default = re.compile(r'<link href="([^"]+)" media="([^"]*)" rel="stylesheet">')


def canon_tag(kind, tag):
    tag = str(tag)
    if kind == "js":
        m = _script_default.fullmatch(tag)
        if m:
            return (canon_url(m.group(1)), "")
        m = re.search(r'(?<![\w-])src="([^"]+)"', tag.strip())
    else:
        m = _link_default.fullmatch(tag)
        if m:
            return (canon_url(m.group(1)), m.group(2))
        m = re.search(r'(?<![\w-])href="([^"]+)"', tag.strip())
    url = m.group(1) if m else None
    if url is not None and not url.strip():
        url = None
    return (canon_url(url) if url is not None else None, "raw:" + tag)


_tok_re = re.compile(r"<script([^>]*)>(.*?)</script>|<style([^>]*)>(.*?)</style>|<link([^>]*)>", re.S)


def core_tag():
    from django.forms import Media
    from django.templatetags.static import static
    return Media(js=[static("django_components/django_components.min.js")]).render_js()[0]


def decode_exec(body):
    d = json.loads(body)
    if sorted(d.keys()) != ["loadedCssUrls", "loadedJsUrls", "toLoadCssTags", "toLoadJsTags"]:
        raise ValueError("unexpected keys in exec script: %r" % sorted(d.keys()))

    def dec(x):
        return base64.b64decode(x).decode("utf-8")
    return {"loadedCssUrls": [canon_url(dec(x)) for x in d["loadedCssUrls"]],
            "loadedJsUrls": [canon_url(dec(x)) for x in d["loadedJsUrls"]],
            "toLoadCssTags": [canon_tag("css", dec(x)) for x in d["toLoadCssTags"]],
            "toLoadJsTags": [canon_tag("js", dec(x)) for x in d["toLoadJsTags"]],
            "raw": {k: [dec(x) for x in v] for k, v in d.items()}}


def tokenize(s):
    """Concatenated tag string -> token list; raises ValueError when something is left over."""
    if isinstance(s, bytes):
        s = s.decode("utf-8")
    toks, pos = [], 0
    core = core_tag()
    for m in _tok_re.finditer(s):
        if m.start() != pos:
            raise ValueError("unparsed text %r" % s[pos:m.start()])
        pos = m.end()
        whole = m.group(0)
        if m.group(1) is not None:
            attrs, body = m.group(1), m.group(2)
            if whole == core:
                toks.append(("core",))
            elif attrs == ' type="application/json" data-djc':
                toks.append(("exec", decode_exec(body)))
            elif attrs == "":
                toks.append(("inline", "js", body))
            else:
                toks.append(("media", "js", canon_tag("js", whole)))
        elif m.group(3) is not None:
            if m.group(3) != "":
                raise ValueError("style tag with attributes: %r" % whole)
            toks.append(("inline", "css", m.group(4)))
        else:
            toks.append(("media", "css", canon_tag("css", whole)))
    if pos != len(s):
        raise ValueError("unparsed text %r" % s[pos:])
    return toks


def find_elements(html):
    """All script/style/link elements of a final document, in order (tokens as above)."""
    if isinstance(html, bytes):
        html = html.decode("utf-8")
    return tokenize("".join(m.group(0) for m in _tok_re.finditer(html)))


# ------------------------------------------------------------------------------------------------
# class table as the pipeline sees it
# ------------------------------------------------------------------------------------------------
def nonempty_str(x):
    return x is not None and bool(x.strip())


def cinfo_of(cls):
    import warnings
    with warnings.catch_warnings():
        warnings.simplefilter("ignore")
        media = cls().media
        mjs = [canon_tag("js", t) for t in media.render_js()]
        mcss = [canon_tag("css", t) for t in media.render_css()]
    return {"js": cls.js.strip() if nonempty_str(cls.js) else None,
            "css": cls.css.strip() if nonempty_str(cls.css) else None,
            "mjs": mjs, "mcss": mcss}


def run_process(content, typ):
    """_process_dep_declarations -> canonical outcome."""
    from django_components.dependencies import _process_dep_declarations
    try:
        c2, js_b, css_b = _process_dep_declarations(b(content), typ)
    except RuntimeError as e:
        msg = str(e)
        if msg.startswith("Malformed dependencies data"):
            return ("malformed",), None, None
        if "is missing a value for attribute" in msg:
            return ("missingurl",), None, None
        raise
    except KeyError as e:
        return ("keyerror", e.args[0]), None, None
    except Exception as e:  # noqa - anything else is outside the model: reported as a disagreement / oracle failure
        return ("other", "%s: %s" % (type(e).__name__, str(e)[:200])), None, None
    return ("ok", c2, tokenize(js_b), tokenize(css_b)), js_b, css_b


# ------------------------------------------------------------------------------------------------
# page programs
# ------------------------------------------------------------------------------------------------
# A program is JSON: {"classes": [cls...], "page": nodes, "shell": ..., "js_ph": n, "css_ph": n}
#   mjs entries: "path" | "TAG:path" (SafeString <script src=path defer>) | ["raw", tag html, url] (SafeString, as written)
#   cls   = {"name", "base": i|None, "base2": i|None, "extend": absent|False|[i...], "js", "css", "mjs", "mcss", "jsdata", "cssdata",
#            "root", "tpl": nodes}
#   nodes = ["t", text] | ["c", j, body|None] | ["cf", j, [[slot, nodes, cond]...]] | ["dyn", j, body|None, "name"|"var"]
#         | ["dynf", j, [[slot, nodes, cond]...]] | ["for", n, nodes] | ["if", bool, nodes] | ["el", tag, nodes]
#         | ["slot", default nodes]  (the default slot "d") | ["nslot", name, default nodes] | ["jsdep"] | ["cssdep"]
NAMES_ASCII = ["Card", "_x1", "A_b_9", "T", "Lst__", "zZ0", "__", "_9_", "A1_2_3", "x__y__z", "K9", "_0"]
NAMES_UNI = ["Кнопка", "Bouton_é", "按鈕", "ǅx", "a\U0001d400", "µm", "Käse", "_ñ_1", "Ω9", "데이터_표"]
JS_FILES = ["s/a.js", "s/b.js", "/abs/c.js", "https://cdn.x/d.js", "s/é.js", "s/q&r.js", "s/e.js"]
CSS_FILES = ["s/a.css", "s/b.css", "/abs/c.css", "https://cdn.x/d.css", "s/ü.css", "s/e.css"]
SLOT_NAMES = ["n1", "n2"]
_prog_counter = [0]


def fake_module(name):
    """Classes made with type() need their __module__ in sys.modules (component_media looks up its __file__)."""
    import sys
    import types
    if name not in sys.modules:
        m = types.ModuleType(name)
        m.__file__ = None
        sys.modules[name] = m
    return name


def ancestors(classes, i):
    out = set()
    todo = [classes[i].get("base"), classes[i].get("base2")]
    while todo:
        b = todo.pop()
        if b is None or b in out:
            continue
        out.add(b)
        todo += [classes[b].get("base"), classes[b].get("base2")]
    return out


def gen_media(rng, c, shared):
    """Media.js / Media.css of one class; `shared` = files other classes already use (drawn with higher probability)."""
    if rng.random() < 0.6:
        pool = JS_FILES + shared["js"] * 2
        c["mjs"] = []
        for f in rng.sample(pool, rng.randint(1, 3)):
            if f not in c["mjs"]:
                c["mjs"].append(f)
        if rng.random() < 0.15:
            c["mjs"].append("TAG:" + rng.choice(JS_FILES[:3]))       # SafeString tag, custom attributes
        shared["js"] += [f for f in c["mjs"] if isinstance(f, str) and not f.startswith("TAG:")]
        if rng.random() < 0.2:
            # SafeString tags that carry a data-src attribute in front of / behind the real src (fixed 5a3b5e6)
            for f in rng.sample(["s/lz1.js", "s/lz2.js", "s/a.js", "s/b.js"], rng.randint(1, 2)):
                if f not in c["mjs"]:
                    c["mjs"].append(["raw", rng.choice(['<script data-src="lazy" src="%s"></script>', '<script src="%s" data-src="lazy"></script>',
                                                        '<script data-x-src="s/a.js" src="%s" async></script>']) % f, f])
    if rng.random() < 0.55:
        pool = CSS_FILES + shared["css"] * 2
        fs = []
        for f in rng.sample(pool, rng.randint(1, 3)):
            if f not in fs:
                fs.append(f)
        form = rng.random()
        if form < 0.3:
            c["mcss"] = {"all": fs}
        elif form < 0.5:
            c["mcss"] = {"all": fs[:1], "print": fs[1:] + fs[:1]} if len(fs) > 1 else {"print": fs}
        elif form < 0.7:
            # the same file under several media types, and a medium other classes do not use for it
            c["mcss"] = {rng.choice(["screen", "print"]): fs, rng.choice(["all", "tv"]): fs[-1:]}
        elif form < 0.8:
            c["mcss"] = {"screen": fs[:1], "print": fs[:1], "all": fs[1:]}
        else:
            c["mcss"] = fs   # list form (django-components normalises to {"all": ...})
        shared["css"] += fs
        if isinstance(c["mcss"], list) and rng.random() < 0.35:
            for f in rng.sample(["s/lz1.css", "s/lz2.css", "s/a.css"], rng.randint(1, 2)):
                if f not in c["mcss"]:
                    c["mcss"].append(["raw", '<link data-href="lazy" href="%s" rel="stylesheet">' % f, f])


def gen_class(rng, i, ncls, classes, names_used, allow_ph, uni, shared):
    pool = NAMES_UNI if (uni and rng.random() < 0.6) else NAMES_ASCII
    name = rng.choice(pool)
    while name in names_used:
        name = name + rng.choice(["x", "y", "_", "7", "__", "é" if uni else "q"])
    names_used.add(name)
    c = {"name": name, "base": None, "base2": None, "js": None, "css": None, "mjs": [], "mcss": None, "jsdata": False, "cssdata": False}
    if i > 0 and rng.random() < 0.35:
        c["base"] = rng.randrange(i)
        if i > 1 and rng.random() < 0.25:
            b2 = rng.randrange(i)
            anc1 = ancestors(classes, c["base"]) | {c["base"]}
            anc2 = ancestors(classes, b2) | {b2}
            if b2 not in anc1 and c["base"] not in anc2:
                c["base2"] = b2
    c["js"] = rng.choice(["/*js%d*/" % i] * 4 + [None, None, "", "  \n", "/*same*/"])
    c["css"] = rng.choice([".c%d{}" % i] * 3 + [None, None, None, "", " ", ".same{}"])
    if c["base"] is not None:
        # inherit the inline members more often (with two bases: from whichever base Python's MRO finds first)
        if rng.random() < (0.6 if c["base2"] is not None else 0.3):
            c["js"] = None
        if rng.random() < (0.6 if c["base2"] is not None else 0.3):
            c["css"] = None
    gen_media(rng, c, shared)
    r = rng.random()
    if r < 0.12:
        c["extend"] = False
    elif r < 0.27 and i > 0:
        c["extend"] = sorted(rng.sample(range(i), rng.randint(1, min(2, i))))
    c["jsdata"] = rng.random() < 0.15
    c["cssdata"] = rng.random() < 0.2
    c["root"] = rng.choice(["div", "div", "multi", "text", "bare"])
    if rng.random() < 0.2:
        c["root"] = rng.choice(["comment", "ws", "guard", "guard"])      # rendered, but (sometimes) without any html
    return c


def used_classes(nodes):
    out = set()
    for nd in nodes:
        if nd[0] in ("c", "dyn"):
            out.add(nd[1])
            out |= used_classes(nd[2] or [])
        elif nd[0] in ("cf", "dynf"):
            out.add(nd[1])
            for f in nd[2]:
                out |= used_classes(f[1])
        elif nd[0] in ("for", "if", "el"):
            out |= used_classes(nd[2])
        elif nd[0] == "slot":
            out |= used_classes(nd[1])
        elif nd[0] == "nslot":
            out |= used_classes(nd[2])
    return out


def class_slots(c):
    """Slot names a class template declares ('d' = the default slot)."""
    out = []

    def walk(nodes):
        for nd in nodes:
            if nd[0] == "slot":
                out.append("d")
                walk(nd[1])
            elif nd[0] == "nslot":
                out.append(nd[1])
                walk(nd[2])
            elif nd[0] in ("for", "if", "el"):
                walk(nd[2])
    walk(c.get("tpl") or [])
    return out


def gen_fills(rng, slots, usable, depth, in_class, allow_ph, budget, decl):
    names = [n for n in dict.fromkeys(slots)]
    rng.shuffle(names)
    names = names[:rng.randint(0, len(names))]
    if rng.random() < 0.15:
        names.append("zz")            # a fill for a slot the component does not have
    fills = []
    for n in names:
        fills.append([n, gen_nodes(rng, usable, depth - 1, in_class, allow_ph, budget, decl, slot_ok=False) if depth > 0 else [["t", "f"]],
                      rng.choice([None, None, None, "yes", "no"])])
    return fills


def gen_nodes(rng, usable, depth, in_class, allow_ph, budget, decl, slot_ok=True):
    """decl[j] = slot names of class j (known for every j in `usable`)."""
    out = []
    n = rng.randint(0, 3)
    for _ in range(n):
        if budget[0] <= 0:
            break
        budget[0] -= 1
        if allow_ph and rng.random() < 0.3:
            out.append([rng.choice(["jsdep", "cssdep"])])
            continue
        r = rng.random()
        if r < 0.12:
            out.append(["t", rng.choice(["x", " y ", "<i>z</i>", "<!-- c -->", "<br/>"])])
        elif r < 0.6 and usable:
            j = rng.choice(usable)
            k = rng.random()
            sub = depth > 0 and rng.random() < 0.55
            if k < 0.45:
                out.append(["c", j, gen_nodes(rng, usable, depth - 1, in_class, allow_ph, budget, decl, slot_ok=False) if sub else None])
                if decl.get("roots", {}).get(j) == "guard":
                    out[-1].append(rng.choice(["yes", "no", "no"]))
            elif k < 0.7:
                out.append(["cf", j, gen_fills(rng, decl[j], usable, depth, in_class, allow_ph, budget, decl)])
            elif k < 0.87:
                out.append(["dyn", j, gen_nodes(rng, usable, depth - 1, in_class, allow_ph, budget, decl, slot_ok=False) if sub else None,
                            rng.choice(["name", "var"])])
            else:
                out.append(["dynf", j, gen_fills(rng, decl[j], usable, depth, in_class, allow_ph, budget, decl)])
        elif r < 0.72 and depth > 0:
            out.append(["for", rng.choice([0, 0, 1, 2, 2, 3]), gen_nodes(rng, usable, depth - 1, in_class, allow_ph, budget, decl, slot_ok=False)])
        elif r < 0.82 and depth > 0:
            out.append(["if", rng.random() < 0.5, gen_nodes(rng, usable, depth - 1, in_class, allow_ph, budget, decl, slot_ok=False)])
        elif r < 0.88 and depth > 0:
            out.append(["el", rng.choice(["span", "section"]), gen_nodes(rng, usable, depth - 1, in_class, allow_ph, budget, decl, slot_ok=False)])
        elif allow_ph and rng.random() < 0.5:
            out.append([rng.choice(["jsdep", "cssdep"])])
    return out


def add_slots(rng, tpl, usable, decl, budget):
    """Insert the default slot and/or named slots into a class template (top level, or inside a loop / element / if)."""
    want = []
    if rng.random() < 0.5:
        want.append("d")
    for n in SLOT_NAMES:
        if rng.random() < 0.3:
            want.append(n)
    for n in want:
        dflt = gen_nodes(rng, usable, 1, True, False, budget, decl, slot_ok=False) if rng.random() < 0.5 else []
        node = ["slot", dflt] if n == "d" else ["nslot", n, dflt]
        w = rng.random()
        if w < 0.12:
            node = ["for", rng.choice([0, 2, 2, 3]), [node]]      # a slot in a loop: its fill is rendered n times
        elif w < 0.2:
            node = ["el", "section", [node]]
        elif w < 0.26:
            node = ["if", rng.random() < 0.6, [node]]
        tpl.insert(rng.randint(0, len(tpl)), node)


def gen_prog(rng, uni=None, ph_in_classes=None):
    ncls = rng.randint(1, 5)
    uni = rng.random() < 0.35 if uni is None else uni
    ph_in_classes = rng.random() < 0.2 if ph_in_classes is None else ph_in_classes
    names = set()
    shared = {"js": [], "css": []}
    classes = []
    for i in range(ncls):
        classes.append(gen_class(rng, i, ncls, classes, names, ph_in_classes, uni, shared))
    # templates, last class first: a class uses only classes with a higher index, whose slots are then known
    decl = {"roots": {i: c["root"] for i, c in enumerate(classes)}}
    for i in range(ncls - 1, -1, -1):
        usable = list(range(i + 1, ncls))
        budget = [rng.randint(0, 4)]
        tpl = gen_nodes(rng, usable, 2, True, ph_in_classes, budget, decl)
        add_slots(rng, tpl, usable, decl, [2])
        if classes[i]["root"] in ("comment", "ws"):
            tpl = []
        classes[i]["tpl"] = tpl
        decl[i] = class_slots(classes[i])
    # a class with bases may inherit its TEMPLATE too (tpl None): the donor is found by Python's MRO on plain stand-in classes;
    # allowed only when the donor's template uses classes with a higher index only (no recursion)
    plain = []
    for i, c in enumerate(classes):
        plain.append(type("P%d" % i, tuple(plain[b] for b in (c.get("base"), c.get("base2")) if b is not None) or (object,), {}))
    for i, c in enumerate(classes):
        if c["base"] is not None and rng.random() < 0.3:
            donor = next((plain.index(k) for k in type.mro(plain[i])[1:] if k in plain and classes[plain.index(k)]["tpl"] is not None), None)
            if donor is not None and all(j > i for j in used_classes(classes[donor]["tpl"])):
                c["tpl"] = None
    # the page may leave classes unused (registered, never rendered)
    usable = list(range(ncls))
    if ncls > 1 and rng.random() < 0.4:
        usable = sorted(rng.sample(usable, rng.randint(1, ncls - 1)))
    page = gen_nodes(rng, usable, 2, False, False, [rng.randint(0, 6)], decl)
    shell = rng.choice(["full", "full", "full", "nohead", "nobody", "none", "spaced"])
    return {"classes": classes, "page": page, "shell": shell,
            "js_ph": rng.choice([0, 0, 1, 1, 2]) if rng.random() < 0.5 else 0,
            "css_ph": rng.choice([0, 0, 1, 1, 2]) if rng.random() < 0.5 else 0}


def fills_src(fills):
    s = []
    for name, nodes, cond in fills:
        f = '{%% fill "%s" %%}%s{%% endfill %%}' % (name, nodes_src(nodes))
        s.append("{%% if %s %%}%s{%% endif %%}" % (cond, f) if cond else f)
    return "".join(s)


def nodes_src(nodes):
    s = []
    for nd in nodes:
        k = nd[0]
        if k == "t":
            s.append(nd[1])
        elif k == "c":
            show = " show=%s" % nd[3] if len(nd) > 3 and nd[3] else ""      # ["c", j, body, "yes"|"no"]: kwarg of a guard-root class
            if nd[2] is None:
                s.append('{%% component "c04_%d"%s / %%}' % (nd[1], show))
            else:
                s.append('{%% component "c04_%d"%s %%}%s{%% endcomponent %%}' % (nd[1], show, nodes_src(nd[2])))
        elif k == "cf":
            s.append('{%% component "c04_%d" %%}%s{%% endcomponent %%}' % (nd[1], fills_src(nd[2])))
        elif k == "dyn":
            target = '"c04_%d"' % nd[1] if nd[3] == "name" else "k%d" % nd[1]
            if nd[2] is None:
                s.append('[[D]]{%% component "dynamic" is=%s / %%}' % target)
            else:
                s.append('[[D]]{%% component "dynamic" is=%s %%}%s{%% endcomponent %%}' % (target, nodes_src(nd[2])))
        elif k == "dynf":
            s.append('[[D]]{%% component "dynamic" is="c04_%d" %%}%s{%% endcomponent %%}' % (nd[1], fills_src(nd[2])))
        elif k == "for":
            s.append("{%% for v in r%d %%}%s{%% endfor %%}" % (nd[1], nodes_src(nd[2])))
        elif k == "if":
            s.append("{%% if %s %%}%s{%% endif %%}" % ("yes" if nd[1] else "no", nodes_src(nd[2])))
        elif k == "slot":
            s.append('{%% slot "d" default %%}%s{%% endslot %%}' % nodes_src(nd[1]))
        elif k == "nslot":
            s.append('{%% slot "%s" %%}%s{%% endslot %%}' % (nd[1], nodes_src(nd[2])))
        elif k == "el":
            s.append("<%s>%s</%s>" % (nd[1], nodes_src(nd[2]), nd[1]))
        elif k == "jsdep":
            s.append("[[J]]{% component_js_dependencies %}")
        elif k == "cssdep":
            s.append("[[C]]{% component_css_dependencies %}")
        else:
            raise ValueError(nd)
    return "".join(s)


EMPTY_ROOTS = ("comment", "ws", "guard")
VIS = [False]     # True only during the REFERENCE rendering: components without output then print [[~cid]]


def class_tpl(i, c):
    body = nodes_src(c["tpl"])
    tag = "[[{{ cid }}]]"      # get_context_data of every generated class returns its own index
    ghost = "{% if vis %}[[~{{ cid }}]]{% endif %}"     # nothing in a real render
    # components that are rendered but produce NO html (behaviour-only template, white space, guard false)
    if c["root"] == "comment":
        return ghost + "{# behaviour only: brings js / css / Media #}"
    if c["root"] == "ws":
        return ghost + " \n\t "
    if c["root"] == "guard":
        return "{%% if show %%}<div>%s%s</div>{%% elif vis %%}[[~{{ cid }}]]{%% endif %%}" % (tag, body)
    if c["root"] == "div":
        return "<div>%s%s</div>" % (tag, body)
    if c["root"] == "multi":
        return "<p>%s</p><p>%s</p>" % (tag, body)
    if c["root"] == "text":
        return "%s%s" % (tag, body)
    return "%s%s" % (tag, body) if body else "%s<b>b</b>" % tag    # "bare": the first root element may be a child / placeholder


def shell_src(prog, inner):
    cssph = "[[C]]{% component_css_dependencies %}" * prog["css_ph"]
    jsph = "[[J]]{% component_js_dependencies %}" * prog["js_ph"]
    sh = prog["shell"]
    if sh == "full":
        return "<!DOCTYPE html><html><head><title>t</title>%s</head><body>%s%s</body></html>" % (cssph, inner, jsph)
    if sh == "spaced":
        return "<html><head>%s</head\n><body>%s%s</body ></html>" % (cssph, inner, jsph)
    if sh == "nohead":
        return "<body>%s%s%s</body>" % (cssph, inner, jsph)
    if sh == "nobody":
        return "<html><head>%s</head>%s%s</html>" % (cssph, inner, jsph)
    return "%s%s%s" % (cssph, inner, jsph)


def page_src(prog):
    return shell_src(prog, nodes_src(prog["page"]))


def has_node(prog, kinds):
    def walk(nodes):
        for nd in nodes:
            if nd[0] in kinds:
                return True
            if nd[0] in ("for", "if", "el") and walk(nd[2]):
                return True
            if nd[0] == "slot" and walk(nd[1]):
                return True
            if nd[0] == "nslot" and walk(nd[2]):
                return True
            if nd[0] in ("c", "dyn") and nd[2] and walk(nd[2]):
                return True
            if nd[0] in ("cf", "dynf") and any(walk(f[1]) for f in nd[2]):
                return True
        return False
    return walk(prog["page"]) or any(walk(c["tpl"] or []) for c in prog["classes"])


def features(prog):
    """Feature histogram keys of a program (written to the evidence)."""
    f = []
    for k, kinds in (("named-fill", ("cf", "dynf")), ("dynamic", ("dyn", "dynf")), ("named-slot", ("nslot",)), ("default-slot", ("slot",)),
                     ("loop", ("for",)), ("placeholder-in-class", ("jsdep", "cssdep"))):
        if has_node(prog, kinds):
            f.append(k)
    cs = prog["classes"]
    if any(c.get("extend") is False for c in cs):
        f.append("extend-false")
    if any(isinstance(c.get("extend"), list) for c in cs):
        f.append("extend-list")
    if any(c.get("base") is not None and cs[c["base"]].get("base") is not None for c in cs):
        f.append("chain>=3")
    if any(c.get("base2") is not None for c in cs):
        f.append("two-bases")
    if any(c.get("base2") is not None and (c["js"] is None or c["css"] is None) for c in cs):
        f.append("two-bases-inherited-inline")
    if any(c.get("tpl") is None for c in cs):
        f.append("inherited-template")
    if any(c.get("root") in EMPTY_ROOTS for c in cs):
        f.append("class-without-html-output")
    if any(isinstance(c.get("mcss"), dict) and len({x for v in c["mcss"].values() for x in v}) < sum(len(v) for v in c["mcss"].values()) for c in cs):
        f.append("css-file-under-2-media")
    if any(isinstance(x, list) for c in cs for x in list(c["mjs"]) + (c["mcss"] if isinstance(c["mcss"], list) else [])):
        f.append("data-src/data-href-tag")
    if any(c.get("cssdata") or c.get("jsdata") for c in cs):
        f.append("js/css-variables")
    if any(any(ord(ch) > 127 for ch in c["name"]) for c in cs):
        f.append("non-ascii-name")
    if any(c["name"].count("_") >= 2 or c["name"][0] == "_" for c in cs):
        f.append("underscore-name")
    if any(any(ch.isdigit() for ch in c["name"]) for c in cs):
        f.append("digit-name")
    if _has_for0(prog):
        f.append("loop-0-iterations")
    return f


def _has_for0(prog):
    def walk(nodes):
        for nd in nodes:
            if nd[0] == "for" and nd[1] == 0:
                return True
            if nd[0] in ("for", "if", "el") and walk(nd[2]):
                return True
            if nd[0] == "slot" and walk(nd[1]):
                return True
            if nd[0] == "nslot" and walk(nd[2]):
                return True
            if nd[0] in ("c", "dyn") and nd[2] and walk(nd[2]):
                return True
            if nd[0] in ("cf", "dynf") and any(walk(f[1]) for f in nd[2]):
                return True
        return False
    return walk(prog["page"]) or any(walk(c["tpl"] or []) for c in prog["classes"])


CTX = {"r0": [], "r1": [0], "r2": [0, 1], "r3": [0, 1, 2], "yes": True, "no": False}


class Built:
    """Component classes of a program, registered under c04_<i>; use as a context manager."""

    def __init__(self, prog):
        from django.utils.safestring import mark_safe
        from django_components import Component, registry
        self.prog, self.registry = prog, registry
        _prog_counter[0] += 1
        self.n = _prog_counter[0]
        mod = fake_module("verif_c04_p%d" % self.n)
        self.classes = []
        inst = self.inst = []     # one entry per component instance that was created (get_context_data call), independent of markers

        def gcd(k):
            def get_context_data(self_, *a, show=True, **kw):
                inst.append(k)
                return {"cid": k, "show": show, "vis": VIS[0]}
            return get_context_data
        for i, c in enumerate(prog["classes"]):
            bases = tuple(self.classes[b] for b in (c.get("base"), c.get("base2")) if b is not None) or (Component,)
            attrs = {"__module__": mod, "get_context_data": gcd(i)}
            if c.get("tpl") is not None:
                attrs["template"] = class_tpl(i, c)
            if c["js"] is not None or c.get("base") is None:
                attrs["js"] = c["js"]
            if c["css"] is not None or c.get("base") is None:
                attrs["css"] = c["css"]
            if c["mjs"] or c["mcss"] is not None or "extend" in c:
                m = {}
                if c["mjs"]:
                    m["js"] = [mark_safe(f[1]) if isinstance(f, list) else
                               mark_safe('<script src="%s" defer></script>' % f[4:]) if f.startswith("TAG:") else f for f in c["mjs"]]
                if c["mcss"] is not None:
                    m["css"] = [mark_safe(f[1]) if isinstance(f, list) else f for f in c["mcss"]] if isinstance(c["mcss"], list) else c["mcss"]
                if "extend" in c:
                    m["extend"] = c["extend"] if c["extend"] is False else [self.classes[b] for b in c["extend"]]
                attrs["Media"] = type("Media", (), m)
            if c["jsdata"]:
                attrs["get_js_data"] = (lambda k: lambda self, *a, **kw: {"k": k, "n": len(inst)})(i)
            if c["cssdata"]:
                attrs["get_css_data"] = (lambda k: lambda self, *a, **kw: {"c": k, "n": len(inst)})(i)
            self.classes.append(type(c["name"], bases, attrs))
        self.page_cls = type("C04Page", (Component,), {"template": "[[P]]" + page_src(prog), "__module__": mod, "get_context_data": gcd("P")})
        # the same page with its content handed in from Python as a slot
        self.page2_cls = type("C04Page2", (Component,), {"template": "[[P]]" + shell_src(prog, '{% slot "body" default / %}'), "__module__": mod,
                                                         "get_context_data": gcd("P")})
        self._ref = False
        self.ctx = dict(CTX)
        for i, cls in enumerate(self.classes):
            self.ctx["k%d" % i] = cls

    def __enter__(self):
        for i, cls in enumerate(self.classes):
            self.registry.register("c04_%d" % i, cls)
        return self

    def __exit__(self, *a):
        for i, cls in enumerate(self.classes):
            try:
                self.registry.unregister("c04_%d" % i)
            except Exception:
                pass
        import sys
        sys.modules.pop("verif_c04_p%d" % self.n, None)

    def has_ghosts(self):
        """Can some generated class be rendered without producing any html?"""
        return any(c.get("root") in EMPTY_ROOTS for c in self.prog["classes"])

    def reference(self):
        """Instances of the page content in document order, as [(class index | 'D', produces html?)]: read from a REFERENCE
        rendering of the same page in which components without output print [[~cid]] (plain template render, nothing of the
        dependency machinery is consulted). None when no class of the program can render to nothing."""
        if self._ref is False:
            self._ref = None
            if self.has_ghosts():
                from django.template import Context, Template
                VIS[0], n0 = True, len(self.inst)
                try:
                    html = Template(nodes_src(self.prog["page"])).render(Context(dict(self.ctx)))
                finally:
                    VIS[0] = False
                    del self.inst[n0:]
                self._ref = [("D", True) if x == "D" else (int(x.lstrip("~")), not x.startswith("~"))
                             for x in _vis_ref.findall(html) if x not in ("J", "C", "P")]
        return self._ref

    # inline js / css of a class by PYTHON'S OWN attribute rule: the value set by the first class of type.mro() that sets
    # one (None = not set), computed from the generated program - never read from Component.js / Component.css
    def inline(self, cls, kind):
        for k in type.mro(cls):
            if k in self.classes:
                v = self.prog["classes"][self.classes.index(k)][kind]
                if v is not None:
                    return v.strip() if nonempty_str(v) else None
        return None

    def clsof(self, x):
        if x == "P":
            return self.page_cls
        if x == "D":
            from django_components import DynamicComponent
            return DynamicComponent
        return self.classes[x]

    # files a class delivers: its own Media plus the Media of the classes Media.extend selects (documented semantics:
    # True/absent = all bases, False = none, list = exactly those classes), as the generator wrote them
    def declared(self, i, kind, _seen=None):
        c = self.prog["classes"][i]
        if kind == "js":
            own = [f[2] if isinstance(f, list) else f[4:] if f.startswith("TAG:") else f for f in c["mjs"]]   # ["raw", tag html, url]
        else:
            m = c["mcss"]
            own = [] if m is None else ([f[2] if isinstance(f, list) else f for f in m] if isinstance(m, list) else [f for fs in m.values() for f in fs])
        ext = c.get("extend", True)
        if ext is False:
            sel = []
        elif ext is True:
            sel = [b for b in (c.get("base"), c.get("base2")) if b is not None]
        else:
            sel = list(ext)
        out = list(own)
        for b in sel:
            out += self.declared(b, kind)
        return out

    def table(self, with_page):
        from django_components import DynamicComponent
        if getattr(self, "_tbl", None) is None:
            self._tbl = {}
        if with_page in self._tbl:
            return self._tbl[with_page]
        self._tbl[with_page] = tbl = self._table(with_page)
        return tbl

    def _table(self, with_page):
        from django_components import DynamicComponent
        tbl = [(cls._class_hash, cinfo_of(cls)) for cls in self.classes]
        tbl.append((DynamicComponent._class_hash, cinfo_of(DynamicComponent)))
        if with_page:
            tbl.append((self.page_cls._class_hash, cinfo_of(self.page_cls)))
            tbl.append((self.page2_cls._class_hash, cinfo_of(self.page2_cls)))
        return tbl


PATHS = ["template+render_dependencies", "middleware", "Component.render", "Component.render(nodeps)+render_dependencies",
         "Component.render(slots=prerendered)", "DynamicComponent.render"]


def render_paths(bu, typ, path):
    """-> (intermediate content with markers or None, final html str)."""
    import djsetup
    from django.template import Context, Template
    from django.utils.safestring import mark_safe
    from django_components import render_dependencies
    prog = bu.prog
    djsetup.reset_ids()
    if path == PATHS[0]:
        mid = Template(page_src(prog)).render(Context(dict(bu.ctx)))
        return mid, render_dependencies(mid, typ)
    if path == PATHS[1]:
        from django.http import HttpResponse
        from django_components.dependencies import ComponentDependencyMiddleware
        mid = Template(page_src(prog)).render(Context(dict(bu.ctx)))
        resp = ComponentDependencyMiddleware(lambda req: HttpResponse(mid))(None)
        return mid, resp.content.decode("utf-8")
    if path == PATHS[2]:
        return None, bu.page_cls.render(context=dict(bu.ctx), type=typ)
    if path == PATHS[3]:
        mid = bu.page_cls.render(context=dict(bu.ctx), render_dependencies=False)
        return mid, render_dependencies(mid, typ)
    if path == PATHS[4]:
        inner = Template(nodes_src(prog["page"])).render(Context(dict(bu.ctx)))
        return None, bu.page2_cls.render(slots={"body": mark_safe(inner)}, type=typ)
    if path == PATHS[5]:
        from django_components import DynamicComponent
        return None, DynamicComponent.render(context=dict(bu.ctx), kwargs={"is": bu.page_cls}, type=typ)
    raise ValueError(path)


_vis = re.compile(r"\[\[(\d+|P|J|C|D)\]\]")
_vis_ref = re.compile(r"\[\[(~?\d+|P|J|C|D)\]\]")


def visible(html):
    """Visible instance tags, in document order: class indices / 'P' / 'D'; and the placeholder counts."""
    seq = _vis.findall(html)
    return [x if x in ("P", "D") else int(x) for x in seq if x not in ("J", "C")], seq.count("J"), seq.count("C")


_idre = re.compile(r"(data-djc-id-)(\w{6})")


def norm_ids(html):
    """Render ids -> ordinals of first appearance (ids depend on how many templates were compiled before)."""
    seen = {}
    return _idre.sub(lambda m: m.group(1) + "#%d" % seen.setdefault(m.group(2), len(seen)), html)


def first_occ(seq):
    out = []
    for x in seq:
        if x not in out:
            out.append(x)
    return out


def media_url(path):
    """What Django's Media prints for a declared path (static() without STATIC_URL = the quoted path)."""
    return htmllib.unescape(media_attr(path, "js")[5:-1])


_attr_cache = {}


def media_attr(path, kind):
    """The literal `src="..."` / `href="..."` Django's Media writes for a declared path."""
    from django.forms import Media
    key = (path, kind)
    if key not in _attr_cache:
        if kind == "js":
            _attr_cache[key] = re.search(r'src="[^"]+"', Media(js=[path]).render_js()[0]).group(0)
        else:
            _attr_cache[key] = re.search(r'href="[^"]+"', list(Media(css={"all": [path]}).render_css())[0]).group(0)
    return _attr_cache[key]


# ------------------------------------------------------------------------------------------------
# emit side: record every call of insert_component_dependencies_comment
# ------------------------------------------------------------------------------------------------
class EmitRecorder:
    """Wraps django_components.component.insert_component_dependencies_comment (the name the renderer calls)."""

    def __init__(self):
        import django_components.component as comp_mod
        self.mod = comp_mod
        self.calls = []

    def __enter__(self):
        self.orig = self.mod.insert_component_dependencies_comment
        orig, calls = self.orig, self.calls

        def wrapper(content, component_cls, component_id, js_input_hash, css_input_hash):
            out = orig(content, component_cls=component_cls, component_id=component_id, js_input_hash=js_input_hash,
                       css_input_hash=css_input_hash)
            calls.append((component_cls._class_hash, component_id, js_input_hash or "", css_input_hash or "", str(out)[:len(str(out)) - len(str(content))]))
            return out
        self.mod.insert_component_dependencies_comment = wrapper
        return self

    def __exit__(self, *a):
        self.mod.insert_component_dependencies_comment = self.orig


def cut_at_markers(mid, calls):
    """Cut the rendered content at the markers the recorded calls wrote -> (pieces [(text, part)], tail) or an error string."""
    pos = []
    for h, rid, js, css, lit in calls:
        n = mid.count(lit)
        if n != 1:
            return "marker %r written by one call occurs %d times in the rendered content" % (lit, n)
        pos.append((mid.index(lit), len(lit), (h, rid, js, css)))
    pos.sort()
    pieces, at = [], 0
    for p, ln, part in pos:
        if p < at:
            return "overlapping markers"
        pieces.append((mid[at:p], part))
        at = p + ln
    return pieces, mid[at:]


_ph_re = re.compile(r'<link name="CSS_PLACEHOLDER"((?: data-djc-(?:id|css)-\w{6}="")*)(/?)>'
                    r'|<script name="JS_PLACEHOLDER"((?: data-djc-(?:id|css)-\w{6}="")*)></script>', re.A)


def cut_at_placeholders(text):
    """Marker-free text -> ([(text, (kind, [(is_css, value)], slash))], tail), by the harness's own regex (attributes in any order;
    whether the implementation's pattern accepts that order is decided by the model, see ph_wfb)."""
    pieces, at = [], 0
    for m in _ph_re.finditer(text):
        if m.group(0).startswith("<link"):
            attrs, slash, kind = m.group(1), m.group(2) == "/", "css"
        else:
            attrs, slash, kind = m.group(3), False, "js"
        pieces.append((text[at:m.start()], (kind, [(a == "css", v) for a, v in re.findall(r"data-djc-(id|css)-(\w{6})", attrs)], slash)))
        at = m.end()
    return pieces, text[at:]


def c_part(p):
    return "(%s, %s, %s, %s)" % tuple(cstr(b(x)) for x in p)


def c_doc_case(mid, pieces, tail):
    return "(%s, %s, %s)" % (cstr(b(mid)), clist(["(%s, %s)" % (cstr(b(t)), c_part(p)) for t, p in pieces]), cstr(b(tail)))


def c_phspec(p):
    kind, attrs, slash = p
    return "{| ph_kind := %s; ph_attrl := %s; ph_slash := %s |}" % (
        c_kind(kind), clist(["(%s, %s)" % ("true" if c else "false", cstr(b(v))) for c, v in attrs]), "true" if slash else "false")


def c_page_case(typ, tbl, pieces, tail, ph, js_toks, css_toks, js_s, css_s, final_b):
    ph_t = "None" if ph is None else "(Some (%s, %s))" % (clist(["(%s, %s)" % (cstr(b(t)), c_phspec(p)) for t, p in ph[0]]), cstr(b(ph[1])))
    return "(%s, %s, (%s, %s), %s, (%s, %s), (%s, %s, %s))" % (
        c_rtype(typ), c_table(tbl), clist(["(%s, %s)" % (cstr(b(t)), c_part(p)) for t, p in pieces]), cstr(b(tail)), ph_t,
        clist([c_tok(t) for t in js_toks]), clist([c_tok(t) for t in css_toks]), cstr(js_s), cstr(css_s), cstr(final_b))


def page_diag(prop, imports, terms):
    """page_diag of the given page cases (list of bit masks), evaluated inside Coq."""
    import os
    if not terms:
        return []
    path = os.path.join(C.WORK, prop, "diag_p%d_0.v" % os.getpid())
    with open(path, "w") as f:
        f.write(imports + "\nDefinition cases : list page_case :=\n [ " + "\n ; ".join(terms) + "\n ].\n")
        f.write("Eval vm_compute in (map page_diag cases).\n")
    rc, out = C._coqc_file(path, 600)
    for ext in (".v", ".vo", ".vok", ".vos", ".glob"):
        try:
            os.remove(path[:-2] + ext)
        except FileNotFoundError:
            pass
    try:
        return C.parse_bad(out)
    except C.HarnessError:
        return []


def c_phdoc_case(text, pieces, tail):
    return "(%s, %s, %s)" % (cstr(b(text)), clist(["(%s, %s)" % (cstr(b(t)), c_phspec(p)) for t, p in pieces]), cstr(b(tail)))


# ------------------------------------------------------------------------------------------------
# evaluating several batches of cases inside Coq with ONE pool of workers (common.coq_eval_cases runs one batch at a
# time; with many small batches that leaves most of the cores idle)
# ------------------------------------------------------------------------------------------------
def eval_batches(prop, imports, batches):
    """batches = [(tag, case_type, check_fn, terms, shard, extra_defs)] -> {tag: sorted indices where check_fn is false}."""
    import concurrent.futures
    import os
    d = os.path.join(C.WORK, prop)
    os.makedirs(d, exist_ok=True)
    jobs = []
    for tag, case_type, check_fn, terms, shard, extra_defs in batches:
        for si in range(0, len(terms), shard):
            path = os.path.join(d, "%s_p%d_%d.v" % (tag, os.getpid(), si // shard))   # pid: concurrent runs must not collide
            with open(path, "w") as f:
                f.write(imports + "\n" + (extra_defs or "") + "\n")
                f.write("Definition cases : list (%s) :=\n [ " % case_type)
                f.write("\n ; ".join(terms[si:si + shard]))
                f.write("\n ].\n")
                f.write("Eval vm_compute in (bad_indices (%s) cases).\n" % check_fn)
            jobs.append((os.path.getsize(path), tag, si, path))
    jobs.sort(reverse=True)          # longest first
    bad = {b[0]: [] for b in batches}
    try:
        with concurrent.futures.ThreadPoolExecutor(max_workers=C.NCPU) as ex:
            futs = {ex.submit(C._coqc_file, path, 900): (tag, si, path) for _, tag, si, path in jobs}
            for fu in concurrent.futures.as_completed(futs):
                tag, si, path = futs[fu]
                rc, out = fu.result()
                if rc != 0:
                    raise C.HarnessError("coqc failed on %s (rc=%d):\n%s" % (path, rc, out[-3000:]))
                bad[tag].extend(si + i for i in C.parse_bad(out))
    finally:
        for _, tag, si, path in jobs:
            base = path[:-2]
            for ext in (".v", ".vo", ".vok", ".vos", ".glob"):
                try:
                    os.remove(base + ext)
                except FileNotFoundError:
                    pass
            try:
                os.remove(os.path.join(os.path.dirname(path), "." + os.path.basename(base) + ".aux"))
            except FileNotFoundError:
                pass
    return {k: sorted(v) for k, v in bad.items()}
