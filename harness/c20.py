"""C20 - autodiscovery selects exactly the public modules, with right import paths.

Model: coq/Discover/Model.v   Theorems: coq/Props/C20.v
Correspondence: generated sandboxes (a directory tree + BASE_DIR + COMPONENTS.dirs / STATICFILES_DIRS /
app_dirs + three installed apps) are built on disk under /tmp/c20/; on each one
  get_component_files(suffix) for several suffixes, get_component_dirs(True/False) and the import lookup of
  every returned dot path (importlib's PathFinder, no module is executed) are observed and compared with the
  model evaluated inside Coq (check_world).
Direct property oracle (independent of the model): the set of files the statement demands is computed from
the tree with os.walk; every returned .py entry must be the file Python's finder locates for its dot path; a
sample is really imported through autodiscover().
Known finding c20-dotted-name: decided per FILE on the input path (has_interior_dot / dotdot_class); a failure is
attributed to it only for a file of that class and only for what the finding describes (dropped by the ".." filter
in the COMPONENTS.dirs loop; returned with a dot path that does not import it).  Everything else is a VIOLATION.
"""
import builtins
import importlib
import importlib.machinery
import json
import os
import shutil
import sys
from pathlib import Path

import common as C
from common import cstr, clist, copt, cbool

IMPORTS = "From DJC Require Import Lib.Base Discover.Model."
SANDBOX = "/tmp/c20/w%d" % os.getpid()
CORPUS = os.path.join(C.VERIF, "corpus", "C20")

# installed apps of the sandbox: (AppConfig.name, directory below the sandbox, sys.path root below the sandbox)
APPS = [("c20app", "site/c20app", "site"), ("c20pkg.inner", "site/c20pkg/inner", "site"), ("papp", "proj/papp", "proj"),
        ("_c20legacy", "site/_c20legacy", "site")]      # a package name starting with "_": NOT subject to the underscore rule

T_DIR = "c20-directory-returned-as-file"
T_DOT = "c20-dotted-name"
T_MAGIC = "c20-glob-magic-in-configured-dir"
T_SEL = "c20-selection"
T_IMP = "c20-import-path"
T_ONCE = "c20-each-once"
T_EXC = "c20-unexpected-exception"
T_AUTO = "c20-autodiscover-not-every-entry"
builtins._c20_loaded = []


# ---------------------------------------------------------------------------------------------
# sandbox
# ---------------------------------------------------------------------------------------------
def _skeleton():
    """Directories/files every sandbox contains (the app packages must stay importable)."""
    return {"proj": {"papp": {"__init__.py": None}},
            "site": {"c20app": {"__init__.py": None}, "c20pkg": {"__init__.py": None, "inner": {"__init__.py": None}},
                     "_c20legacy": {"__init__.py": None}}}


def merge(a, b):
    """Overlay tree b on tree a (dicts = directories, None = file)."""
    for k, v in b.items():
        if isinstance(v, dict) and isinstance(a.get(k), dict):
            merge(a[k], v)
        elif k not in a:
            a[k] = v
    return a


def build(tree, links=None):
    if os.path.isdir(SANDBOX):
        for n in os.listdir(SANDBOX):
            p = os.path.join(SANDBOX, n)
            shutil.rmtree(p) if os.path.isdir(p) else os.remove(p)
    else:
        os.makedirs(SANDBOX)

    def rec(d, t):
        for n, sub in t.items():
            p = os.path.join(d, n)
            if sub is None:
                with open(p, "w") as f:
                    f.write("import builtins\nbuiltins._c20_loaded.append(__file__)\n" if n.endswith(".py") else "")
            else:
                os.mkdir(p)
                rec(p, sub)
    rec(SANDBOX, tree)
    # symbolic links to component directories live in <sandbox>/links/, outside every directory that is searched
    # (glob follows links; a link inside a searched directory would make one file reachable under two paths)
    if links:
        os.mkdir(os.path.join(SANDBOX, "links"))
        for name, target in links.items():
            os.symlink(os.path.join(SANDBOX, target), os.path.join(SANDBOX, "links", name))


def read_tree(d):
    """What is really on disk (so the model sees exactly the implementation's input).  Symbolic links are not part of
    the model: they are skipped here and a configured link is handed to the model as its target (entry_term)."""
    out = {}
    for e in sorted(os.scandir(d), key=lambda e: e.name):
        if e.is_symlink():
            continue
        out[e.name] = read_tree(e.path) if e.is_dir() else None
    return out


def setup_apps():
    import logging
    import djsetup
    djsetup.setup()
    logging.getLogger("django_components").setLevel(logging.ERROR)   # "expected str, bytes or os.PathLike" warnings of bad entries
    from django.apps import apps
    build(_skeleton())
    for root in ("site", "proj"):
        p = os.path.join(SANDBOX, root)
        if p not in sys.path:
            sys.path.insert(0, p)
    importlib.invalidate_caches()
    if not apps.is_installed("c20app"):
        apps.set_installed_apps([a for a, _, _ in APPS])
    for name, rel, _ in APPS:
        assert apps.get_app_config(name.split(".")[-1]).path == os.path.join(SANDBOX, rel), name


def cleanup():
    shutil.rmtree(SANDBOX, ignore_errors=True)
    try:
        os.rmdir("/tmp/c20")
    except OSError:
        pass


# ---------------------------------------------------------------------------------------------
# configuration entries.  JSON form: {"form": ..., "p": "proj/components"}
# ---------------------------------------------------------------------------------------------
def spelled_parts(e):
    """Components of the configured directory AS WRITTEN in the settings (below the sandbox): e["p"] is the canonical
    path, e["spell"] a non-canonical way to write it.  "." and ".." segments are part of the spelling."""
    parts = e["p"].split("/") if e["p"] else []
    kind, _, arg = (e.get("spell") or "").partition(":")
    if kind == "sib":                                 # proj/config/../components  (Path(__file__).parent / ".." / "components")
        parts = parts[:-1] + [arg, ".."] + parts[-1:]
    elif kind == "child":                             # proj/components/sub/..
        parts = parts + [arg, ".."]
    elif kind == "updown" and parts:                  # proj/../proj/components   (os.path.join(BASE_DIR, "..", "proj", ...))
        parts = parts[:1] + ["..", parts[0]] + parts[1:]
    elif kind == "trail":                             # proj/components/.
        parts = parts + ["."]
    if e["form"] == "dotseg" and parts:               # /R/proj/./components
        parts = parts[:-1] + [".", parts[-1]]
    return parts


def entry_value(e):
    ab = None
    if e.get("p") is not None:
        if (e.get("spell") or "").startswith("link:"):      # a symbolic link to the directory
            ab = os.path.join(SANDBOX, "links", e["spell"][5:])
        else:
            ab = os.path.join(SANDBOX, *spelled_parts(e))
    f = e["form"]
    if f in ("str", "dotseg"):
        return ab
    if f == "path":
        return Path(ab)
    if f == "slash":
        return ab + "/"
    if f == "tuple":
        return ("prefix", ab)
    if f == "tuplepath":
        return ("prefix", Path(ab))
    if f == "list":
        return ["prefix", ab]
    if f == "tuple3":
        return ("prefix", ab, "ignored")
    if f == "bad":
        return 3
    if f == "badtuple":
        return ("prefix", 3)
    if f == "rel":
        return e["p"]
    if f == "reltuple":
        return ("prefix", e["p"])
    raise ValueError(f)


def entry_term(e):
    f = e["form"]
    tup = f in ("tuple", "tuplepath", "list", "tuple3", "badtuple", "reltuple")
    if f in ("bad", "badtuple"):
        v = "PNotPath"
    elif f in ("rel", "reltuple"):
        v = "PRel"
    elif (e.get("spell") or "").startswith("link:"):
        v = "(PAbs %s)" % cpath(e["p"].split("/") if e["p"] else [])       # symlinks are outside the model: the target
    else:
        v = "(PAbs %s)" % cpath(spelled_parts(e))                           # the spelling; the model resolves it
    return "(%s %s)" % ("RTuple" if tup else "RPlain", v)


def cpath(parts):
    return clist([cstr(p) for p in parts])


def fs_term(t):
    if t is None:
        return "File"
    return "(Dir %s)" % clist(["(%s, %s)" % (cstr(n), fs_term(s)) for n, s in t.items()])


def world_term(case, tree):
    return ("{| w_root := %s; w_base := %s; w_dirs := %s; w_static := %s; w_app_dirs := %s; w_apps := %s |}" % (
        fs_term(tree), cpath(case["base"].split("/")),
        "None" if case["dirs"] is None else "(Some %s)" % clist([entry_term(e) for e in case["dirs"]]),
        clist([entry_term(e) for e in case["static"]]),
        clist([cpath([x for x in ad.split("/") if x]) for ad in case["app_dirs"]]),
        clist(["(%s, %s)" % (cstr(n), cpath(rel.split("/"))) for n, rel, _ in APPS])))


def rel_parts(p):
    return list(Path(p).relative_to(SANDBOX).parts)


def res_term(r, f):
    return "(Raise %s)" % r[1] if r[0] == "raise" else "(Ok %s)" % f(r[1])


# ---------------------------------------------------------------------------------------------
# implementation side
# ---------------------------------------------------------------------------------------------
class Unexpected(Exception):
    pass


def _call(fn):
    try:
        return ("ok", fn())
    except (ValueError, IndexError) as e:
        return ("raise", type(e).__name__)
    except Exception as e:  # noqa
        raise Unexpected("%s: %s" % (type(e).__name__, e))


class configured:
    def __init__(self, case):
        self.case = case

    def __enter__(self):
        import djsetup
        from django.conf import settings
        c = self.case
        self.old = (getattr(settings, "BASE_DIR", None), settings.STATICFILES_DIRS)
        settings.BASE_DIR = Path(SANDBOX) / c["base"]
        settings.STATICFILES_DIRS = [entry_value(e) for e in c["static"]]
        kw = {"app_dirs": list(c["app_dirs"])}
        if c["dirs"] is not None:
            kw["dirs"] = [entry_value(e) for e in c["dirs"]]
        self.cm = djsetup.components_settings(**kw)
        self.cm.__enter__()

    def __exit__(self, *a):
        from django.conf import settings
        self.cm.__exit__(*a)
        settings.BASE_DIR, settings.STATICFILES_DIRS = self.old


def find_origin(root, dotted):
    """File Python's import machinery would load for `dotted`, searching only `root` (nothing is executed)."""
    search = [root]
    parts = dotted.split(".")
    for i, part in enumerate(parts):
        if not part:
            return None
        try:
            spec = importlib.machinery.PathFinder.find_spec(part, search)
        except Exception:  # noqa
            return None
        if spec is None:
            return None
        if i == len(parts) - 1:
            return spec.origin if spec.has_location else None
        if spec.submodule_search_locations is None:
            return None
        search = list(spec.submodule_search_locations)
    return None


def observe(case, suffixes):
    """Build the sandbox, run the implementation; returns dict with everything observed."""
    from django_components.util.loader import get_component_dirs, get_component_files
    tree = merge(json.loads(json.dumps(case["tree"])), _skeleton())
    build(tree, case.get("links"))
    importlib.invalidate_caches()
    sys.path_importer_cache.clear()
    tree = read_tree(SANDBOX)
    obs = {"tree": tree, "files": [], "dirs": [], "finds": []}
    with configured(case):
        for suf in suffixes:
            r = _call(lambda: [(e.dot_path, str(e.filepath)) for e in get_component_files(suf)])
            obs["files"].append((suf, r))
        for ia in (False, True):
            r = _call(lambda: [str(p) for p in get_component_dirs(include_apps=ia)])
            obs["dirs"].append((ia, r))
    return obs


# ---------------------------------------------------------------------------------------------
# direct property oracle
# ---------------------------------------------------------------------------------------------
def sources_of(case):
    """(directory, import root, is_app) per the statement: configured dirs (+legacy/default) and app dirs.
    None when the configuration itself is invalid (relative path)."""
    base = os.path.join(SANDBOX, case["base"])
    if case["dirs"] is not None:
        ents = case["dirs"]
    elif case["static"]:
        ents = case["static"]
    else:
        ents = [{"form": "str", "p": case["base"] + "/components"}]
    dirs = []
    for e in ents:
        if e["form"] in ("rel", "reltuple"):
            return None
        if e["form"] in ("bad", "badtuple"):
            continue
        d = os.path.normpath(os.path.join(SANDBOX, e["p"]))
        if d not in dirs:
            dirs.append(d)
    src = [(d, base, False) for d in dirs]
    for name, rel, root in APPS:
        for ad in case["app_dirs"]:
            d = os.path.normpath(os.path.join(SANDBOX, rel, ad))
            if os.path.exists(d):
                src.append((d, os.path.join(SANDBOX, root), True))
    return src


def public_files(d, suffix):
    """The files the statement selects below directory d."""
    out = []
    if not os.path.isdir(d):
        return out
    for cur, dns, fns in os.walk(d):
        for fn in fns:
            full = os.path.join(cur, fn)
            parts = os.path.relpath(full, d).split(os.sep)
            if suffix and not fn.endswith(suffix):
                continue
            if any(p.startswith(".") for p in parts):
                continue
            if any(p.startswith("_") for p in parts[:-1]):
                continue
            if fn.startswith("_") and fn != "__init__.py":
                continue
            out.append(full)
    return out


def stem_of(name):
    """The name without its final suffix, pathlib's notion (PurePath.with_suffix(""), CPython 3.12)."""
    i = name.rfind(".")
    return name[:i] if 0 < i < len(name) - 1 else name


def has_interior_dot(relparts):
    """INPUT class of the recorded finding c20-dotted-name: a directory name on the file's path relative to its import
    root, or the file name without its final suffix, contains a '.'  (= Discover.Model.dotted_trigger; the two are
    compared on every generated file by check_world)."""
    return any("." in p for p in relparts[:-1]) or "." in stem_of(relparts[-1])


def dotdot_class(relparts):
    """Sub-class of the above in which the recorded finding says the file is DROPPED (COMPONENTS.dirs loop only): the
    components, joined with '.', show two consecutive dots (a component starts or ends with '.', or contains '..')."""
    return ".." in ".".join(list(relparts[:-1]) + [stem_of(relparts[-1])])


def overlapping(src):
    ds = [d for d, _, _ in src]
    for i, a in enumerate(ds):
        for j, b in enumerate(ds):
            if i != j and (a == b or b.startswith(a + os.sep)):
                return True
    return False


def oracle(chk, case, obs):
    """Evaluate the statement on the implementation's results. Returns set of trigger strings that failed."""
    failed = set()
    src = sources_of(case)
    if src is None:
        return failed
    base = os.path.join(SANDBOX, case["base"])
    outside = any(not (d == base or d.startswith(base + os.sep)) for d, _, app in src if not app)
    ovl = overlapping(src)
    for suf, r in obs["files"]:
        if r[0] != "ok":
            if not outside:
                failed.add(T_EXC)
                chk.fail(T_EXC, "get_component_files(%r) raised %s on a valid configuration" % (suf, r[1]), replay_obj(case, suf))
            continue
        # judged against the canonical tree: how a directory was spelled in the settings (a/../b, ./b, a symlink) must
        # not matter, and neither does the spelling of a returned path
        r = (r[0], [(dot, os.path.realpath(fp)) for dot, fp in r[1]])
        got = [fp for _, fp in r[1]]
        expected = []
        for d, _, _ in src:
            expected += public_files(d, suf)
        # (1) selection
        for fp in sorted(set(got) - set(expected)):
            trig = T_DIR if os.path.isdir(fp) else T_SEL
            failed.add(trig)
            chk.fail(trig, "get_component_files(%r) returned %s which is %s" % (
                suf, os.path.relpath(fp, SANDBOX), "a directory" if os.path.isdir(fp) else "not a public file with that suffix"),
                replay_obj(case, suf))
        for fp in sorted(set(expected) - set(got)):
            owners = [(d, root, app) for d, root, app in src if fp.startswith(d + os.sep)]
            d = max((d for d, _, _ in owners), key=len)
            # known finding only for: a file of the COMPONENTS.dirs loop (the app loop has no ".." filter) whose path
            # relative to BASE_DIR is in the consecutive-dots sub-class.  Decided on the input path alone.
            known_drop = all(not app and dotdot_class(os.path.relpath(fp, root).split(os.sep)) for _, root, app in owners)
            trig = T_DOT if known_drop else T_MAGIC if any(ch in d for ch in "*?[") else T_SEL
            failed.add(trig)
            chk.fail(trig, "get_component_files(%r) did not return the public file %s" % (suf, os.path.relpath(fp, SANDBOX)),
                     replay_obj(case, suf))
        # (2) each once
        if not ovl and len(set(got)) != len(got):
            failed.add(T_ONCE)
            chk.fail(T_ONCE, "get_component_files(%r) returned a file more than once" % (suf,), replay_obj(case, suf))
        # (3) the dot path is the import path of that file
        if suf == ".py":
            for dot, fp in r[1]:
                if not os.path.isfile(fp):
                    continue
                s = max(((d, root) for d, root, _ in src if fp.startswith(d + os.sep)), key=lambda x: len(x[0]), default=None)
                if s is None:
                    continue
                cands = {find_origin(root, dot) for d, root, _ in src if fp.startswith(d + os.sep)}
                if fp in {c and os.path.realpath(c) for c in cands}:
                    continue
                relp = os.path.relpath(fp, s[1]).split(os.sep)
                if has_interior_dot(relp):
                    trig = T_DOT
                elif shadowed(fp, s[1]):
                    continue        # x.py next to x/__init__.py etc.: no dotted name imports this file; the layout, not the library
                else:
                    trig = T_IMP
                failed.add(trig)
                chk.fail(trig, "dot path %r returned for %s does not import that file (Python finds %s)" % (
                    dot, os.path.relpath(fp, SANDBOX), sorted(str(c) for c in cands)), replay_obj(case, suf))
    return failed


def shadowed(fp, root):
    """No dotted name can import fp from `root` because a sibling wins at some level: a directory part m next to
    m.py / m.pyc while m/ has no __init__ (module beats namespace package), or fp = d/m.py next to a regular package
    d/m/ (package beats module).  Sourceless .pyc files count (SourcelessFileLoader)."""
    def regular(d):
        return os.path.isfile(os.path.join(d, "__init__.py")) or os.path.isfile(os.path.join(d, "__init__.pyc"))

    def module(d, m):
        return os.path.isfile(os.path.join(d, m + ".py")) or os.path.isfile(os.path.join(d, m + ".pyc"))
    parts = os.path.relpath(fp, root).split(os.sep)
    cur = root
    dirs = parts[:-1] if parts[-1] != "__init__.py" else parts[:-2]
    for m in dirs:
        if module(cur, m) and not regular(os.path.join(cur, m)):
            return True
        cur = os.path.join(cur, m)
    if parts[-1] != "__init__.py":
        return regular(os.path.join(cur, parts[-1][:-3]))
    return False


def _run_autodiscover(case, map_module=None):
    """autodiscover() on the current sandbox; returns (error or None, files executed)."""
    from django_components import autodiscover
    builtins._c20_loaded = []
    before = set(sys.modules)
    already = {getattr(m, "__file__", None) for m in list(sys.modules.values())}       # e.g. the app packages themselves
    importlib.invalidate_caches()
    err = None
    with configured(case):
        try:
            _run_autodiscover.returned = autodiscover(map_module)
        except Exception as e:  # noqa
            _run_autodiscover.returned = None
            err = "%s: %s" % (type(e).__name__, e)
    loaded = {os.path.realpath(f) for f in builtins._c20_loaded}
    for k in set(sys.modules) - before:
        del sys.modules[k]
    return err, loaded, already


def autodiscover_oracle(chk, case):
    """Really import through autodiscover(): the executed files must be exactly the public .py files.
    Files in the dotted-name input class cannot be imported by any dotted name (recorded finding): when the plain run
    fails and such files exist, the run is repeated with their dot paths neutralised (map_module) and everything
    OUTSIDE the class must still be imported - so the finding masks nothing but its own files."""
    from django_components.util.loader import get_component_files
    if any(fn.endswith(".pyc") for _, _, fns in os.walk(SANDBOX) for fn in fns):
        return True      # the generator's .pyc files are empty (only their names matter to the finder): not executable
    src = sources_of(case)

    def in_class(f):
        return any(has_interior_dot(os.path.relpath(f, root).split(os.sep)) for d, root, _ in src if f.startswith(d + os.sep))
    # files that no dotted name can import (x.py next to package x/ ...) are a property of the layout, not of the library
    expected = sorted(set(f for d, root, _ in src for f in public_files(d, ".py") if not shadowed(f, root)))
    dotted = [f for f in expected if in_class(f)]
    clean = [f for f in expected if not in_class(f)]

    def judge(err, loaded, already, want):
        loaded = loaded | (set(want) & already)
        extra_ok = all(shadowed(f, r) or in_class(f) for f in loaded - set(expected) for d, r, _ in src if f.startswith(d + os.sep))
        return err is None and set(want) <= loaded and extra_ok, sorted(loaded)

    with configured(case):
        ents = [(e.dot_path, os.path.realpath(str(e.filepath))) for e in get_component_files(".py")]

    def returned_ok(mapping=lambda n: n):
        """autodiscover() imports (and returns) one module per entry of get_component_files('.py') - no further filter.
        Judged whenever no import raised; independent of the tree walk above."""
        ret = _run_autodiscover.returned
        if ret is None or sorted(ret) == sorted(mapping(dot) for dot, _ in ents):
            return True
        missing = sorted(set(mapping(dot) for dot, _ in ents) - set(ret))
        chk.fail(T_AUTO, "autodiscover() returned %s: not one import per entry of get_component_files('.py'); not imported: %s, "
                 "not an entry: %s" % (sorted(ret), missing, sorted(set(ret) - set(mapping(dot) for dot, _ in ents))),
                 replay_obj(case, ".py", kind="autodiscover"))
        return False

    err, loaded, already = _run_autodiscover(case)
    case["_autodiscover_returned"] = _run_autodiscover.returned       # for the correspondence (Model.autodiscover)
    if not returned_ok():
        return False
    ok, shown = judge(err, loaded, already, expected)
    if ok:
        return True

    def report(trig, err, shown, want, note=""):
        chk.fail(trig, "autodiscover() %s%s; executed %s, public .py files %sare %s" % (
            "raised " + err if err else "returned", note, [os.path.relpath(f, SANDBOX) for f in shown],
            "outside the dotted-name class " if note else "", [os.path.relpath(f, SANDBOX) for f in want]),
            replay_obj(case, ".py", kind="autodiscover"))
    # second run: neutralise (map_module) the dot paths of files that no dotted name can import - the dotted-name class
    # (decided on the file path) and files shadowed by a sibling (the layout, not the library) - and demand the rest
    def unimportable(fp):
        return in_class(fp) or any(shadowed(fp, root) for d, root, _ in src if fp.startswith(d + os.sep))
    keep = {dot for dot, fp in ents if not unimportable(fp)}
    neutral = {dot for dot, fp in ents if unimportable(fp)} - keep
    if dotted:
        # the class's files exist and were not all imported: the recorded finding, reproduced on an input of its class
        report(T_DOT, err, shown, expected)
    if neutral:
        err, loaded, already = _run_autodiscover(case, lambda name: "builtins" if name in neutral else name)
        if not returned_ok(lambda name: "builtins" if name in neutral else name):
            return False
    ok, shown = judge(err, loaded, already, clean)      # (nothing to neutralise: the first run, judged on the rest)
    if not ok or not (dotted or neutral):
        report(T_IMP, err, shown, clean if (dotted or neutral) else expected,
               note=" (dot paths of dotted-name / shadowed files neutralised)" if neutral else "")
        return False
    return not dotted


def replay_obj(case, suffix, kind="files"):
    return {"kind": kind, "suffix": suffix, "case": case}


# ---------------------------------------------------------------------------------------------
# generators
# ---------------------------------------------------------------------------------------------
PLAIN_D = ["a", "b", "sub", "ui", "pkg", "c[1]"]
ODD_D = ["_p", "__pycache__", ".h", ".git", "_"]
DOT_D = ["v1.0", "x.py", "a.", "a..b", "m.js", "_v.1", "a.__init__"]
PLAIN_F = ["a.py", "b.py", "m.py", "sub.py", "__init__.py", "c.js", "t.txt", "noext", "a.pyc"]
ODD_F = ["_p.py", "__init__.js", "__main__.py", ".h.py", ".py", "_.py", "__init__.pyc", "__init__", "_x.js", ".hidden", "[x].py", "q?.py"]
DOT_F = ["my.comp.py", "a..py", "ab..cd.py", "a.__init__.py", "a.b.js", "x.min.js", "z.", "__init__.x.py", "_my.comp.py", "a.__init__.b.py"]

# candidate component directories (below the sandbox)
CAND = ["proj/components", "proj/ui/comps", "proj", "proj/papp/components", "proj/components/sub", "other/comps",
        "proj/missing", "site/c20app/components", "site/c20pkg/inner/components", "site/c20app/comps",
        "site/c20pkg/inner/ui/comps", "proj/papp/comps", "proj/_shared/components", "site/_c20legacy/components",
        "site/_c20legacy/comps"]
CFG_CAND = CAND[:7] + ["proj/_shared/components"]        # what COMPONENTS.dirs / STATICFILES_DIRS entries point at
# configured directories whose path contains glob metacharacters (must be taken literally: fix dfdce86); the sibling
# names below make a live pattern observable (c[1] would match c1, x*y would match xzy, q? would match qa)
# non-canonical spellings of a configured directory (see spelled_parts); "config"/"zz" need not exist
SPELLINGS = ["sib:config", "sib:zz", "sib:ui", "sib:components", "child:zz", "child:sub", "updown", "trail", "link"]
MAGIC = ["proj/c[1]", "proj/x*y/comps", "proj/q?"]
MAGIC_SIBLINGS = {"proj/c[1]": "proj/c1", "proj/x*y/comps": "proj/xzy/comps", "proj/q?": "proj/qa"}


def gen_tree(rng, depth, dots, odd):
    t = {}
    n = rng.choice([0, 1, 1, 2, 2, 3, 4]) if depth > 0 else rng.choice([0, 1, 2])
    for _ in range(n):
        r = rng.random()
        isdir = depth > 0 and rng.random() < 0.4
        pool = (DOT_D if isdir else DOT_F) if r < dots else (ODD_D if isdir else ODD_F) if r < dots + odd else (PLAIN_D if isdir else PLAIN_F)
        name = rng.choice(pool)
        if name in t:
            continue
        t[name] = gen_tree(rng, depth - 1, dots, odd) if isdir else None
    return t


def put(tree, relpath, sub):
    cur = tree
    parts = relpath.split("/")
    for p in parts[:-1]:
        if not isinstance(cur.get(p), dict):
            cur[p] = {}
        cur = cur[p]
    if isinstance(sub, dict) and isinstance(cur.get(parts[-1]), dict):
        merge(cur[parts[-1]], sub)
    else:
        cur[parts[-1]] = sub


def gen_case(rng, dots=0.0, odd=0.25):
    tree = _skeleton()
    # content below some candidate directories
    for cand in rng.sample(CAND, rng.randint(1, 5)):
        if cand in ("proj", "proj/missing"):
            continue
        put(tree, cand, gen_tree(rng, rng.choice([1, 2, 2, 3]), dots, odd))
    magic = rng.random() < 0.12
    if magic:
        for m in rng.sample(MAGIC, rng.randint(1, 2)):
            put(tree, m, gen_tree(rng, rng.choice([1, 2]), dots, odd))
            put(tree, MAGIC_SIBLINGS[m], gen_tree(rng, 1, dots, odd))
    mode = rng.random()
    forms_ok = ["str", "str", "path", "path", "slash", "dotseg", "tuple", "tuplepath", "list", "tuple3"]

    links = {}

    def ents(k):
        out = []
        for cand in rng.sample(CFG_CAND + CAND[:2], k):
            e = {"form": rng.choice(forms_ok), "p": cand}
            if rng.random() < 0.3:          # a non-canonical spelling of the same directory
                sp = rng.choice(SPELLINGS)
                if sp == "link":
                    sp = "link:l%d" % len(links)
                    links[sp[5:]] = cand
                e["spell"] = sp
            out.append(e)
        if magic:
            out.insert(rng.randrange(len(out) + 1), {"form": rng.choice(forms_ok), "p": rng.choice(MAGIC)})
        if rng.random() < 0.15:
            out.insert(rng.randrange(len(out) + 1), {"form": rng.choice(["bad", "badtuple"]), "p": None})
        if rng.random() < 0.05:
            out.insert(rng.randrange(len(out) + 1), {"form": rng.choice(["rel", "reltuple"]), "p": "components"})
        good = [e for e in out if e["form"] in forms_ok]
        if good and rng.random() < 0.15:
            out.append(dict(rng.choice(good), form=rng.choice(forms_ok)))     # the same directory twice
        return out
    dirs, static = None, []
    if mode < 0.6:
        dirs = ents(rng.choice([0, 1, 1, 1, 2, 2, 3]))
        if rng.random() < 0.3:
            static = ents(rng.choice([1, 2]))
    elif mode < 0.85:
        static = ents(rng.choice([1, 1, 2, 3]))
    base = "proj" if rng.random() < 0.85 else rng.choice(["proj/ui", "proj/components", "other"])
    app_dirs = rng.choice([["components"], ["components"], [], ["comps", "components"], ["ui/comps"], ["components", "missing"], [""]])
    if base != "proj":
        put(tree, base, {})
    case = {"tree": tree, "base": base, "dirs": dirs, "static": static, "app_dirs": app_dirs}
    if links:
        case["links"] = links
    return case


def small_trees():
    """Exhaustive small layer: one component dir, every pair of entries from a pool of interesting names."""
    names_f = ["a.py", "_p.py", "__init__.py", ".h.py", "c.js", "noext"]
    names_d = ["sub", "_p", ".h", "x.py"]
    inner = [{}, {"m.py": None}, {"__init__.py": None, "_q.py": None}, {"deep": {"d.py": None, ".x.py": None}}]
    for i, f1 in enumerate(names_f):
        for f2 in names_f[i:]:
            for d in names_d:
                for sub in inner:
                    t = {f1: None, f2: None, d: dict(sub)}
                    yield t


CFG_SIMPLE = {"base": "proj", "dirs": [{"form": "path", "p": "proj/components"}], "static": [], "app_dirs": ["components"]}
CFG_SPELLED = {"base": "proj", "dirs": None, "static": [{"form": "tuple", "p": "proj/components", "spell": "sib:config"}],
               "app_dirs": ["components"]}


# ---------------------------------------------------------------------------------------------
def nontrivial(obs):
    """At least one file selected AND at least one same-suffix file rejected by the underscore or hidden rule."""
    for suf, r in obs["files"]:
        if r[0] != "ok" or not r[1]:
            continue
        got = {fp for _, fp in r[1]}
        for cur, dns, fns in os.walk(SANDBOX):
            for fn in fns:
                if (not suf or fn.endswith(suf)) and os.path.join(cur, fn) not in got:
                    rel = os.path.relpath(os.path.join(cur, fn), SANDBOX).split(os.sep)
                    if any(p.startswith(("_", ".")) for p in rel):
                        return True
    return False


def case_term(case, obs):
    fq = clist(["(%s, %s)" % (copt(suf, cstr), res_term(r, lambda l: clist(
        ["(%s, %s)" % (cstr(dot), cpath(rel_parts(fp))) for dot, fp in l]))) for suf, r in obs["files"]])
    dq = clist(["(%s, %s)" % (cbool(ia), res_term(r, lambda l: clist([cpath(rel_parts(p)) for p in l]))) for ia, r in obs["dirs"]])
    iq = clist(["(%s, %s, %s)" % (cpath(root.split("/")), cstr(name), copt(o, cpath)) for root, name, o in obs["finds"]])
    tq = clist(["(%s, %s)" % (cpath(rel), cbool(b)) for rel, b in obs["triggers"]])
    aq = copt(obs.get("autodiscover"), lambda names: clist([cstr(n) for n in names]))
    return "(%s, %s, %s, %s, %s, %s)" % (world_term(case, obs["tree"]), fq, dq, iq, tq, aq)


TRIG_NAMES = DOT_F + ["a.py", "noext", "z.", ".py", ".h.py", "a.b", "..", "a.b.c", "__init__.py", "x.", ".x", "a..", "..a"]


def trigger_queries(rng, case):
    """(relative path, has_interior_dot) for files of the sandbox's source directories (relative to their import root)
    and a few synthetic names: ties the harness's known-finding trigger to Discover.Model.dotted_trigger."""
    qs = []
    for d, root, _ in (sources_of(case) or []):
        if not os.path.isdir(d):
            continue
        for cur, dns, fns in os.walk(d):
            for fn in sorted(fns):
                if len(qs) < 10:
                    rel = os.path.relpath(os.path.join(cur, fn), root).split(os.sep)
                    if ".." not in rel[:1]:
                        qs.append((rel, has_interior_dot(rel)))
    for _ in range(2):
        rel = [rng.choice(PLAIN_D + DOT_D) for _ in range(rng.randint(0, 2))] + [rng.choice(TRIG_NAMES)]
        qs.append((rel, has_interior_dot(rel)))
    return qs


def import_queries(rng, case, obs, extra=3):
    """Import lookups: every returned dot path of the .py query, plus names made from the tree."""
    qs = []
    names = set()
    for suf, r in obs["files"]:
        if suf == ".py" and r[0] == "ok":
            names |= {dot for dot, _ in r[1]}
    roots = ["proj", "site", case["base"]]
    stems = ["proj", "components", "papp", "c20app", "c20pkg", "inner", "a", "b", "sub", "m", "ui", "comps", "pkg", "x", "my", "comp", "__init__", "_shared", "_c20legacy"]
    for _ in range(extra):
        names.add(".".join(rng.choice(stems) for _ in range(rng.randint(1, 4))))
    for name in sorted(names):
        for root in sorted(set(roots)):
            if not os.path.isdir(os.path.join(SANDBOX, root)):
                continue
            o = find_origin(os.path.join(SANDBOX, root), name)
            qs.append((root, name, None if o is None else list(Path(o).relative_to(os.path.join(SANDBOX, root)).parts)))
    return qs


def underscore_ancestors(case):
    """The layout has underscore-prefixed names ABOVE a component directory (a configured dir below proj/_shared, or the app
    package _c20legacy holding an app dir): such sandboxes are always really imported with autodiscover()."""
    ents = (case["dirs"] or []) + case["static"]
    if any("/_" in "/" + (e.get("p") or "") for e in ents):
        return True
    leg = case["tree"].get("site", {}).get("_c20legacy", {})
    return any(isinstance(leg.get(ad.split("/")[0]), dict) for ad in case["app_dirs"] if ad)


def run_case(chk, case, suffixes, kind, terms, cases, do_auto=False):
    try:
        obs = observe(case, suffixes)
    except Unexpected as e:
        chk.fail(T_EXC, "unexpected exception: %s" % e, replay_obj(case, None))
        chk.count(json.dumps(case, sort_keys=True), False, kind=kind)
        return None
    failed = oracle(chk, case, obs)
    if (do_auto or underscore_ancestors(case)) and case["base"] == "proj" and sources_of(case) is not None \
            and all(r[0] == "ok" for _, r in obs["files"]):
        autodiscover_oracle(chk, case)
        obs["autodiscover"] = case.pop("_autodiscover_returned", None)
        st = chk.extra.setdefault("autodiscover_runs", {"sandboxes_really_imported": 0, "with_underscore_ancestors": 0,
                                                         "return_value_compared_with_model": 0})
        st["sandboxes_really_imported"] += 1
        st["with_underscore_ancestors"] += bool(underscore_ancestors(case))
        st["return_value_compared_with_model"] += obs["autodiscover"] is not None
    nt = nontrivial(obs)
    sample = None
    if nt and kind == "random" and len(chk.samples) < 6:
        sample = {"config": {k: case[k] for k in ("base", "dirs", "static", "app_dirs")}, "tree": obs["tree"],
                  "get_component_files": [[suf, r[0], sorted(d for d, _ in r[1]) if r[0] == "ok" else r[1]] for suf, r in obs["files"]]}
    chk.count(json.dumps(case, sort_keys=True), nt, sample=sample, kind=kind)
    obs["finds"] = import_queries(chk.rng, case, obs)
    obs["triggers"] = trigger_queries(chk.rng, case)
    terms.append(case_term(case, obs))
    cases.append(case)
    return failed


def load_corpus():
    out = []
    if os.path.isdir(CORPUS):
        for f in sorted(os.listdir(CORPUS)):
            if f.endswith(".json"):
                d = json.load(open(os.path.join(CORPUS, f)))
                out.append((f, d))
    return out


def run(tier, seed):
    import gen_constants
    gen_constants.generate(["C20"])          # literals of the modelled functions -> coq/Gen/C20.v (anchored in Props/C20.v)
    chk = C.Check("C20", tier, seed)
    chk.prove()
    thorough = tier == "thorough"
    try:
        setup_apps()
        rng = chk.rng
        terms, cases = [], []
        # ---- corpus first (direct oracle; also through the model when in its scope) ----
        for fname, d in load_corpus():
            run_case(chk, d["case"], [d.get("suffix", ".py")], "corpus", terms, cases, do_auto=d.get("kind") == "autodiscover")
        # ---- exhaustive small layer ----
        for k, t in enumerate(small_trees()):
            case = dict(CFG_SPELLED if k % 3 == 2 else CFG_SIMPLE, tree={"proj": {"components": t}, "site": {"c20app": {"components": dict(t)}}})
            run_case(chk, case, [".py", None], "exhaustive-small", terms, cases)
        # ---- seeded random ----
        n = 30000 if thorough else 2000
        for i in range(n):
            r = rng.random()
            case = gen_case(rng, dots=0.0 if r < 0.8 else 0.15, odd=0.3)
            sufs = [".py", rng.choice([None, ".js", "", "py", ".txt", ".pyc", "y", "__init__.py"])]
            run_case(chk, case, sufs, "random" if r < 0.8 else "random-dotted", terms, cases, do_auto=(i % 10 == 0))
        bad = C.coq_eval_cases("C20", "world", IMPORTS, "world_case", "check_world", terms, shard=250 if thorough else 150, timeout=1200)
        if os.environ.get("C20_DEBUG"):
            json.dump([cases[i] for i in bad], open("/tmp/c20_bad.json", "w"))
        for i in bad[:20]:
            chk.disagree("Discover model != loader.py (get_component_files / get_component_dirs / import lookup)",
                         {"kind": "world", "case": cases[i]})
    finally:
        cleanup()
    chk.assumptions = [
        "glob.iglob / os.scandir / pathlib (CPython 3.12) are modelled: `**` and `*` skip dot-names, match files and directories; "
        "glob.escape makes the configured directory literal; Path.is_file() = look the path up again",
        "Path.resolve() = lexical folding of '.'/'..' segments; symbolic links only as configured directories (<sandbox>/links/x -> dir, handed to "
        "the model as the target), none below a searched directory; names are non-empty, without '/' and NUL; the suffix has no glob metacharacters",
        "settings.BASE_DIR is set; the project root / app package parents are on sys.path (dirs: BASE_DIR = import root)",
        "import lookup = importlib.machinery.PathFinder on one root (.py, sourceless .pyc); nothing cached in sys.modules; a file shadowed by a "
        "sibling of the same name (x.py next to package x/, x/ without __init__ next to x.py) has no importing name: not judged",
        "each-once and exactness are judged for configurations whose source directories are distinct and not nested",
        "recorded finding %s: input class = some component of the file's path relative to its import root contains a '.' besides the final "
        "suffix (has_interior_dot = Discover.Model.dotted_trigger, compared on every generated file); inside the class a file may be dropped "
        "(COMPONENTS.dirs loop, consecutive dots only) or returned with a dot path that does not import it; everything else is judged" % T_DOT,
    ]
    chk.extra["known_finding_class"] = {"trigger": T_DOT, "oracle_failures_in_class": sum(1 for t, _, _ in chk.failures if t == T_DOT),
                                        "oracle_failures_outside_class": sum(1 for t, _, _ in chk.failures if t != T_DOT)}
    return chk.finish(
        rule="sandboxes = directory tree x BASE_DIR x COMPONENTS.dirs/STATICFILES_DIRS (str, Path, tuple, list, 3-tuple, duplicates, bad, relative, 30%% of the "
             "entries spelled non-canonically: a/x/../b, b/x/.., proj/../proj/b, b/., ./ segment, trailing slash, a symbolic link; "
             "directories with glob metacharacters next to the names a live pattern would match) x app_dirs x 3 installed apps (top-level, nested "
             "package, inside the project); exhaustive small layer (pairs of 6 file names x 4 dir names incl. a directory x.py x 4 sub-trees, "
             "suffixes .py and None) + %d seeded random sandboxes (20%% with dotted names), 2 suffixes each + get_component_dirs(True/False) "
             "+ import lookups of every returned dot path + the known-finding trigger on the tree's files; every 10th sandbox is really imported "
             "with autodiscover(). Non-trivial = some file selected and some same-suffix file rejected by the underscore/hidden rule. "
             "Distinct = distinct (tree, configuration)." % n,
        explanation="theorems of Props/C20.v re-checked by coqc; the model (glob walk, is_file, underscore filter, module path, '..' filter, dirs "
                    "de-duplication, app loop, import finder, known-finding trigger) is evaluated by vm_compute inside Coq on every sandbox and "
                    "compared with loader.py / importlib; an os.walk re-statement of the property and real imports act as direct oracle.",
        extra_trusted=["modelled, not verified: glob/fnmatch/pathlib/os of CPython 3.12, importlib's FileFinder precedence (package > module > namespace)",
                       "the file system (tmpfs/ext4 under /tmp/c20)"])


def replay(path):
    r = json.load(open(path))
    c = r.get("case", {})
    case = c.get("case", c)
    print(json.dumps(r, indent=1)[:4000])
    try:
        setup_apps()
        sufs = [c.get("suffix", ".py")] if "suffix" in c else [".py", None]
        obs = observe(case, sufs)
        for suf, res in obs["files"]:
            print("get_component_files(%r):" % (suf,))
            if res[0] == "ok":
                for dot, fp in sorted(res[1]):
                    print("   %-40s %s%s" % (dot, os.path.relpath(fp, SANDBOX), "   <-- directory" if os.path.isdir(fp) else ""))
            else:
                print("   raised", res[1])
        for d, _, _ in (sources_of(case) or []):
            for suf in sufs:
                print("public files with suffix %r below %s: %s" % (suf, os.path.relpath(d, SANDBOX),
                      [os.path.relpath(f, d) for f in sorted(public_files(d, suf))]))
        chk = C.Check("C20", "replay", 0)
        failed = oracle(chk, case, obs)
        if c.get("kind") == "autodiscover":
            autodiscover_oracle(chk, case)
        known = {e.get("trigger") for e in chk.known}
        for t, what, _ in chk.failures:
            print("ORACLE-FAIL [%s]%s %s" % (t, " (recorded known finding)" if t in known else "", what))
        return 1 if any(t not in known for t, _, _ in chk.failures) else 0
    finally:
        cleanup()
