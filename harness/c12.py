"""C12 - parsing any tag or template terminates with success or TemplateSyntaxError.

Model: coq/TagParse/Model.v (parse_tag, serialize, _detailed_tag_parser, is_dynamic_expression), coq/TagParse/Extra.v
(iteration counters of the three scanner loops; whole-template outcome of C09's Lexer model).
Theorems: coq/Props/C12.v
Correspondence: parse_tag(text) on every string up to a length bound over the syntax alphabet, random longer
strings, tags generated from the documented grammar and mutations of them: model result (normalized, AST,
serialisation, exception class, round trip, loop-body executions) == implementation; whole templates: model outcome
== parse_template.  Direct oracles on the implementation: exception class of parse_tag / Template(source) /
parse_template is none or TemplateSyntaxError; serialise + re-parse gives the same arguments for every input whose
parsed arguments are in documented form; loop-body executions <= 5*len+4; no input of the adversarial families
(run in a child process under a wall-clock watchdog) hangs, and wall time grows at most quadratically (x1/x2/x4).
"""
import glob
import itertools
import json
import os
import re
import sys
import time

import common as C
import c12_util as U
import c12_time as T
from common import cN, cstr, clist

DEPTH_CLASS = 100           # trigger class c12-literal-nesting-depth: bracket nesting of the input > MAX_NESTING_DEPTH
T_NEST = "c12-literal-nesting-depth"
T_CLASS = "c12-exception-class"
T_ROUND = "c12-serialize-reparse"
T_TIME = "c12-time-superquadratic"
T_HANG = "c12-hang"                     # no result within the watchdog limit on an input of a few hundred characters
T_MEM = "c12-memory"
T_STEPS = "c12-steps-superlinear"       # loop-body executions of parse_tag's three scanner loops > 5*len+4
T_DYN = "c12-dynamic-expr-backtracking"
T_SPLIT = "c12-split-contents-stopiteration"   # Django's Token.split_contents() on a `_("...` bit that never ends with `")`
IMPORTS_X = "From DJC Require Import Lib.Base TagParse.Model TagParse.Extra."
WATCHDOG_S = 5.0

CORPUS = [
    # fixed by 66ffd57: must classify quickly now
    {"kind": "time", "target": "dynamic", "text": '"' + "{{}}" * 2000 + '"|x', "trigger": T_DYN},
    # fixed by d8e2fba (MAX_NESTING_DEPTH): was RecursionError in _extract_flags -> serialize for deeply nested literals
    {"kind": "template", "source": "{% component 'x' a=" + "[" * 500 + "]" * 500 + " / %}", "trigger": T_NEST},
    {"kind": "parse_serialize", "text": "a=" + "[" * 600 + "]" * 600, "trigger": T_NEST},
    # seeded change C12a (dict nested in a dict skipped the depth check): dict-in-dict beyond the limit
    {"kind": "parse_serialize", "text": "a=" + "{k:" * 600 + "1" + "}" * 600, "trigger": T_NEST},
    {"kind": "parse_serialize", "text": "a=" + "{**" * 600 + "x" + "}" * 600, "trigger": T_NEST},
    {"kind": "parse_serialize", "text": "a=" + "[*" * 600 + "x" + "]" * 600, "trigger": T_NEST},
    # fixed by 6a8d16e: component tag_fn called Token.split_contents(), which raises StopIteration for `_("x")|filter`
    {"kind": "template", "source": "{% component 'x' a=1 _(\"b c\")|lower:'x' k=2 %}{% endcomponent %}", "trigger": T_SPLIT},
    {"kind": "template", "source": "{% component 'x' _('b')|upper / %}", "trigger": T_SPLIT},
    # seeded change C12b (lookahead appended to the escape-aware take_until pattern): an unterminated string with k backslash
    # escapes made `re` try 2^k tilings; runs in the watchdog child process
    {"kind": "time", "target": "template", "text": '{% component "files" root="C:' + "\\d" * 40 + " %}", "trigger": T_HANG},
    {"kind": "time", "target": "parse_template", "text": "{% slot '" + "\\" * 60 + " %}{% endslot %}", "trigger": T_HANG},
    {"kind": "time", "target": "detailed", "text": '{% a "' + '\\"' * 50, "trigger": T_HANG},
    # seeded change C12c (TagValuePart.serialize dropped `_( )` on a filter argument): round trip of documented tags, smallest shapes
    {"kind": "roundtrip", "text": 'component title=title|default:_("Untitled")', "trigger": T_ROUND},
    {"kind": "roundtrip", "text": "c a=[x|f:_('t'), *y] {k: v|g:_(\"u\")|h, **d} ...e|f:1 _('w')|f /", "trigger": T_ROUND},
    {"kind": "roundtrip", "text": "c [ *[ 1 , ] , ] { 'k' : [ ] , **{ } , } ...x", "trigger": T_ROUND},
    # seeded change C12e (parse_template moved inside the try of compile_nodelist whose handler reads e.token under engine.debug):
    # lexer-level errors must stay TemplateSyntaxError under Engine(debug=True) too
    {"kind": "template", "source": "{% component 'test' value=\"abc %}", "trigger": T_CLASS},
    {"kind": "template", "source": "{% slot \"content %}", "trigger": T_CLASS},
    {"kind": "template", "source": "a{% if x == 'a %}b", "trigger": T_CLASS},
    {"kind": "template", "source": "{% component \"test\" value='it's' / %}", "trigger": T_CLASS},
    {"kind": "template", "source": "{% component 'x' a=[1 / %}", "trigger": T_CLASS},
    # seeded change C12f (regex with a nested quantifier in ComponentFormatter.parse): long bare word as the first argument
    {"kind": "time", "target": "template", "text": "{% component " + "a" * 48 + " %}", "trigger": T_HANG},
    {"kind": "time", "target": "template", "text": "{% component " + "ab.cd:e-f_" * 6 + "|x=1 / %}", "trigger": T_HANG},
    {"kind": "time", "target": "template", "text": "{% xs " + "a" * 60 + " / %}", "trigger": T_HANG},
    # shapes that once looked suspicious while porting (all fine): empty quote char after `_(`, `=` first, ...
    {"kind": "parse_serialize", "text": "_(", "trigger": T_CLASS},
    {"kind": "parse_serialize", "text": "a|_(", "trigger": T_CLASS},
    {"kind": "parse_serialize", "text": "=...x", "trigger": T_CLASS},
    {"kind": "parse_serialize", "text": "{a:**{}}", "trigger": T_CLASS},
    {"kind": "parse_serialize", "text": "[*", "trigger": T_CLASS},
    {"kind": "parse_serialize", "text": "{**", "trigger": T_CLASS},
    {"kind": "parse_serialize", "text": "a=_(xabcx)", "trigger": T_CLASS},
    # the error paths named by the property's mechanism (KeyError on meta["expects_key"], IndexError on stack[-1], a lone
    # filter token at the end of the input)
    {"kind": "parse_serialize", "text": "{**x, :}", "trigger": T_CLASS},
    {"kind": "parse_serialize", "text": "a=]", "trigger": T_CLASS},
    {"kind": "parse_serialize", "text": "a=[]]", "trigger": T_CLASS},
    {"kind": "parse_serialize", "text": "a=[1]}", "trigger": T_CLASS},
    {"kind": "parse_serialize", "text": "a|", "trigger": T_CLASS},
    {"kind": "parse_serialize", "text": "a|f:", "trigger": T_CLASS},
    {"kind": "parse_serialize", "text": "a=[b|", "trigger": T_CLASS},
]


def exc_name(e):
    return type(e).__name__


class Hang(BaseException):
    """Raised by the watchdog: the property also excludes hangs, so no implementation call may run unbounded."""


class deadline:
    """deadline on the CPU time of the process (ITIMER_PROF), never on wall time: load / swapping cannot fake a hang"""
    hangs = 0

    def __init__(self, seconds=WATCHDOG_S):
        self.seconds = seconds

    def _fire(self, *a):
        deadline.hangs += 1
        raise Hang("no result after %.0f s of CPU time" % self.seconds)

    def __enter__(self):
        import signal
        if deadline.hangs >= 3:          # three calls already ran into the deadline: report, do not wait for thousands more
            raise Hang("skipped after 3 hangs")
        self.old = signal.signal(signal.SIGPROF, self._fire)
        signal.setitimer(signal.ITIMER_PROF, self.seconds)

    def __exit__(self, *a):
        import signal
        signal.setitimer(signal.ITIMER_PROF, 0)
        signal.signal(signal.SIGPROF, self.old)
        return False


def classify_trigger(text, exc=None):
    if exc == "Hang":
        return T_HANG
    if exc == "MemoryError":
        return T_MEM
    return T_NEST if U.bracket_depth(text) > DEPTH_CLASS else T_CLASS


def split_contents_stops(source):
    """Input class of T_SPLIT: some {% component ... %} token on which Django's Token.split_contents() runs off its iterator."""
    from django.template.base import TokenType
    from django_components.util.template_parser import parse_template
    try:
        tokens = parse_template(source)
    except Exception:  # noqa
        return False
    for tok in tokens:
        if tok.token_type == TokenType.BLOCK and tok.contents.split()[:1] == ["component"]:
            try:
                tok.split_contents()
            except StopIteration:
                return True
            except Exception:  # noqa
                pass
    return False


def template_trigger(source, exc):
    if "|debug=False:" in exc:          # classes of the two engines: judge the offending one
        parts = [x.split(":", 1)[1] for x in exc.split("|")]
        exc = next((x for x in parts if x not in ("ok", "TemplateSyntaxError")), parts[0])
    if exc == "StopIteration" and split_contents_stops(source):
        return T_SPLIT
    return classify_trigger(source, exc)


# ---------------------------------------------------------------------------------------------
# implementation runners
# ---------------------------------------------------------------------------------------------
def impl_parse(text):
    """parse_tag + serialize on the implementation -> dict (never raises)."""
    from django_components.util.tag_parser import parse_tag
    r = {"text": text}
    try:
        with deadline():
            n, attrs = parse_tag(text, None)
    except BaseException as e:  # noqa
        r.update(kind="err", exc=exc_name(e))
        return r
    r.update(kind="ok", normalized=n, attrs=attrs, nattrs=len(attrs))
    try:
        with deadline():
            r["ser"] = " ".join(a.serialize() for a in attrs)
        r["ser_exc"] = None
    except BaseException as e:  # noqa
        r["ser"] = None
        r["ser_exc"] = exc_name(e)
    return r


def parse_case_term(r):
    if r["kind"] == "err":
        return "(%s, OErr %s)" % (cstr(r["text"]), U.errkind(r["exc"]))
    ser = "None" if r["ser"] is None else "(Some %s)" % cstr(r["ser"])
    return "(%s, OOk %s %s %s)" % (cstr(r["text"]), cstr(r["normalized"]), clist([U.attr_term(a) for a in r["attrs"]]), ser)


def ast_plain(attrs):
    """AST without start_index, as nested tuples (iterative-safe for the depths compared here)."""
    from django_components.util.tag_parser import TagValue

    def node(v):
        if isinstance(v, TagValue):
            return ("V", tuple((p.value, p.quoted, p.spread, p.translation, p.filter) for p in v.parts))
        return ("S", v.type, v.spread, tuple(sorted(v.meta.items())), tuple(node(e) for e in v.entries))
    return tuple((a.key, node(a.value)) for a in attrs)


def roundtrip(r):
    """(ok, detail): serialise + re-parse yields the same attributes up to start_index."""
    from django_components.util.tag_parser import parse_tag
    if r["ser"] is None:
        return False, "serialize raised %s" % r["ser_exc"]
    try:
        with deadline():
            _, attrs2 = parse_tag(r["ser"], None)
    except BaseException as e:  # noqa
        return False, "re-parse of %r raised %s" % (r["ser"], exc_name(e))
    if ast_plain(attrs2) != ast_plain(r["attrs"]):
        return False, "re-parse of %r gives a different AST" % (r["ser"],)
    return True, ""


def roundtrip_class(r):
    """input class of an accepted input, decided on its parsed arguments: documented | empty-key (`=value`: key "" is dropped by
    serialize) | translation-without-quote (`_(` + non-quote) | special-char-in-token (an unquoted part that is not a plain token, e.g.
    `** {val`) | other"""
    try:
        if U.documented_ast(r["attrs"]):
            return "documented"
    except RecursionError:
        return "other"
    if U.has_empty_key(r["attrs"]):
        return "empty-key"
    if U.has_odd_translation(r["attrs"]):
        return "translation-without-quote"
    return "special-char-in-token" if U.has_special_in_token(r["attrs"]) else "other"


def engines():
    """explicit engines for both settings of `debug` (the debug branch of the patched Template.compile_nodelist reads e.token /
    builds template_debug - a different code path for every error); builtins: the component tags (default TagFormatter,
    `{% component 'x' %}`) and a second registry with the shorthand TagFormatter (`{% xs %}`)"""
    return T.make_engines()


def template_class(source):
    """exception class of Template(source) compiled under Engine(debug=True) AND Engine(debug=False): the common class, or
    `debug=True:X|debug=False:Y` when one of them is neither ok nor TemplateSyntaxError / they differ"""
    from django.template import Template
    out = []
    for dbg in (True, False):
        try:
            with deadline():
                Template(source, engine=engines()[dbg])
            out.append("ok")
        except BaseException as e:  # noqa
            out.append(exc_name(e))
    if out[0] == out[1]:
        return out[0]
    if all(o in ("ok", "TemplateSyntaxError") for o in out):
        _debug_differs.append(source[:200])
        return "TemplateSyntaxError"
    return "debug=True:%s|debug=False:%s" % tuple(out)


_debug_differs = []


ERR_STR = re.compile(r"^Unexpected end of text - unterminated (.) string$", re.S)
ERR_TAG = "Unexpected end of text - unterminated {% tag"


def impl_parse_template(source):
    """-> (Coq term of type tobs or None, class name)"""
    from django.template.exceptions import TemplateSyntaxError
    from django_components.util.template_parser import parse_template
    try:
        with deadline():
            toks = parse_template(source)
    except TemplateSyntaxError as e:
        m = ERR_STR.match(str(e))
        if m:
            return "(TErrString %s)" % cN(ord(m.group(1))), "TemplateSyntaxError"
        if str(e) == ERR_TAG:
            return "TErrTag", "TemplateSyntaxError"
        return None, "TemplateSyntaxError"
    except BaseException as e:  # noqa
        return None, exc_name(e)
    return "(TToks %s %s)" % (cN(len(toks)), cN(toks[-1].position[1] if toks else 0)), "ok"


def impl_detailed(text):
    from django_components.util.template_parser import _detailed_tag_parser
    try:
        with deadline():
            tok = _detailed_tag_parser(text, 1, 0)
    except BaseException as e:  # noqa
        return "(%s, DErr %s)" % (cstr(text), U.errkind(exc_name(e))), exc_name(e)
    if tok.position[0] != 0:
        return "(%s, DErr OtherError)" % cstr(text), "bad-start"
    return "(%s, DOk %s %s)" % (cstr(text), cstr(tok.contents), cN(tok.position[1])), "ok"


# --- loop-body executions of the three `while` loops of parse_tag (line events of the first statement of each body) ---
_steps_state = {}


def _loop_lines():
    import inspect
    from django_components.util import tag_parser as tp
    src, start = inspect.getsourcelines(tp.parse_tag)
    heads = [r"^    while not is_at_end\(\):", r"^        while len\(stack\) > 0:", r"^            while not end_of_value:"]
    out = []
    for h in heads:
        idx = [i for i, l in enumerate(src) if re.match(h, l)]
        if len(idx) != 1:
            raise C.HarnessError("parse_tag: cannot locate the loop %r (found %d)" % (h, len(idx)))
        j = idx[0] + 1
        while src[j].strip() == "" or src[j].strip().startswith("#"):
            j += 1
        out.append(start + j)
    return out


def impl_steps(text):
    """(exception class or 'ok', (attribute-loop, stack-loop, parts-loop body executions))"""
    from django_components.util import tag_parser as tp
    if "lines" not in _steps_state:
        _steps_state["lines"] = _loop_lines()
    lines = _steps_state["lines"]
    code = tp.parse_tag.__code__
    cnt = dict.fromkeys(lines, 0)

    def loc(frame, event, arg):
        if event == "line" and frame.f_lineno in cnt:
            cnt[frame.f_lineno] += 1
        return loc

    def glob_(frame, event, arg):
        return loc if frame.f_code is code else None
    old = sys.gettrace()
    try:
        with deadline():
            sys.settrace(glob_)
            try:
                tp.parse_tag(text, None)
                r = "ok"
            except Exception as e:  # noqa
                r = exc_name(e)
            finally:
                sys.settrace(old)
    except Hang:
        sys.settrace(old)
        r = "Hang"
    return r, tuple(cnt[l] for l in lines)


# ---------------------------------------------------------------------------------------------
# time / hang / memory (child process with a wall-clock watchdog, see c12_time.py)
# ---------------------------------------------------------------------------------------------
KS = [1, 2, 3, 5, 8, 12, 16, 20, 24, 28, 32, 36, 40, 50, 60]
TAG_SHAPES = ["{%% component 'x' %s / %%}", "{%% component 'x' %s %%}", "{%% slot %s %%}", "{%% html_attrs %s %%}", "{%% fill %s %%}",
              "a{%% provide 'k' %s %%}b{%% endprovide %%}"]
PUMP_ATOMS = ['"', "'", "\\", "\\\\", '\\"', "\\'", "[", "]", "{", "}", ":", ",", "|", "=", "*", "**", "...", "_(", ")", " ", "\n", "a", "k:",
              "{{", "}}", "{%", "%}", "{#", "#}", "%", "x=", "|f", ":1", "d", "é"]
PUMP_TPL = ["{% ", " %}", "{{ ", " }}", "{# ", " #}", "{% component 'x' ", "{% slot \"", "' ", '" ', "\\", "%", "}", "{", "\n", "a ", "verbatim ",
            "{% endverbatim %}", "\\'", '\\"']


def time_case_trigger(c, outcome):
    if outcome in ("HANG", "HANG-HARD"):
        return T_HANG
    if outcome in ("MemoryError", "DIED"):
        return T_MEM
    if c["target"] in ("template", "parse_template"):
        return template_trigger(c["text"], outcome)
    return classify_trigger(c["text"], outcome)


def hang_sweep(chk, thorough):
    rng = chk.rng
    cases = []
    ks = KS + ([80, 120] if thorough else [])
    for k in ks:
        for name, fam in T.FAMILIES_TAG.items():
            s = fam(k)
            cases.append({"target": "parse_tag", "text": s, "family": name, "k": k})
            shapes = TAG_SHAPES if thorough else [TAG_SHAPES[0], TAG_SHAPES[1 + (k + len(name)) % (len(TAG_SHAPES) - 1)]]
            for sh in shapes:
                cases.append({"target": "template", "text": sh % s, "family": name, "k": k})
            if "unterm" in name or k in (20, 40):
                cases.append({"target": "parse_template", "text": TAG_SHAPES[1] % s, "family": name, "k": k})
                cases.append({"target": "detailed", "text": "{% a " + s, "family": name, "k": k})
                cases.append({"target": "detailed", "text": "{% a " + s + " %} tail", "family": name, "k": k})
            # the same text as the FIRST argument of a component tag (TagFormatter.parse sees it before parse_tag), default / shorthand
            for sh in (T.FIRST_SHAPES if thorough else [T.FIRST_SHAPES[(k + len(name)) % 2], T.FIRST_SHAPES[2 + (k + len(name)) % 2]]):
                cases.append({"target": "template", "text": sh % s, "family": "first:" + name, "k": k})
        for name, fam in T.FAMILIES_FIRSTARG.items():
            s = fam(k)
            for sh in T.FIRST_SHAPES:
                cases.append({"target": "template", "text": sh % s, "family": "firstarg-" + name, "k": k})
            cases.append({"target": "parse_tag", "text": s, "family": "firstarg-" + name, "k": k})
        for name, fam in T.FAMILIES_TPL.items():
            s = fam(k)
            cases.append({"target": "template", "text": s, "family": name, "k": k})
            cases.append({"target": "parse_template", "text": s, "family": name, "k": k})
    # seeded random "pumped" inputs: prefix + piece * k + suffix
    for _ in range(6000 if thorough else 1200):
        pre = "".join(rng.choice(PUMP_ATOMS) for _ in range(rng.randint(0, 3)))
        piece = "".join(rng.choice(PUMP_ATOMS) for _ in range(rng.randint(1, 3)))
        suf = "".join(rng.choice(PUMP_ATOMS) for _ in range(rng.randint(0, 3)))
        k = rng.choice([24, 40, 60])
        s = pre + piece * k + suf
        cases.append({"target": "parse_tag", "text": s, "family": "pumped", "k": k})
        cases.append({"target": "template", "text": rng.choice(TAG_SHAPES) % s, "family": "pumped", "k": k})
        cases.append({"target": "template", "text": rng.choice(T.FIRST_SHAPES) % s, "family": "pumped-first", "k": k})
        pre = "".join(rng.choice(PUMP_TPL) for _ in range(rng.randint(0, 3)))
        piece = "".join(rng.choice(PUMP_TPL + PUMP_ATOMS[:8]) for _ in range(rng.randint(1, 3)))
        suf = "".join(rng.choice(PUMP_TPL) for _ in range(rng.randint(0, 3)))
        s = pre + piece * k + suf
        cases.append({"target": "parse_template", "text": s, "family": "pumped-template", "k": k})
        cases.append({"target": "template", "text": s, "family": "pumped-template", "k": k})
    res = T.run_cases(cases, limit=WATCHDOG_S, max_hangs=3)
    slowest, max_rss, nh = (0.0, None), 0, 0
    for c, r in zip(cases, res):
        if r is None or r["outcome"] == "SKIPPED":
            continue
        o = r["outcome"]
        chk.count(("time", c["target"], c["text"]), "\\" in c["text"] or c["k"] >= 12, kind="hang-sweep-" + c["target"])
        if o in ("HANG", "HANG-HARD", "DIED"):
            # confirm in a fresh child before reporting (a stalled machine is not a property violation)
            r2 = T.run_cases([c], limit=WATCHDOG_S)[0]
            if r2["outcome"] not in ("HANG", "HANG-HARD", "DIED"):
                chk.extra.setdefault("unconfirmed_hangs", []).append({"text": c["text"][:200], "first": r, "second": r2})
                r, o = r2, r2["outcome"]
        if o in ("HANG", "HANG-HARD"):
            nh += 1
            chk.fail(T_HANG, "%s used more than %.0f s of CPU time on a %d-character input (family %s, k=%d)" % (c["target"], WATCHDOG_S, len(c["text"]), c["family"], c["k"]),
                     {"kind": "time", "target": c["target"], "text": c["text"], "limit_s": WATCHDOG_S, "family": c["family"], "k": c["k"]})
        elif o not in ("ok", "TemplateSyntaxError"):
            chk.fail(time_case_trigger(c, o), "%s raised %s (family %s, k=%d)" % (c["target"], o, c["family"], c["k"]),
                     {"kind": "time", "target": c["target"], "text": c["text"], "exception": o})
        if r["rss_kb"] > 256 * 1024:
            chk.fail(T_MEM, "%s grew the process by %d MB on a %d-character input" % (c["target"], r["rss_kb"] // 1024, len(c["text"])),
                     {"kind": "time", "target": c["target"], "text": c["text"], "rss_kb": r["rss_kb"]})
        if r["secs"] > slowest[0]:
            slowest = (r["secs"], {"target": c["target"], "family": c["family"], "k": c["k"], "len": len(c["text"])})
        max_rss = max(max_rss, r["rss_kb"])
    chk.extra["hang_sweep"] = {"cases": len(cases), "watchdog_s": WATCHDOG_S, "hangs": nh, "slowest_s": slowest[0], "slowest_case": slowest[1],
                               "max_rss_growth_kb": max_rss, "skipped_after_hangs": sum(1 for r in res if r and r["outcome"] == "SKIPPED")}


def _sized(fam, n):
    unit = max(1, len(fam(11)) - len(fam(10)))
    return fam(max(1, n // unit))


GROWTH = 6.0         # a doubling of the length may multiply the CPU time by 4 (quadratic); 6 leaves 50% slack, cubic gives 8
T_FLOOR = 0.5        # seconds of CPU time the largest run must reach before growth is judged at all


def _superquadratic(ts):
    """the last TWO successive doublings both multiplied the CPU time by more than GROWTH and the largest run took more than
    T_FLOOR seconds (minimum over the repetitions, CPU time of the call only).  Anything weaker is an observation."""
    return len(ts) >= 3 and ts[-1] > T_FLOOR and ts[-1] > GROWTH * ts[-2] and ts[-2] > GROWTH * max(ts[-3], 1e-4)


def _growing(ts):
    """the last doubling is above GROWTH but the absolute time still below the floor: worth another doubling (low-order terms keep
    the first ratios of a cubic scanner just under its asymptotic 8)"""
    return len(ts) >= 3 and ts[-1] <= T_FLOOR and ts[-1] > GROWTH * max(ts[-2], 1e-4)


def scaling(chk, thorough):
    """CPU time (minimum of 3 repetitions, in a child process, gc disabled) at n0, 2*n0, 4*n0 per (family, target); n0 chosen per
    family from a probe at 500 characters so that the smallest run is measurable (>= ~2 ms if linear) and the largest stays below
    ~0.3 s if quadratic; further doublings while the growth looks super-quadratic.  Reported only per _superquadratic."""
    pairs = []
    for i, (name, fam) in enumerate(T.FAMILIES_TAG.items()):
        pairs.append((name, "parse_tag", fam))
        if thorough or i % 3 == chk.seed % 3 or "unterm-dq" in name:
            pairs.append((name, "template", lambda n, fam=fam: "{% component 'x' " + fam(n) + " / %}"))
    for i, (name, fam) in enumerate(T.FAMILIES_FIRSTARG.items()):
        pairs.append(("firstarg-" + name, "template", lambda n, fam=fam: T.FIRST_SHAPES[0] % fam(n)))
        if thorough or i % 2 == chk.seed % 2:
            pairs.append(("firstarg-" + name + "-shorthand", "template", lambda n, fam=fam: T.FIRST_SHAPES[2] % fam(n)))
    for name, fam in T.FAMILIES_TPL.items():
        pairs.append((name, "parse_template", fam))
        pairs.append((name, "template", fam))
    limit = 20.0
    probe = T.run_cases([{"target": tg, "text": _sized(f, 500), "reps": 2} for _, tg, f in pairs], limit=limit, max_hangs=2)
    jobs = []
    for (name, tg, f), pr in zip(pairs, probe):
        if pr["outcome"] in ("HANG", "HANG-HARD", "DIED"):
            text = _sized(f, 500)
            chk.fail(T_HANG, "%s did not return within %.0f s on a %d-character input (family %s)" % (tg, limit, len(text), name),
                     {"kind": "time", "target": tg, "text": text, "limit_s": limit, "family": name})
            continue
        if pr["outcome"] == "SKIPPED":
            chk.extra["scaling_skipped"] = "probe stopped after 2 inputs of 500 characters hung"
            continue
        t500 = max(pr["secs"], 2e-5)
        want = 500 * 0.002 / t500                      # length at which a linear scanner needs 2 ms
        cap = 500 * (0.3 / t500) ** 0.5 / 4            # length n0 at which a quadratic one needs 0.3 s for 4*n0
        n0 = 250
        while n0 * 2 <= min(want, cap, 16000):
            n0 *= 2
        jobs.append((name, tg, f, n0))
    cases = []
    for name, tg, f, n0 in jobs:
        for m in (1, 2, 4):
            cases.append({"target": tg, "text": _sized(f, n0 * m), "reps": 3})
    # a few independent children side by side (each case is timed alone inside its child)
    nproc = max(1, min(4, C.NCPU // 4))
    chunks = [list(range(i, len(jobs), nproc)) for i in range(nproc)]
    import concurrent.futures
    res = [None] * len(cases)

    def run_chunk(ix):
        sub = [cases[3 * j + m] for j in ix for m in range(3)]
        out = T.run_cases(sub, limit=limit, tag="sc%d" % ix[0] if ix else "sc", max_hangs=2)
        for q, j in enumerate(ix):
            for m in range(3):
                res[3 * j + m] = out[3 * q + m]
    with concurrent.futures.ThreadPoolExecutor(max_workers=nproc) as ex:
        list(ex.map(run_chunk, [c for c in chunks if c]))
    table = {}
    for j, (name, tg, f, n0) in enumerate(jobs):
        rs = res[3 * j:3 * j + 3]
        if any(r["outcome"] == "SKIPPED" for r in rs):
            chk.extra["scaling_skipped"] = "a child stopped after 2 hangs"
            continue
        chk.count(("scaling", name, tg), True, kind="scaling")
        ts = [r["secs"] for r in rs]
        outs = [r["outcome"] for r in rs]
        sizes = [n0, 2 * n0, 4 * n0]
        texts = [cases[3 * j + m]["text"] for m in range(3)]
        # growth looks super-quadratic but the runs are still short: keep doubling until it either flattens or becomes slow
        while _growing(ts) and len(ts) < 9 and "HANG" not in outs[-1] and outs[-1] != "DIED":
            n = sizes[-1] * 2
            text = _sized(f, n)
            r = T.run_cases([{"target": tg, "text": text, "reps": 3}], limit=limit)[0]
            sizes.append(n)
            texts.append(text)
            ts.append(r["secs"])
            outs.append(r["outcome"])
        hang = [o for o in outs if o in ("HANG", "HANG-HARD", "DIED")]
        bad = bool(hang) or _superquadratic(ts)
        if bad:
            # measure the last three sizes again, alone, before reporting
            again = T.run_cases([{"target": tg, "text": t_, "reps": 5} for t_ in texts[-3:]], limit=limit)
            ts2 = ts[:-3] + [r["secs"] for r in again]
            hang = [r["outcome"] for r in again if r["outcome"] in ("HANG", "HANG-HARD", "DIED")]
            chk.extra.setdefault("scaling_remeasured", []).append({"family": name, "target": tg, "first": ts, "second": ts2})
            ts, bad = ts2, bool(hang) or _superquadratic(ts2)
        table["%s/%s" % (name, tg)] = {"sizes": sizes, "cpu_s": [round(x, 5) for x in ts], "outcomes": sorted(set(outs))}
        if len(ts) >= 3 and not bad and ts[-1] > GROWTH * GROWTH * max(ts[-3], 1e-3):
            chk.extra.setdefault("scaling_observations (not judged)", []).append({"family": name, "target": tg, "sizes": sizes, "cpu_s": ts})
        for o, text in zip(outs, texts):
            if o not in ("ok", "TemplateSyntaxError", "HANG", "HANG-HARD", "DIED"):
                chk.fail(time_case_trigger({"target": tg, "text": text}, o), "%s raised %s on family %s at %d characters" % (tg, o, name, len(text)),
                         {"kind": "time", "target": tg, "text": text, "exception": o})
        if bad:
            what = ("%s used more than %.0f s of CPU time" % (tg, limit)) if hang else \
                   ("CPU time of %s grows faster than quadratically over two successive doublings" % tg)
            chk.fail(T_TIME, "%s on family %s (lengths %s: %s s)" % (what, name, sizes[-3:], [round(x, 4) for x in ts[-3:]]),
                     {"kind": "scaling", "family": name, "target": tg, "sizes": sizes, "cpu_s": ts, "text_smallest": texts[0][:2000]})
    chk.extra["scaling_cpu_s"] = table


# ---------------------------------------------------------------------------------------------
def _t(fn, reps=3):
    """minimum CPU time of the call over the repetitions"""
    best = None
    for _ in range(reps):
        t0 = time.process_time()
        fn()
        dt = time.process_time() - t0
        best = dt if best is None else min(best, dt)
    return best


def run_corpus_case(chk, c):
    kind = c["kind"]
    if kind == "dynamic_time":
        from django_components.expression import is_dynamic_expression
        t = _t(lambda: is_dynamic_expression(c["value"]), reps=3)
        chk.count(("corpus", kind), True, kind="corpus")
        if t > max(2.0, c.get("limit_s", 2.0)):
            chk.fail(c["trigger"], "is_dynamic_expression takes %.2f s on a %d-character value" % (t, len(c["value"])),
                     {"kind": kind, "value": c["value"], "seconds": t})
    elif kind == "template":
        cls = template_class(c["source"])
        chk.count(("corpus", c["source"]), True, kind="corpus")
        if cls not in ("ok", "TemplateSyntaxError"):
            chk.fail(c["trigger"], "Template(source) raised %s" % cls, {"kind": kind, "source": c["source"], "exception": cls})
    elif kind == "roundtrip":
        r = impl_parse(c["text"])
        chk.count(("corpus", c["text"]), True, kind="corpus")
        if r["kind"] != "ok" or r["ser"] is None or roundtrip_class(r) != "documented":
            chk.fail(c["trigger"], "documented tag %r is not accepted / not recognised as documented" % c["text"], {"kind": kind, "text": c["text"]})
        else:
            rt, why = roundtrip(r)
            if not rt:
                chk.fail(c["trigger"], "documented tag does not survive serialise + re-parse: " + why, {"kind": kind, "text": c["text"], "serialized": r["ser"]})
    elif kind == "parse_serialize":
        r = impl_parse(c["text"])
        chk.count(("corpus", c["text"]), True, kind="corpus")
        bad = r["exc"] if r["kind"] == "err" else r["ser_exc"]
        if bad not in (None, "TemplateSyntaxError"):
            chk.fail(c["trigger"], "parse_tag / serialize raised %s" % bad, {"kind": kind, "text": c["text"], "exception": bad})


def run_corpus_time(chk, cases):
    """corpus cases of kind `time` (and scaling replays): in the watchdog child"""
    if not cases:
        return
    res = T.run_cases([{"target": c["target"], "text": c["text"]} for c in cases], limit=WATCHDOG_S, max_hangs=3)
    for c, r in zip(cases, res):
        chk.count(("corpus", c["target"], c["text"]), True, kind="corpus")
        o = r["outcome"]
        if o in ("HANG", "HANG-HARD", "SKIPPED"):
            chk.fail(c.get("trigger", T_HANG), "%s did not return within %.0f s on a %d-character input" % (c["target"], WATCHDOG_S, len(c["text"])),
                     {"kind": "time", "target": c["target"], "text": c["text"], "limit_s": WATCHDOG_S})
        elif o not in ("ok", "TemplateSyntaxError"):
            chk.fail(time_case_trigger(c, o), "%s raised %s" % (c["target"], o), {"kind": "time", "target": c["target"], "text": c["text"], "exception": o})


def load_corpus():
    out = list(CORPUS)
    for p in sorted(glob.glob(os.path.join(C.VERIF, "corpus", "C12", "*.json"))):
        out.append(json.load(open(p)))
    return out


def template_sources(rng, s):
    yield "{% component 'x' " + s + " / %}"
    k = rng.randrange(8)
    if k >= 5:
        yield T.FIRST_SHAPES[rng.randrange(4)] % s          # the body as FIRST argument: TagFormatter.parse of the default / shorthand formatter
        return
    if k == 0:
        yield "{% component 'x' " + s + " %}body{% endcomponent %}"
    elif k == 1:
        yield "a{% slot " + s + " / %}b"
    elif k == 2:
        yield "{% html_attrs " + s + " %}"
    elif k == 3:
        yield "{% provide 'k' " + s + " %}{{ v }}{% endprovide %}"
    else:
        yield "{% component 'x' %}{% fill " + s + " / %}{% endcomponent %}\n{# c #}{{ v|upper }}"


TPL_PIECES = ["text", " ", "\n", "it's", 'say "', "{{ v }}", "{{ v|default:'x' }}", "{# c #}", "{# it's #}", "{%", "%}", "{{", "}}", "{#", "#}", "{% x",
              "{% 'x", '{% "', "%", "{", "}", "\\", "{% verbatim %}", "{% endverbatim %}", "{% verbatim 'v' %}", "{% endverbatim 'v' %}",
              "{% comment %}", "{% endcomment %}", "{% component 'x' / %}", "{% component \"x\" %}", "{% endcomponent %}", "{% if a %}", "{% endif %}",
              "{% slot 'a' %}", "{% endslot %}", "{% fill \"a\" %}", "{% endfill %}", "é", "\xa0"]


def gen_template(rng, bodies):
    out = []
    for _ in range(rng.randint(1, 7)):
        k = rng.random()
        if k < 0.45:
            out.append(rng.choice(TPL_PIECES))
        elif k < 0.8:
            b = rng.choice(bodies)
            out.append(rng.choice(["{% component 'x' " + b + " / %}", "{% " + b + " %}", "{%" + b + "%}", "{% slot " + b + " %}", "{% " + b, "{{ " + b + " }}"]))
        else:
            out.append("".join(rng.choice(["{", "}", "%", "#", "'", '"', "\\", " ", "a", "\n"]) for _ in range(rng.randint(1, 6))))
    return "".join(out)


def run(tier, seed):
    import djsetup
    djsetup.setup()
    import gen_constants
    gen_constants.generate(["C12", "C09"])   # C09: the Lexer model imported by template_lexing_total
    chk = C.Check("C12", tier, seed)
    chk.prove()
    thorough = tier == "thorough"
    rng = chk.rng
    phases = {}
    tp0 = [time.time()]

    def phase(name):
        phases[name] = round(time.time() - tp0[0], 1)
        tp0[0] = time.time()
    phase("prove")
    from django_components import Component, registry

    class X(Component):
        template = "x"
    registry.register("x", X)
    try:
        # ---- 0. corpus ----
        corpus = load_corpus()
        for c in corpus:
            if c["kind"] != "time":
                run_corpus_case(chk, c)
        run_corpus_time(chk, [c for c in corpus if c["kind"] == "time"])
        phase("corpus")

        # ---- 1. parse_tag: model == implementation, exception class, round trip, loop-body executions ----
        texts, kinds, seen = [], [], set()

        def add(t, kind):
            if t not in seen:
                seen.add(t)
                texts.append(t)
                kinds.append(kind)
        for t in U.exhaustive(4 if thorough else 3):
            add(t, "exh")
        n_rand = 60000 if thorough else 2000
        for _ in range(n_rand):
            add(U.random_string(rng, 5, U.ATOMS), "rand-short")
            add(U.random_string(rng, 14), "rand")
        grammar = []
        for _ in range(40000 if thorough else 2000):
            t = U.gen_tag(rng, canonical=rng.random() < 0.2, depth=rng.choice([1, 2, 3]))
            grammar.append(t)
            add(t, "grammar")
            add(U.mutate(rng, t), "mutation")
        for d in (1, 2, 5, 49, 50, 51, 99, 100, 101, 150):
            add("a=" + "[" * d + "]" * d, "nested")
            add("{" * d + "}" * d, "nested")
            add("a=" + "[{k:" * d + "1" + "}]" * d, "nested")
            add("a=" + "{k:" * d + "1" + "}" * d, "nested")
            add("a=" + "{**" * d + "x" + "}" * d, "nested")
            add("a=" + "[*" * d + "x" + "]" * d, "nested")
        for name, fam in T.FAMILIES_TAG.items():
            for k in (3, 7):
                add(fam(k), "family")
        deep = ["a=" + "[" * d + "]" * d for d in (250, 400, 600, 1500)] + ["{k:" * 700 + "1" + "}" * 700, "a=" + "{k:" * 450 + "1" + "}" * 450,
                                                                          "a=" + "{**" * 500 + "x" + "}" * 500, "a=[" + "{k:[" * 300 + "1" + "]}" * 300 + "]",
                                                                          "a=" + "[*" * 600 + "x" + "]" * 600, "..." + "[" * 600 + "]" * 600, "a={k:" + "[*[" * 300 + "1" + "]]" * 300 + "}"]

        terms, cases = [], []
        rt_terms, rt_cases = [], []
        ser_texts = []
        n_ok = n_err = 0
        rt_cap = 30000 if thorough else 4000
        rt_fail = []
        for t, kind in zip(texts, kinds):
            r = impl_parse(t)
            ok = r["kind"] == "ok"
            n_ok += ok
            n_err += not ok
            nontriv = len(t) >= 2 and any(ch in t for ch in "[]{}|:'\"*_.\\=")
            chk.count(("parse", t), nontriv, kind=kind,
                      sample={"text": t, "result": "ok" if ok else r["exc"], "serialized": r.get("ser")} if (kind == "mutation" and len(t) > 25) else None)
            bad = r["exc"] if not ok else r["ser_exc"]
            if bad not in (None, "TemplateSyntaxError"):
                chk.fail(classify_trigger(t, bad), "parse_tag/serialize(%r) raised %s" % (t[:80], bad), {"kind": "parse_serialize", "text": t, "exception": bad})
            if ok and r["ser"] is not None:
                rt, why = roundtrip(r)
                cls = roundtrip_class(r)
                if cls == "documented" and not rt:
                    rt_fail.append((len(t), t, r["ser"], why))
                chk.dist["roundtrip-ok(%s)" % cls if rt else "roundtrip-differs(%s)" % cls] += 1
                if not rt and cls == "other":
                    chk.extra.setdefault("roundtrip_differs_unclassified", []).append(t[:120])
                if (cls == "documented" or not rt or kind == "grammar") and len(rt_terms) < rt_cap and U.bracket_depth(t) <= 60:
                    rt_terms.append("(%s, %s)" % (cstr(t), C.cbool(rt)))
                    rt_cases.append(t)
                if len(ser_texts) < (20000 if thorough else 700) and r["ser"] not in seen:
                    seen.add(r["ser"])
                    ser_texts.append(r["ser"])
            try:
                terms.append(parse_case_term(r))
                cases.append(t)
            except U.Unrepresentable as e:
                chk.disagree("implementation AST outside the model's types: %s" % e, {"kind": "parse_serialize", "text": t})
        # "x " + every short string: the round-trip oracle on short argument lists behind a tag name (implementation only)
        n_pref = 0
        for t in U.exhaustive(3):
            r = impl_parse("x " + t)
            if r["kind"] == "ok" and r["ser"] is not None:
                cls = roundtrip_class(r)
                if cls == "documented":
                    n_pref += 1
                    rt, why = roundtrip(r)
                    chk.count(("parse", "x " + t), True, kind="exh-tagged-documented")
                    if not rt:
                        rt_fail.append((len(t) + 2, "x " + t, r["ser"], why))
        for _, t, ser, why in sorted(rt_fail)[:50]:          # shortest failing input first: it becomes the replay
            chk.fail(T_ROUND, "tag whose arguments are in documented form does not survive serialise + re-parse: " + why,
                     {"kind": "roundtrip", "text": t, "serialized": ser})
        # canonical serialisations are inputs too (re-parse side of the round trip, inside the model)
        for t in ser_texts:
            r = impl_parse(t)
            chk.count(("parse", t), True, kind="serialized")
            bad = r["exc"] if r["kind"] == "err" else r["ser_exc"]
            if bad not in (None, "TemplateSyntaxError"):
                chk.fail(classify_trigger(t, bad), "parse_tag/serialize(%r) raised %s" % (t[:80], bad), {"kind": "parse_serialize", "text": t, "exception": bad})
            terms.append(parse_case_term(r))
            cases.append(t)
        # far beyond MAX_NESTING_DEPTH (would be beyond the interpreter's recursion limit without it)
        for t in deep:
            r = impl_parse(t)
            chk.count(("parse", t), True, kind="deep")
            bad = r["exc"] if r["kind"] == "err" else r["ser_exc"]
            if bad not in (None, "TemplateSyntaxError"):
                chk.fail(classify_trigger(t, bad), "parse_tag/serialize on %d nested brackets raised %s" % (U.bracket_depth(t), bad),
                         {"kind": "parse_serialize", "text": t, "exception": bad})
            if r["kind"] == "ok" and r["ser"] is None:
                pass            # reported above; the term would not be comparable
            else:
                terms.append(parse_case_term(r))
                cases.append(t)
        phase("parse-impl")
        bad = C.coq_eval_cases("C12", "parse", U.IMPORTS, "str * outcome", "check_parse", terms, shard=1500, timeout=1200)
        for i in bad[:20]:
            chk.disagree("parse_tag model != implementation (normalized / AST / serialisation / exception class)",
                         {"kind": "parse_serialize", "text": cases[i]})
        chk.extra["parse_outcomes"] = {"ok": n_ok, "TemplateSyntaxError": n_err}
        phase("parse-coq")
        # round trip inside the model == round trip on the implementation (documented-form inputs, grammar tags, and every
        # accepted input that does not round-trip)
        bad = C.coq_eval_cases("C12", "rt", U.IMPORTS, "str * bool", "check_roundtrip", rt_terms, shard=800, timeout=1200)
        for i in bad[:20]:
            chk.disagree("serialise + re-parse in the model != on the implementation", {"kind": "roundtrip", "text": rt_cases[i]})
        for t in rt_cases:
            chk.count(("roundtrip", t), True, kind="roundtrip-model")
        phase("roundtrip-coq")

        # loop-body executions of the three scanner loops: model counters == implementation, and the linear bound of
        # `parse_tag_iterations_linear` directly on the implementation
        pool = [t for t, k in zip(texts, kinds) if k in ("grammar", "mutation", "rand", "family", "nested")]
        rng.shuffle(pool)
        step_texts = [t for t in U.exhaustive(2)] + pool[: (12000 if thorough else 1800)]
        for name, fam in T.FAMILIES_TAG.items():
            step_texts.append(fam(25))
        st_terms, st_cases = [], []
        max_ratio = 0.0
        for t in step_texts:
            cls, (na, ns, np_) = impl_steps(t)
            chk.count(("steps", t), na + ns + np_ >= 4, kind="steps")
            if cls == "Hang":
                chk.fail(T_HANG, "parse_tag(%r) did not return within %.0f s" % (t[:80], WATCHDOG_S), {"kind": "parse_serialize", "text": t, "exception": "Hang"})
                continue
            if na + ns + np_ > 5 * len(t) + 4:
                chk.fail(T_STEPS, "parse_tag(%r) executed %d+%d+%d loop bodies on %d characters (> 5*len+4)" % (t[:80], na, ns, np_, len(t)),
                         {"kind": "steps", "text": t, "iterations": [na, ns, np_]})
            if t:
                max_ratio = max(max_ratio, (na + ns + np_) / len(t))
            st_terms.append("(%s, (%s, %s, %s))" % (cstr(t), cN(na), cN(ns), cN(np_)))
            st_cases.append(t)
        bad = C.coq_eval_cases("C12", "steps", IMPORTS_X, "str * (N * N * N)", "check_steps", st_terms, shard=800, timeout=1200)
        for i in bad[:20]:
            chk.disagree("loop-body executions (attributes, stack, parts) of parse_tag: model counters != implementation",
                         {"kind": "steps", "text": st_cases[i]})
        chk.extra["max_loop_bodies_per_character"] = round(max_ratio, 3)
        phase("steps")

        # ---- 2. Template(source) / parse_template: exception class; whole-template outcome == C09's model ----
        n_tpl = 0
        pool = [t for t, k in zip(texts, kinds) if k in ("grammar", "mutation", "rand")]
        rng.shuffle(pool)
        for t in pool[: (30000 if thorough else 2000)] + deep[:2]:
            for src in template_sources(rng, t):
                cls = template_class(src)
                n_tpl += 1
                chk.count(("tpl", src), "'" in src or '"' in src, kind="template")
                if cls not in ("ok", "TemplateSyntaxError"):
                    chk.fail(template_trigger(src, cls), "Template(source) raised %s" % cls, {"kind": "template", "source": src, "exception": cls})
        import django.template.base as dbase
        dotall = bool(dbase.tag_re.flags & re.DOTALL)
        srcs = set()
        for L in range(0, 4 if thorough else 3):
            for seq in itertools.product(["{%", "%}", "'", '"', "\\", " x ", "{{", "}}", "\n"], repeat=L):
                srcs.add("".join(seq))
        bodies = pool[:3000] or ["a"]
        for _ in range(20000 if thorough else 2200):
            srcs.add(gen_template(rng, bodies))
        tt_terms, tt_cases = [], []
        for src in sorted(srcs):
            term, cls = impl_parse_template(src)
            cls2 = template_class(src)
            chk.count(("tpl-any", src), src.count("{%") >= 2 and ("'" in src or '"' in src), kind="template-any-" + ("ok" if cls == "ok" else "err"))
            for what, c_ in (("parse_template", cls), ("Template", cls2)):
                if c_ not in ("ok", "TemplateSyntaxError"):
                    chk.fail(template_trigger(src, c_), "%s(source) raised %s" % (what, c_), {"kind": "template", "source": src, "exception": c_})
            if term is not None and len(src) <= 400:
                tt_terms.append("(%s, %s, %s)" % (C.cbool(dotall), cstr(src), term))
                tt_cases.append(src)
            elif cls == "TemplateSyntaxError" and term is None:
                chk.disagree("parse_template raised a TemplateSyntaxError the model does not have", {"kind": "template", "source": src})
        phase("template-impl")
        bad = C.coq_eval_cases("C12", "tpl", IMPORTS_X, "bool * str * tobs", "check_template", tt_terms, shard=400, timeout=1200)
        for i in bad[:20]:
            chk.disagree("parse_template: token count / end of last token / error of the Lexer model != implementation",
                         {"kind": "template", "source": tt_cases[i]})
        phase("template-coq")

        # ---- 2b. TagFormatter.parse (default and shorthand formatter) on the bits of component tags: model == implementation ----
        from django.template.base import Token, TokenType
        from django.utils.text import smart_split
        from django_components.tag_formatter import component_formatter, component_shorthand_formatter
        fatoms = ["'x'", '"x"', "name='x'", 'name="y"', "name=", "name=z", "a=1", '"a=b"', "'=", "x", "=", "''", "'", "a='", "name='x", "k:v=2", "aaaaaaaaaaaa"]
        bitlists = set()
        for L in range(0, 4 if thorough else 3):
            for seq in itertools.product(fatoms, repeat=L):
                bitlists.add(tuple(seq))
        for seq in itertools.product(fatoms[:9], repeat=3):
            bitlists.add(tuple(seq))
        for t in pool[: (20000 if thorough else 700)]:
            try:
                bitlists.add(tuple(smart_split(t))[:8])
            except Exception:  # noqa
                pass
        for name, fam in T.FAMILIES_FIRSTARG.items():
            for k in (1, 4, 9):
                bitlists.add(tuple(smart_split(fam(k))))
        ft_terms, ft_cases = [], []
        for bits in sorted(bitlists):
            for shorthand, fmt, tagname in ((False, component_formatter, "component"), (True, component_shorthand_formatter, "xs")):
                tokens = [tagname, *bits]
                try:
                    with deadline():
                        res = fmt.parse(list(tokens))
                    term = "FOk %s %s" % (cstr(res.component_name), clist([cstr(x) for x in res.tokens]))
                    cls = "ok"
                except BaseException as e:  # noqa
                    cls = exc_name(e)
                    term = "FErr %s" % U.errkind(cls)
                chk.count(("formatter", shorthand, bits), any("=" in b or "'" in b or '"' in b for b in bits), kind="formatter-" + ("ok" if cls == "ok" else "err"))
                if cls not in ("ok", "TemplateSyntaxError"):
                    chk.fail(classify_trigger(" ".join(tokens), cls), "%s.parse(%r) raised %s" % (type(fmt).__name__, tokens, cls),
                             {"kind": "formatter", "shorthand": shorthand, "tokens": tokens, "exception": cls})
                ft_terms.append("(%s, %s, %s)" % (C.cbool(shorthand), clist([cstr(x) for x in tokens]), term))
                ft_cases.append((shorthand, tokens))
        bad = C.coq_eval_cases("C12", "fmt", IMPORTS_X, "bool * list str * fobs", "check_formatter", ft_terms, shard=3000, timeout=1200)
        for i in bad[:20]:
            chk.disagree("TagFormatter.parse (component name, remaining bits / exception class): model != implementation",
                         {"kind": "formatter", "shorthand": ft_cases[i][0], "tokens": ft_cases[i][1]})
        phase("formatter")

        # ---- 3. _detailed_tag_parser: model == implementation ----
        datoms = ["'", '"', "%", "}", "\\", " ", "a", "\n", "{", "\xa0"]
        terms, cases = [], []
        dseen = set()
        for L in range(0, (5 if thorough else 4) + 1):
            for seq in itertools.product(datoms[:8] if L >= 4 else datoms, repeat=L):
                dseen.add("{%" + "".join(seq))
        for _ in range(20000 if thorough else 2000):
            dseen.add("{%" + "".join(rng.choice(datoms + ["%}", "\\'", '\\"', "x y", "\x0b", " "]) for _ in range(rng.randint(3, 16))))
        for t in sorted(dseen):
            term, k = impl_detailed(t)
            chk.count(("detailed", t), ("'" in t or '"' in t) and "%}" in t, kind="detailed-" + ("ok" if k == "ok" else "err"))
            if k not in ("ok", "TemplateSyntaxError"):
                chk.fail(classify_trigger(t, k), "_detailed_tag_parser(%r) raised %s" % (t, k), {"kind": "detailed", "text": t, "exception": k})
            terms.append(term)
            cases.append(t)
        bad = C.coq_eval_cases("C12", "detailed", U.IMPORTS, "str * doutcome", "check_detailed", terms, shard=2000)
        for i in bad[:20]:
            chk.disagree("_detailed_tag_parser model != implementation", {"kind": "detailed", "text": cases[i]})
        phase("detailed")

        # ---- 4. is_dynamic_expression: hand matcher == re ----
        from django_components.expression import is_dynamic_expression
        yatoms = ['"', "'", "{{", "}}", "{%", "%}", "{#", "#}", "a", " ", "\n", "{", "}"]
        ys = set()
        for L in range(0, (5 if thorough else 4) + 1):
            for seq in itertools.product(yatoms[:11] if L >= 4 else yatoms, repeat=L):
                ys.add("".join(seq))
        for _ in range(20000 if thorough else 2000):
            q = rng.choice("\"'")
            body = "".join(rng.choice(yatoms) for _ in range(rng.randint(1, 8)))
            ys.add(rng.choice([q + body + q, q + body + q, q + body + rng.choice(yatoms), body]))
        terms, cases = [], []
        for y in sorted(ys):
            v = bool(is_dynamic_expression(y))
            chk.count(("dyn", y), v, kind="dynamic-" + str(v).lower())
            terms.append("(%s, %s)" % (cstr(y), C.cbool(v)))
            cases.append(y)
        bad = C.coq_eval_cases("C12", "dyn", U.IMPORTS, "str * bool", "check_dynamic", terms, shard=2500)
        for i in bad[:20]:
            chk.disagree("is_dynamic_expression hand matcher != DYNAMIC_EXPR_RE", {"kind": "dynamic", "value": cases[i]})
        phase("dynamic")

        # ---- 5. time: hangs on small adversarial inputs, growth at x1 / x2 / x4 ----
        hang_sweep(chk, thorough)
        phase("hang-sweep")
        if chk.extra["hang_sweep"]["hangs"]:
            chk.extra["scaling_skipped"] = "the hang sweep already found inputs that do not return; growth is not measured on this tree"
        else:
            scaling(chk, thorough)
        phase("scaling")
        # block tags nested k deep: Django's recursive-descent Parser (outside the anchored files) - observed, not judged
        obs = {}
        for name, o, c in (("if", "{% if a %}", "{% endif %}"), ("component", "{% component 'x' %}", "{% endcomponent %}")):
            for k in (50, 150, 400):
                obs["%s x%d" % (name, k)] = template_class(o * k + c * k)
        chk.extra["observed_block_nesting (Django Parser recursion, not judged)"] = obs
    finally:
        registry.unregister("x")
    chk.extra["phase_wall_s"] = phases
    chk.extra["template_class_differs_between_debug_engines (ok vs TemplateSyntaxError, not judged)"] = _debug_differs[:20]
    chk.assumptions = [
        "cost of one execution of a scanner-loop body in CPython (str +=, slicing, the helper scans take_until / take_while over the rest of the text) "
        "is bounded by c*(len(text)+1) - supported by the scaling test, not proved; the NUMBER of loop-body executions is proved (<= 5*len+4) and compared",
        "CPython recursion limit 1000 and two frames per serialize level, i.e. >= 101 levels are available wherever a tag is parsed (MAX_NESTING_DEPTH = %d)" % DEPTH_CLASS,
        "Django's Lexer/Parser and Python's re engine are outside the TagParse model (the Lexer model of C09 covers parse_template's token stream); their exception classes and "
        "their time are observed, not proved; block tags nested hundreds deep overflow Django's recursive Parser (also stock {% if %}) - reported under observed_block_nesting, not judged",
        "%.0f s of CPU time for one call on an input of at most a few thousand characters stands for 'hang' (child process, ITIMER_PROF; wall time is never judged); memory is the growth of the child's peak RSS (limit 256 MB, RLIMIT_AS 3 GB)" % WATCHDOG_S,
    ]
    return chk.finish(
        rule="parse_tag: every string of <= %d atoms over the 18-atom syntax alphabet (quotes, brackets, braces, : , | = * ... _( ) backslash, space, a, /) "
             "exhaustively (and each behind a tag name for the round-trip oracle), seeded random strings up to 14 atoms over 37 atoms, tags generated from the documented "
             "grammar (20%% canonical layout) and 1-3 character-level mutations of each, the canonical serialisations of all of those, nested literals of all six "
             "list/dict/spread shapes around MAX_NESTING_DEPTH (49..150) and far beyond (250..1500); loop-body executions on a sample of those and on every adversarial family; "
             "Template(source) - always compiled under Engine(debug=True) and Engine(debug=False) - for each sampled tag body in 2 of 6 tag shapes; arbitrary templates (all strings <= %d pieces of {%% %%} ' \" \\ {{ }} newline + random "
             "concatenations of text, variables, comments, unterminated openers, verbatim, quoted and mutated tags) through parse_template and Template; _detailed_tag_parser on all "
             "strings <= %d atoms over its alphabet + random; is_dynamic_expression on all strings <= %d atoms + random; in a watchdog child process: %d tag and %d template "
             "families x k in %s (unterminated strings of both quote kinds with k backslashes / escaped quotes, nesting, runs of every operator, unterminated {%% {{ {#) "
             "+ random pumped strings, then wall time at n, 2n, 4n per family. Non-trivial = contains a syntax-relevant symbol and >= 2 characters (parse), contains a quote "
             "(template / detailed, with a closing delimiter), >= 2 block openers and a quote (arbitrary templates), matcher answers true (dynamic), >= 4 loop bodies (steps), "
             "a backslash or k >= 12 (hang sweep). Distinct = distinct input string."
             % (4 if thorough else 3, 3 if thorough else 2, 5 if thorough else 4, 5 if thorough else 4, len(T.FAMILIES_TAG), len(T.FAMILIES_TPL), KS),
        explanation="theorems of Props/C12.v re-checked by coqc (totality with linear fuel, exception class, per-iteration progress, normalized = input, nesting depth <= "
                    "MAX_NESTING_DEPTH+1 hence no RecursionError in serialize, re-scanner totality, loop-body executions <= 5*len+4, serialise/re-parse round trip for the documented "
                    "grammar, whole-template lexing total); the model is evaluated by vm_compute inside Coq on every generated case and compared with parse_tag / serialize / the "
                    "round trip / the loop-body counts / parse_template / _detailed_tag_parser / is_dynamic_expression of the working tree; exception class, round trip, hangs, "
                    "memory and time scaling are checked directly on the implementation.",
        extra_trusted=["modelled, not verified: Python str/list primitives used by the scanner; Django Lexer/Parser, smart_split, re (the Lexer model of C09 is compared on outcome "
                       "class, token count and end position; the rest is observed through Template(source) only); the regex of take_until_any and DYNAMIC_EXPR_RE are hand matchers "
                       "anchored to the source pattern strings"])


def replay(path):
    import djsetup
    djsetup.setup()
    from django_components import Component, registry

    class X(Component):
        template = "x"
    registry.register("x", X)
    r = json.load(open(path))
    case = r.get("case", r)
    print(json.dumps(r, indent=1)[:2000])
    kind = case.get("kind")
    if kind == "template":
        print("Template(source) ->", template_class(case["source"]))
        print("parse_template(source) ->", impl_parse_template(case["source"]))
    elif kind in ("parse_serialize", "roundtrip"):
        res = impl_parse(case["text"])
        print("parse_tag ->", res["kind"], res.get("exc"), "serialize ->", res.get("ser_exc") or (res.get("ser") or "")[:300])
        if res["kind"] == "ok" and res["ser"] is not None:
            print("round trip ->", roundtrip(res), "class:", roundtrip_class(res))
    elif kind == "steps":
        print("loop bodies (attributes, stack, parts) ->", impl_steps(case["text"]), "bound 5*len+4 =", 5 * len(case["text"]) + 4)
    elif kind == "time":
        print(T.run_cases([{"target": case["target"], "text": case["text"]}], limit=case.get("limit_s", WATCHDOG_S)))
    elif kind == "scaling":
        fname = case["family"]
        if fname.startswith("firstarg-"):
            base = T.FAMILIES_FIRSTARG[fname[len("firstarg-"):].replace("-shorthand", "")]
            shape = T.FIRST_SHAPES[2 if fname.endswith("-shorthand") else 0]
            fam = f = (lambda n: shape % base(n))
        else:
            fam = dict(T.FAMILIES_TAG, **T.FAMILIES_TPL)[fname]
            f = fam if case["target"] != "template" or fname in T.FAMILIES_TPL else (lambda n: "{% component 'x' " + fam(n) + " / %}")
        cs = [{"target": case["target"], "text": _sized(f, n), "reps": 3} for n in case["sizes"][-3:]]
        print([(len(c["text"]), x["outcome"], x["secs"]) for c, x in zip(cs, T.run_cases(cs, limit=20.0))])
    elif kind == "formatter":
        from django_components.tag_formatter import component_formatter, component_shorthand_formatter
        fmt = component_shorthand_formatter if case["shorthand"] else component_formatter
        try:
            print(fmt.parse(list(case["tokens"])))
        except Exception as e:  # noqa
            print(exc_name(e), e)
    elif kind == "detailed":
        print(impl_detailed(case["text"]))
    elif kind == "dynamic_time":
        from django_components.expression import is_dynamic_expression
        print("seconds:", _t(lambda: is_dynamic_expression(case["value"]), reps=1))
    elif kind == "dynamic":
        from django_components.expression import is_dynamic_expression
        print(is_dynamic_expression(case["value"]))
    registry.unregister("x")
    return 0
