"""C12 - parsing any tag or template terminates with success or TemplateSyntaxError.

Model: coq/TagParse/Model.v (parse_tag, serialize, _detailed_tag_parser, is_dynamic_expression)
Theorems: coq/Props/C12.v
Correspondence: parse_tag(text) on every string up to a length bound over the syntax alphabet, random longer
strings, tags generated from the documented grammar and mutations of them: model result (normalized, AST,
serialisation, exception class) == implementation.  Direct oracles on the implementation: exception class of
parse_tag / Template(source) is none or TemplateSyntaxError; serialise + re-parse gives the same AST (documented
grammar); wall time grows at most quadratically on adversarial families.
"""
import glob
import json
import os
import time

import common as C
import c12_util as U
from common import cN, cstr, clist

DEPTH_CLASS = 100           # trigger class c12-literal-nesting-depth: bracket nesting of the input > MAX_NESTING_DEPTH
T_NEST = "c12-literal-nesting-depth"
T_CLASS = "c12-exception-class"
T_ROUND = "c12-serialize-reparse"
T_TIME = "c12-time-superquadratic"
T_DYN = "c12-dynamic-expr-backtracking"
T_SPLIT = "c12-split-contents-stopiteration"   # Django's Token.split_contents() on a `_("...` bit that never ends with `")`

CORPUS = [
    # fixed by 66ffd57: must classify quickly now
    {"kind": "dynamic_time", "value": '"' + "{{}}" * 800 + '"|x', "trigger": T_DYN, "limit_s": 0.5},
    # fixed by d8e2fba (MAX_NESTING_DEPTH): was RecursionError in _extract_flags -> serialize for deeply nested literals
    {"kind": "template", "source": "{% component 'x' a=" + "[" * 500 + "]" * 500 + " / %}", "trigger": T_NEST},
    {"kind": "parse_serialize", "text": "a=" + "[" * 600 + "]" * 600, "trigger": T_NEST},
    # fixed by 6a8d16e: component tag_fn called Token.split_contents(), which raises StopIteration for `_("x")|filter`
    {"kind": "template", "source": "{% component 'x' a=1 _(\"b c\")|lower:'x' k=2 %}{% endcomponent %}", "trigger": T_SPLIT},
    {"kind": "template", "source": "{% component 'x' _('b')|upper / %}", "trigger": T_SPLIT},
    # shapes that once looked suspicious while porting (all fine): empty quote char after `_(`, `=` first, ...
    {"kind": "parse_serialize", "text": "_(", "trigger": T_CLASS},
    {"kind": "parse_serialize", "text": "a|_(", "trigger": T_CLASS},
    {"kind": "parse_serialize", "text": "=...x", "trigger": T_CLASS},
    {"kind": "parse_serialize", "text": "{a:**{}}", "trigger": T_CLASS},
    {"kind": "parse_serialize", "text": "[*", "trigger": T_CLASS},
    {"kind": "parse_serialize", "text": "{**", "trigger": T_CLASS},
    {"kind": "parse_serialize", "text": "a=_(xabcx)", "trigger": T_CLASS},
]


def exc_name(e):
    return type(e).__name__


class Hang(BaseException):
    """Raised by the watchdog: the property also excludes hangs, so no implementation call may run unbounded."""


class deadline:
    hangs = 0

    def __init__(self, seconds=5.0):
        self.seconds = seconds

    def _fire(self, *a):
        deadline.hangs += 1
        raise Hang("no result after %.0f s" % self.seconds)

    def __enter__(self):
        import signal
        if deadline.hangs >= 3:          # three calls already ran into the deadline: report, do not wait for thousands more
            raise Hang("skipped after 3 hangs")
        self.old = signal.signal(signal.SIGALRM, self._fire)
        signal.setitimer(signal.ITIMER_REAL, self.seconds)

    def __exit__(self, *a):
        import signal
        signal.setitimer(signal.ITIMER_REAL, 0)
        signal.signal(signal.SIGALRM, self.old)
        return False


def classify_trigger(text):
    return T_NEST if U.bracket_depth(text) > DEPTH_CLASS else T_CLASS


def split_contents_stops(source):
    """Input class of T_SPLIT: some {% component ... %} token on which Django's Token.split_contents() runs off its iterator."""
    from django.template.base import TokenType
    from django_components.util.template_parser import parse_template
    try:
        tokens = parse_template(source)
    except Exception:  # noqa
        return False
    for tok in tokens:
        if tok.token_type == TokenType.BLOCK and tok.contents.split()[:1] == ["component"]:
            try:
                tok.split_contents()
            except StopIteration:
                return True
            except Exception:  # noqa
                pass
    return False


def template_trigger(source, exc):
    if exc == "StopIteration" and split_contents_stops(source):
        return T_SPLIT
    return classify_trigger(source)


# ---------------------------------------------------------------------------------------------
# implementation runners
# ---------------------------------------------------------------------------------------------
def impl_parse(text):
    """parse_tag + serialize on the implementation -> dict (never raises)."""
    from django_components.util.tag_parser import parse_tag
    r = {"text": text}
    try:
        with deadline():
            n, attrs = parse_tag(text, None)
    except BaseException as e:  # noqa
        r.update(kind="err", exc=exc_name(e))
        return r
    r.update(kind="ok", normalized=n, attrs=attrs, nattrs=len(attrs))
    try:
        with deadline():
            r["ser"] = " ".join(a.serialize() for a in attrs)
        r["ser_exc"] = None
    except BaseException as e:  # noqa
        r["ser"] = None
        r["ser_exc"] = exc_name(e)
    return r


def parse_case_term(r):
    if r["kind"] == "err":
        return "(%s, OErr %s)" % (cstr(r["text"]), U.errkind(r["exc"]))
    ser = "None" if r["ser"] is None else "(Some %s)" % cstr(r["ser"])
    return "(%s, OOk %s %s %s)" % (cstr(r["text"]), cstr(r["normalized"]), clist([U.attr_term(a) for a in r["attrs"]]), ser)


def ast_plain(attrs):
    """AST without start_index, as nested tuples (iterative-safe for the depths compared here)."""
    from django_components.util.tag_parser import TagValue

    def node(v):
        if isinstance(v, TagValue):
            return ("V", tuple((p.value, p.quoted, p.spread, p.translation, p.filter) for p in v.parts))
        return ("S", v.type, v.spread, tuple(sorted(v.meta.items())), tuple(node(e) for e in v.entries))
    return tuple((a.key, node(a.value)) for a in attrs)


def roundtrip(r):
    """(ok, detail): serialise + re-parse yields the same attributes up to start_index."""
    from django_components.util.tag_parser import parse_tag
    if r["ser"] is None:
        return False, "serialize raised %s" % r["ser_exc"]
    try:
        with deadline():
            _, attrs2 = parse_tag(r["ser"], None)
    except BaseException as e:  # noqa
        return False, "re-parse of %r raised %s" % (r["ser"], exc_name(e))
    if ast_plain(attrs2) != ast_plain(r["attrs"]):
        return False, "re-parse of %r gives a different AST" % (r["ser"],)
    return True, ""


def template_class(source):
    from django.template import Template
    try:
        with deadline():
            Template(source)
        return "ok"
    except BaseException as e:  # noqa
        return exc_name(e)


def impl_detailed(text):
    from django_components.util.template_parser import _detailed_tag_parser
    try:
        with deadline():
            tok = _detailed_tag_parser(text, 1, 0)
    except BaseException as e:  # noqa
        return "(%s, DErr %s)" % (cstr(text), U.errkind(exc_name(e))), exc_name(e)
    if tok.position[0] != 0:
        return "(%s, DErr OtherError)" % cstr(text), "bad-start"
    return "(%s, DOk %s %s)" % (cstr(text), cstr(tok.contents), cN(tok.position[1])), "ok"


# ---------------------------------------------------------------------------------------------
# scaling (support for the cost assumption; the proof covers scanner iterations only)
# ---------------------------------------------------------------------------------------------
def _t(fn, reps=3):
    best = None
    for _ in range(reps):
        t0 = time.perf_counter()
        fn()
        dt = time.perf_counter() - t0
        best = dt if best is None else min(best, dt)
    return best


FAMILIES = {
    "list-items": lambda n: "a=[" + "1, " * (n // 3) + "1]",
    "many-attrs": lambda n: " ".join(["k=1"] * (n // 4)),
    "many-positional": lambda n: " ".join(["v"] * (n // 2)),
    "long-key": lambda n: "k" * n + "=1",
    "long-string-escapes": lambda n: 'a="' + "\\\"x" * (n // 3) + '"',
    "dynamic-string-filter": lambda n: 'a="' + "{{}}" * (n // 4) + '"|x',
    "filter-chain": lambda n: "a" + "|f:1" * (n // 4),
    "whitespace-run": lambda n: "a=[1," + " " * n + "2]",
    "unterminated-quote": lambda n: 'a="' + "x " * (n // 2),
    "dict-pairs": lambda n: "a={" + "k: 1, " * (n // 6) + "}",
    "nested-100": lambda n: " ".join(["a=" + "[" * 100 + "]" * 100] * max(1, n // 203)),
    "star-run": lambda n: "a=[" + "*" * n + "]",
    "colon-run": lambda n: "a" + ":" * n,
}


def scaling(chk, n0):
    from django.template import Template
    from django_components.util.tag_parser import parse_tag
    from django_components.expression import is_dynamic_expression
    table = {}
    for name, fam in FAMILIES.items():
        for what in ("parse_tag", "Template"):
            ts = []
            for n in (n0, 2 * n0, 4 * n0):
                s = fam(n)
                if what == "parse_tag":
                    def run(s=s):
                        try:
                            _, attrs = parse_tag(s, None)
                            for a in attrs:
                                a.serialize()
                            for a in attrs:
                                for e in a.value.entries[:1]:
                                    if hasattr(e, "parts"):
                                        is_dynamic_expression(e.serialize())
                        except Exception:  # noqa
                            pass
                else:
                    src = "{% component 'x' " + s + " / %}"

                    def run(src=src):
                        try:
                            Template(src)
                        except Exception:  # noqa
                            pass
                ts.append(_t(run))
            table["%s/%s" % (name, what)] = [round(x, 5) for x in ts]
            chk.count(("scaling", name, what), True, kind="scaling")
            # quadratic growth: x4 length => at most x16 time; slack 3x and a 20 ms floor against timer noise
            if ts[2] > 3 * 16 * max(ts[0], 0.002) + 0.02 or ts[1] > 3 * 4 * max(ts[0], 0.002) + 0.02:
                chk.fail(T_TIME, "wall time of %s grows faster than quadratically on family %s" % (what, name),
                         {"kind": "scaling", "family": name, "what": what, "n0": n0, "times_n_2n_4n": ts})
            # absolute sanity: 4*n0 characters within 2 s
            if ts[2] > 2.0:
                chk.fail(T_TIME, "%s needs %.1f s for %d characters (family %s)" % (what, ts[2], 4 * n0, name),
                         {"kind": "scaling", "family": name, "what": what, "n0": n0, "times_n_2n_4n": ts})
    chk.extra["scaling_times_n_2n_4n"] = table


# ---------------------------------------------------------------------------------------------
def run_corpus_case(chk, c):
    kind = c["kind"]
    if kind == "dynamic_time":
        from django_components.expression import is_dynamic_expression
        t = _t(lambda: is_dynamic_expression(c["value"]), reps=2)
        chk.count(("corpus", kind), True, kind="corpus")
        if t > c.get("limit_s", 0.5):
            chk.fail(c["trigger"], "is_dynamic_expression takes %.2f s on a %d-character value" % (t, len(c["value"])),
                     {"kind": kind, "value": c["value"], "seconds": t})
    elif kind == "template":
        cls = template_class(c["source"])
        chk.count(("corpus", c["source"]), True, kind="corpus")
        if cls not in ("ok", "TemplateSyntaxError"):
            chk.fail(c["trigger"], "Template(source) raised %s" % cls, {"kind": kind, "source": c["source"], "exception": cls})
    elif kind == "parse_serialize":
        r = impl_parse(c["text"])
        chk.count(("corpus", c["text"]), True, kind="corpus")
        bad = r["exc"] if r["kind"] == "err" else r["ser_exc"]
        if bad not in (None, "TemplateSyntaxError"):
            chk.fail(c["trigger"], "parse_tag / serialize raised %s" % bad, {"kind": kind, "text": c["text"], "exception": bad})


def load_corpus():
    out = list(CORPUS)
    for p in sorted(glob.glob(os.path.join(C.VERIF, "corpus", "C12", "*.json"))):
        out.append(json.load(open(p)))
    return out


def template_sources(rng, s):
    yield "{% component 'x' " + s + " / %}"
    k = rng.randrange(5)
    if k == 0:
        yield "{% component 'x' " + s + " %}body{% endcomponent %}"
    elif k == 1:
        yield "a{% slot " + s + " / %}b"
    elif k == 2:
        yield "{% html_attrs " + s + " %}"
    elif k == 3:
        yield "{% provide 'k' " + s + " %}{{ v }}{% endprovide %}"
    else:
        yield "{% component 'x' %}{% fill " + s + " / %}{% endcomponent %}\n{# c #}{{ v|upper }}"


def run(tier, seed):
    import djsetup
    djsetup.setup()
    import gen_constants
    gen_constants.generate(["C12"])
    chk = C.Check("C12", tier, seed)
    chk.prove()
    thorough = tier == "thorough"
    rng = chk.rng
    from django_components import Component, registry

    class X(Component):
        template = "x"
    registry.register("x", X)
    try:
        # ---- 0. corpus ----
        for c in load_corpus():
            run_corpus_case(chk, c)

        # ---- 1. parse_tag: model == implementation, exception class, round trip ----
        texts, kinds, seen = [], [], set()

        def add(t, kind):
            if t not in seen:
                seen.add(t)
                texts.append(t)
                kinds.append(kind)
        for t in U.exhaustive(4 if thorough else 3):
            add(t, "exh")
        n_rand = 60000 if thorough else 5000
        for _ in range(n_rand):
            add(U.random_string(rng, 5, U.ATOMS), "rand-short")
            add(U.random_string(rng, 14), "rand")
        grammar = []
        for _ in range(40000 if thorough else 3000):
            t = U.gen_tag(rng, canonical=rng.random() < 0.2, depth=rng.choice([1, 2, 3]))
            grammar.append(t)
            add(t, "grammar")
            add(U.mutate(rng, t), "mutation")
        for d in (1, 2, 5, 49, 50, 51, 99, 100, 101, 150):
            add("a=" + "[" * d + "]" * d, "nested")
            add("{" * d + "}" * d, "nested")
            add("a=" + "[{k:" * d + "1" + "}]" * d, "nested")
        deep = ["a=" + "[" * d + "]" * d for d in (250, 400, 600, 1500)] + ["{k:" * 700 + "1" + "}" * 700]

        terms, cases = [], []
        ser_texts = []
        n_ok = n_err = 0
        grammar_set = set(grammar)
        for t, kind in zip(texts, kinds):
            r = impl_parse(t)
            ok = r["kind"] == "ok"
            n_ok += ok
            n_err += not ok
            nontriv = len(t) >= 2 and any(ch in t for ch in "[]{}|:'\"*_.\\=")
            chk.count(("parse", t), nontriv, kind=kind,
                      sample={"text": t, "result": "ok" if ok else r["exc"], "serialized": r.get("ser")} if (kind == "mutation" and len(t) > 25) else None)
            bad = r["exc"] if not ok else r["ser_exc"]
            if bad not in (None, "TemplateSyntaxError"):
                chk.fail(classify_trigger(t), "parse_tag/serialize(%r) raised %s" % (t[:80], bad), {"kind": "parse_serialize", "text": t, "exception": bad})
            if ok and r["ser"] is not None:
                rt, why = roundtrip(r)
                if t in grammar_set and not rt:
                    chk.fail(T_ROUND, "documented-syntax tag does not survive serialise + re-parse: " + why,
                             {"kind": "roundtrip", "text": t, "serialized": r["ser"]})
                chk.dist["roundtrip-ok" if rt else "roundtrip-differs(%s)" % kind] += 1
                if len(ser_texts) < (20000 if thorough else 2500) and r["ser"] not in seen:
                    seen.add(r["ser"])
                    ser_texts.append(r["ser"])
            try:
                terms.append(parse_case_term(r))
                cases.append(t)
            except U.Unrepresentable as e:
                chk.disagree("implementation AST outside the model's types: %s" % e, {"kind": "parse_serialize", "text": t})
        # canonical serialisations are inputs too (re-parse side of the round trip, inside the model)
        for t in ser_texts:
            r = impl_parse(t)
            chk.count(("parse", t), True, kind="serialized")
            bad = r["exc"] if r["kind"] == "err" else r["ser_exc"]
            if bad not in (None, "TemplateSyntaxError"):
                chk.fail(classify_trigger(t), "parse_tag/serialize(%r) raised %s" % (t[:80], bad), {"kind": "parse_serialize", "text": t, "exception": bad})
            terms.append(parse_case_term(r))
            cases.append(t)
        # far beyond MAX_NESTING_DEPTH (would be beyond the interpreter's recursion limit without it)
        for t in deep:
            r = impl_parse(t)
            chk.count(("parse", t), True, kind="deep")
            bad = r["exc"] if r["kind"] == "err" else r["ser_exc"]
            if bad not in (None, "TemplateSyntaxError"):
                chk.fail(classify_trigger(t), "parse_tag/serialize on %d nested brackets raised %s" % (U.bracket_depth(t), bad),
                         {"kind": "parse_serialize", "text": t, "exception": bad})
            if r["kind"] == "ok" and r["ser"] is None:
                pass            # reported above; the term would not be comparable
            else:
                terms.append(parse_case_term(r))
                cases.append(t)
        bad = C.coq_eval_cases("C12", "parse", U.IMPORTS, "str * outcome", "check_parse", terms, shard=1500, timeout=1200)
        for i in bad[:20]:
            chk.disagree("parse_tag model != implementation (normalized / AST / serialisation / exception class)",
                         {"kind": "parse_serialize", "text": cases[i]})
        chk.extra["parse_outcomes"] = {"ok": n_ok, "TemplateSyntaxError": n_err}

        # ---- 2. Template(source): exception class ----
        n_tpl = 0
        pool = [t for t, k in zip(texts, kinds) if k in ("grammar", "mutation", "rand")]
        rng.shuffle(pool)
        for t in pool[: (30000 if thorough else 2500)] + deep[:2]:
            for src in template_sources(rng, t):
                cls = template_class(src)
                n_tpl += 1
                chk.count(("tpl", src), "'" in src or '"' in src, kind="template")
                if cls not in ("ok", "TemplateSyntaxError"):
                    chk.fail(template_trigger(src, cls), "Template(source) raised %s" % cls, {"kind": "template", "source": src, "exception": cls})

        # ---- 3. _detailed_tag_parser: model == implementation ----
        datoms = ["'", '"', "%", "}", "\\", " ", "a", "\n", "{", "\xa0"]
        terms, cases = [], []
        dseen = set()
        import itertools
        for L in range(0, (5 if thorough else 4) + 1):
            for seq in itertools.product(datoms[:8] if L >= 4 else datoms, repeat=L):
                dseen.add("{%" + "".join(seq))
        for _ in range(20000 if thorough else 2500):
            dseen.add("{%" + "".join(rng.choice(datoms + ["%}", "\\'", '\\"', "x y", "\x0b", " "]) for _ in range(rng.randint(3, 16))))
        for t in sorted(dseen):
            term, k = impl_detailed(t)
            chk.count(("detailed", t), ("'" in t or '"' in t) and "%}" in t, kind="detailed-" + ("ok" if k == "ok" else "err"))
            if k not in ("ok", "TemplateSyntaxError"):
                chk.fail(T_CLASS, "_detailed_tag_parser(%r) raised %s" % (t, k), {"kind": "detailed", "text": t, "exception": k})
            terms.append(term)
            cases.append(t)
        bad = C.coq_eval_cases("C12", "detailed", U.IMPORTS, "str * doutcome", "check_detailed", terms, shard=3000)
        for i in bad[:20]:
            chk.disagree("_detailed_tag_parser model != implementation", {"kind": "detailed", "text": cases[i]})

        # ---- 4. is_dynamic_expression: hand matcher == re ----
        from django_components.expression import is_dynamic_expression
        yatoms = ['"', "'", "{{", "}}", "{%", "%}", "{#", "#}", "a", " ", "\n", "{", "}"]
        ys = set()
        for L in range(0, (5 if thorough else 4) + 1):
            for seq in itertools.product(yatoms[:11] if L >= 4 else yatoms, repeat=L):
                ys.add("".join(seq))
        for _ in range(20000 if thorough else 3000):
            q = rng.choice("\"'")
            body = "".join(rng.choice(yatoms) for _ in range(rng.randint(1, 8)))
            ys.add(rng.choice([q + body + q, q + body + q, q + body + rng.choice(yatoms), body]))
        terms, cases = [], []
        for y in sorted(ys):
            v = bool(is_dynamic_expression(y))
            chk.count(("dyn", y), v, kind="dynamic-" + str(v).lower())
            terms.append("(%s, %s)" % (cstr(y), C.cbool(v)))
            cases.append(y)
        bad = C.coq_eval_cases("C12", "dyn", U.IMPORTS, "str * bool", "check_dynamic", terms, shard=4000)
        for i in bad[:20]:
            chk.disagree("is_dynamic_expression hand matcher != DYNAMIC_EXPR_RE", {"kind": "dynamic", "value": cases[i]})

        # ---- 5. wall-time scaling ----
        scaling(chk, 4000 if thorough else 2000)
    finally:
        registry.unregister("x")
    chk.assumptions = [
        "cost of one scanner iteration in CPython (str +=, slicing, tuple scans) is bounded by O(len(text)) - supported by the scaling test, not proved",
        "CPython recursion limit 1000 and two frames per serialize level, i.e. >= 101 levels are available wherever a tag is parsed (MAX_NESTING_DEPTH = %d)" % DEPTH_CLASS,
        "Django's Lexer/Parser and Python's re engine are outside the model; their exception classes are observed, not proved",
    ]
    return chk.finish(
        rule="parse_tag: every string of <= %d atoms over the 18-atom syntax alphabet (quotes, brackets, braces, : , | = * ... _( ) backslash, space, a, /) "
             "exhaustively, seeded random strings up to 14 atoms over 37 atoms, tags generated from the documented grammar (20%% canonical layout) and 1-3 "
             "character-level mutations of each, the canonical serialisations of all of those, nested literals around MAX_NESTING_DEPTH (49..150) and far beyond (250..1500); "
             "Template(source) for each sampled tag body in 2 of 6 tag shapes; _detailed_tag_parser on all strings <= %d atoms over its alphabet + random; "
             "is_dynamic_expression on all strings <= %d atoms + random; wall time at n, 2n, 4n on %d adversarial families. Non-trivial = contains a "
             "syntax-relevant symbol and >= 2 characters (parse), contains a quote (template / detailed, with a closing delimiter), matcher answers true (dynamic). "
             "Distinct = distinct input string."
             % (4 if thorough else 3, 5 if thorough else 4, 5 if thorough else 4, len(FAMILIES)),
        explanation="8 theorems of Props/C12.v re-checked by coqc (totality with linear fuel, exception class, per-iteration progress, normalized = input, "
                    "nesting depth of every parsed value <= MAX_NESTING_DEPTH+1 hence no RecursionError in serialize, re-scanner totality); the model is evaluated by vm_compute inside Coq on every generated "
                    "case and compared with parse_tag / serialize / _detailed_tag_parser / is_dynamic_expression of the working tree; exception class, "
                    "round trip and time scaling are checked directly on the implementation.",
        extra_trusted=["modelled, not verified: Python str/list primitives used by the scanner; Django Lexer/Parser, smart_split, re (observed through "
                       "Template(source) only); the regex of take_until_any and DYNAMIC_EXPR_RE are hand matchers anchored to the source pattern strings"])


def replay(path):
    import djsetup
    djsetup.setup()
    from django_components import Component, registry

    class X(Component):
        template = "x"
    registry.register("x", X)
    r = json.load(open(path))
    case = r.get("case", r)
    print(json.dumps(r, indent=1)[:2000])
    kind = case.get("kind")
    if kind == "template":
        print("Template(source) ->", template_class(case["source"]))
    elif kind in ("parse_serialize", "roundtrip"):
        res = impl_parse(case["text"])
        print("parse_tag ->", res["kind"], res.get("exc"), "serialize ->", res.get("ser_exc") or (res.get("ser") or "")[:300])
        if res["kind"] == "ok" and res["ser"] is not None:
            print("round trip ->", roundtrip(res))
    elif kind == "detailed":
        print(impl_detailed(case["text"]))
    elif kind == "dynamic_time":
        from django_components.expression import is_dynamic_expression
        print("seconds:", _t(lambda: is_dynamic_expression(case["value"]), reps=1))
    elif kind == "dynamic":
        from django_components.expression import is_dynamic_expression
        print(is_dynamic_expression(case["value"]))
    registry.unregister("x")
    return 0
