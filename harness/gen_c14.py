"""Constants of /repo that the string-level part of the C14 model (coq/PostRender/Placeholder.v) is written against.

Regenerated on every run into coq/Gen/C14.v: the two placeholder regexes of perfutil/component.py, the text of
the placeholder a nested component returns, the marker attribute format, and the alphabet and length of render
ids (util/misc.py gen_id).  The hand matcher is anchored to the pattern strings by `Example ..._anchor`, and the
round-trip theorem of Props/C14.v is stated for ids over the generated alphabet and length - so an edit of a
pattern, of the placeholder text or of the id format breaks (or re-proves) a proof obligation.
"""
import re

import common as C
from gen_constants import generator

PROBE = "Zq9Zq9"


def probe_entropy(alphabet, size):
    import os
    import random
    import types
    import django_components.util.nanoid as nanoid
    called = []

    def label(name, obj):
        if obj is os.urandom:
            return "os.urandom"
        mod = getattr(obj, "__module__", None) or type(getattr(obj, "__self__", None)).__module__
        return "%s.%s" % (mod, getattr(obj, "__name__", name))

    class ModProxy:
        def __init__(self, m):
            object.__setattr__(self, "_m", m)

        def __getattr__(self, a):
            v = getattr(object.__getattribute__(self, "_m"), a)
            if callable(v) and not isinstance(v, type):
                def w(*aa, _v=v, _a=a, **kk):
                    called.append(label(_a, _v))
                    return _v(*aa, **kk)
                return w
            return v
    saved = {}
    pure = {"ceil", "log", "floor", "sqrt"}          # arithmetic helpers, no entropy
    for name, obj in list(vars(nanoid).items()):
        if name.startswith("__") or name == "generate":
            continue
        if isinstance(obj, types.ModuleType):
            saved[name] = obj
            setattr(nanoid, name, ModProxy(obj))
        elif callable(obj) and not isinstance(obj, type) and name not in pure:
            saved[name] = obj

            def w(*aa, _v=obj, _n=name, **kk):
                called.append(label(_n, _v))
                return _v(*aa, **kk)
            setattr(nanoid, name, w)
    state = random.getstate()
    try:
        nanoid.generate(alphabet, size)
    finally:
        for name, obj in saved.items():
            setattr(nanoid, name, obj)
    try:
        random.seed(1)
        a = [nanoid.generate(alphabet, size) for _ in range(40)]
        random.seed(1)
        b = [nanoid.generate(alphabet, size) for _ in range(40)]
    finally:
        random.setstate(state)
    return sorted(set(called)), a != b and len(set(a + b)) == 80


@generator
def gen_C14():
    import django_components.perfutil.component as P
    import django_components.util.misc as misc
    import django_components.dependencies as D
    out = []

    def d(name, val):
        out.append("Definition %s : str := %s." % (name, C.cstr(val)))
    for rx, nm in ((P.nested_comp_pattern, "nested_comp_pattern"), (P.render_id_pattern, "render_id_pattern")):
        if not isinstance(rx.pattern, str):
            raise RuntimeError("C14 generator: %s is not a str pattern" % nm)
        d(nm, rx.pattern)
        out.append("Definition %s_flags : N := %d%%N." % (nm, rx.flags))
    # id supply: observe the arguments gen_id() passes to nanoid.generate
    seen = []
    saved = misc.generate
    misc.generate = lambda alphabet, size: seen.append((alphabet, size)) or ("x" * size)
    try:
        misc.gen_id()
    finally:
        misc.generate = saved
    if len(seen) != 1:
        raise RuntimeError("C14 generator: gen_id no longer calls generate exactly once")
    d("id_alphabet", seen[0][0])
    out.append("Definition id_size : nat := %d%%nat." % seen[0][1])
    # entropy source of the id supply: which callables of util/nanoid.py's namespace one generate() call uses, and
    # whether re-seeding Python's global (seedable) RNG makes the id sequence repeat
    src, indep = probe_entropy(seen[0][0], seen[0][1])
    d("id_entropy_source", ",".join(src))
    out.append("Definition id_supply_independent_of_global_rng : bool := %s." % ("true" if indep else "false"))
    # placeholder text returned for a nested component
    try:
        ph = str(P.component_post_render(renderer=None, render_id=PROBE, component_name="x", parent_id="p",
                                         on_component_rendered_callbacks={}, on_html_rendered=lambda h: h))
    finally:
        P.component_renderer_cache.pop(PROBE, None)
    if ph.count(PROBE) != 1:
        raise RuntimeError("C14 generator: unexpected placeholder %r" % ph)
    pre, post = ph.split(PROBE)
    d("placeholder_prefix", pre)
    d("placeholder_suffix", post)
    # marker attribute as it is serialised on an element: <a data-djc-id-XXXXXX="">
    html, _ = D.set_component_attrs_for_js_and_css("<a></a>", PROBE, None, None, None)
    m = re.fullmatch(r"<a( [^>]*?)" + PROBE + r"([^>]*)></a>", str(html))
    if not m:
        raise RuntimeError("C14 generator: unexpected marker attribute serialisation %r" % html)
    d("attr_prefix", m.group(1))
    d("attr_suffix", m.group(2))
    # \w of Python's re in str mode, restricted to ASCII (ids and generated documents are ASCII)
    out.append("Definition ascii_word : list N := %s." % C.clist([C.cN(c) for c in range(128) if re.match(r"\w", chr(c))]))
    return "\n".join(out) + "\n"
