"""C05 helpers: (1) recorder of the provide/inject event trace and of the rendered structure, installed from the harness
process by wrapping names of the implementation's modules (no source hooks); (2) a direct Python oracle that renders a
generated program (genprog.py) with providers scoped by the RENDERED STRUCTURE (an explicit stack handed down the render
recursion) and returns the expected rendered structure with the value every inject() call must return.
"""
import contextlib

import genprog as G

PREFIX = "_DJC_INJECT__"


# ================================================================================================
# 1. Recorder
# ================================================================================================
class Node:
    __slots__ = ("kind", "id", "key", "payload", "root", "vis", "inj", "inj2", "registered", "children", "cname", "results", "extract")

    def __init__(self, kind, id_, **kw):
        self.kind = kind            # "prov" | "comp"
        self.id = id_
        self.key = kw.get("key")
        self.payload = kw.get("payload")
        self.root = kw.get("root")
        self.vis = kw.get("vis", [])
        self.inj = []               # provide ids looked up by inject() before the component registered (get_context_data)
        self.inj2 = []              # ... and afterwards (while its template is rendered: on_render_before)
        self.registered = False
        self.results = []           # (key, "hit", fields-dict | "default" | "KeyError" | "other:<cls>")
        self.cname = kw.get("cname")
        self.extract = kw.get("extract", False)   # provide block rendered while a tag body is scanned for fills
        self.children = []

    def to_obj(self):
        if self.kind == "prov":
            return {"prov": self.id, "key": self.key, "payload": self.payload, "extract": self.extract,
                    "children": [c.to_obj() for c in self.children]}
        return {"comp": self.id, "cname": self.cname, "root": self.root, "vis": list(self.vis), "inj": list(self.inj),
                "inj2": list(self.inj2), "registered": self.registered,
                "results": self.results, "children": [c.to_obj() for c in self.children]}


class Recorder:
    """Wraps (from outside) the functions of perfutil/provide.py as they are referenced by provide.py and component.py,
    ProvideNode.render, Component.inject and the deferred renderer factory.  Events (DESIGN Appendix B):
      ("PEnter", pid) ("PExit", pid) ("PFail", pid) ("CReg", rid, [pid..]) ("CInject", rid, pid) ("CDone", rid) ("CFail", rid)
    After every event the three tables are snapshotted."""

    def __init__(self):
        self.installed = False
        self.reset()

    def reset(self):
        self.events = []        # (event, tables-after)
        self.roots = []         # page-level nodes of the rendered structure
        self.stack = []         # nodes whose body/template is being rendered right now
        self.nodes = {}
        self.initial = self.tables() if self.installed else None

    # -- tables -----------------------------------------------------------------------------------
    def tables(self):
        P = self.P
        return {"cache": sorted(P.provide_cache.keys()),
                "refs": sorted((k, sorted(v)) for k, v in P.provide_references.items()),
                "all": sorted(P.all_reference_ids)}

    def clear_tables(self):
        self.P.provide_cache.clear()
        self.P.provide_references.clear()
        self.P.all_reference_ids.clear()

    def log(self, ev, raised=False):
        """raised: the table code itself raised while performing this event (the model answers None there)"""
        self.events.append((ev, None if raised else self.tables()))

    def attach(self, node):
        (self.stack[-1].children if self.stack else self.roots).append(node)
        self.nodes[node.id] = node

    # -- installation -------------------------------------------------------------------------------
    def install(self):
        if self.installed:
            return
        import django_components.component as CM
        import django_components.perfutil.provide as P
        import django_components.provide as PV
        from django_components.context import _COMPONENT_CONTEXT_KEY
        self.P, self.CM, self.PV = P, CM, PV
        rec = self
        self.orig = {"mpc": PV.managed_provide_cache, "reg": CM.register_provide_reference,
                     "unreg": CM.unregister_provide_reference, "inject": CM.Component.inject,
                     "genr": CM.Component._gen_component_renderer, "setp": PV.set_provided_context_var,
                     "rimpl": CM.Component._render_impl}
        o = self.orig

        @contextlib.contextmanager
        def managed_provide_cache(provide_id):
            cm = o["mpc"](provide_id)
            cm.__enter__()
            node = rec.pending_prov
            node.id = provide_id
            rec.attach(node)
            rec.stack.append(node)
            rec.log(("PEnter", provide_id))
            try:
                yield
            except BaseException as e:
                rec.stack.pop()
                try:
                    cm.__exit__(type(e), e, e.__traceback__)
                except BaseException as e2:
                    rec.log(("PFail", provide_id), raised=e2 is not e)
                    raise
                rec.log(("PFail", provide_id))
                raise
            else:
                rec.stack.pop()
                try:
                    cm.__exit__(None, None, None)
                except BaseException:
                    rec.log(("PExit", provide_id), raised=True)
                    raise
                rec.log(("PExit", provide_id))

        def set_provided(context, key, provided_kwargs):
            # called by ProvideNode.render with the tag's evaluated keyword arguments
            rec.pending_prov = Node("prov", None, key=key, payload=dict(provided_kwargs),
                                    extract=context.get("_DJANGO_COMPONENTS_GEN_FILL", None) is not None)
            return o["setp"](context, key, provided_kwargs)

        def ensure_comp(rid, context):
            """node of the component render `rid`, created (under whatever is being rendered now) at its first inject() or
            when it registers, whichever comes first"""
            node = rec.nodes.get(rid)
            if node is None:
                vis = sorted({v for k, v in context.flatten().items() if k.startswith(PREFIX)})
                root = not context.get(_COMPONENT_CONTEXT_KEY, None)
                node = Node("comp", rid, root=root, vis=vis, cname=rec.pending_cname)
                rec.attach(node)
            return node

        def register(context, reference_id):
            node = ensure_comp(reference_id, context)
            vis = node.vis
            node.registered = True
            try:
                r = o["reg"](context, reference_id)
            except BaseException:
                rec.log(("CReg", reference_id, vis), raised=True)
                raise
            rec.log(("CReg", reference_id, vis))
            return r

        def unregister(reference_id):
            try:
                r = o["unreg"](reference_id)
            except BaseException:
                rec.log(("CDone", reference_id), raised=True)
                raise
            rec.log(("CDone", reference_id))
            return r

        def inject(self, key, default=None):
            rid, pid, ctx = None, None, None
            try:
                rid = self.id
                ctx = self.input.context
                if PREFIX + key in ctx:
                    pid = ctx[PREFIX + key]
            except Exception:
                pass
            node = ensure_comp(rid, ctx) if rid is not None else None
            try:
                r = o["inject"](self, key, default)
            except BaseException as e:
                if pid is not None:
                    rec.log(("CInject", rid, pid), raised=isinstance(e, KeyError))
                if node is not None:
                    if pid is not None:
                        (node.inj2 if node.registered else node.inj).append(pid)
                    node.results.append((key, type(e).__name__ if isinstance(e, KeyError) else "other:" + type(e).__name__, pid,
                                         default is not None))
                raise
            if pid is not None:
                rec.log(("CInject", rid, pid))
            if node is not None:
                if pid is not None:
                    (node.inj2 if node.registered else node.inj).append(pid)
                    fields = dict(r._asdict()) if hasattr(r, "_asdict") else {"?": repr(r)}
                    node.results.append((key, "hit", fields, pid))
                else:
                    # 4th item: a default was given and exactly that object came back
                    node.results.append((key, "default", None, default is not None and r is default))
            return r

        def gen_renderer(self, render_id, *a, **k):
            inner = o["genr"](self, render_id, *a, **k)
            if "render_id" in k:
                render_id = k["render_id"]

            def renderer(root_attributes=None):
                node = rec.nodes.get(render_id)
                if node is not None:
                    rec.stack.append(node)
                try:
                    return inner(root_attributes)
                except BaseException:
                    rec.log(("CFail", render_id))
                    raise
                finally:
                    if node is not None:
                        rec.stack.pop()
            return renderer

        def render_impl(self, *a, **k):
            rec.pending_cname = self.name
            before = len(rec.events)
            depth = len(rec.stack)
            try:
                return o["rimpl"](self, *a, **k)
            except BaseException:
                # failure before the template was rendered (get_context_data, inject, ...): the last CReg since `before`
                # that belongs to this call names the id; a failure inside the deferred renderer was logged there
                del rec.stack[depth:]
                mine = [e for e, _ in rec.events[before:] if e[0] == "CReg"]
                if mine and not any(e[0] == "CFail" and e[1] == mine[0][1] for e, _ in rec.events[before:]):
                    rec.log(("CFail", mine[0][1]))
                raise

        PV.managed_provide_cache = managed_provide_cache
        PV.set_provided_context_var = set_provided
        CM.register_provide_reference = register
        CM.unregister_provide_reference = unregister
        CM.Component.inject = inject
        CM.Component._gen_component_renderer = gen_renderer
        CM.Component._render_impl = render_impl
        self.pending_prov = None
        self.pending_cname = None
        self.installed = True
        self.reset()

    def uninstall(self):
        if not self.installed:
            return
        o = self.orig
        self.PV.managed_provide_cache = o["mpc"]
        self.PV.set_provided_context_var = o["setp"]
        self.CM.register_provide_reference = o["reg"]
        self.CM.unregister_provide_reference = o["unreg"]
        self.CM.Component.inject = o["inject"]
        self.CM.Component._gen_component_renderer = o["genr"]
        self.CM.Component._render_impl = o["rimpl"]
        self.installed = False


RECORDER = Recorder()


# ================================================================================================
# 2. Direct Python oracle on the program tree
# ================================================================================================
class RefError(Exception):
    def __init__(self, kind):
        Exception.__init__(self, kind)
        self.kind = kind


COUNTER = "\x00"


def _is_word(c):
    return c.isascii() and (c.isalnum() or c == "_")


def _escape_name(s):
    return "".join(c if _is_word(c) else "_" for c in s)


def _is_ident(s):
    return bool(s) and not s[0].isdigit() and all(_is_word(c) for c in s)


def _lookup_list(x, l):
    for k, v in l:
        if k == x:
            return True, v
    return False, None


class PyRef:
    """Renders a genprog program the way the property statement reads: variable scoping as documented for the two context
    behaviours (same rules as coq/Core/Sem.v), and providers scoped by the RENDERED STRUCTURE only: `stk`, the stack of
    the provide blocks whose body is being rendered, is handed down the recursion (into component templates, slot
    defaults, and fill bodies at the slot where they are rendered); inject() reads the first entry with its key.
    Result: ("ok", text, tree) or ("err", kind, None); tree nodes:
      ("prov", key, {field: value}, children) | ("comp", cname, [inject results], children)"""

    def __init__(self, prog, rehook=False):
        self.lib = dict(prog["lib"])
        self.mode = prog["mode"]
        self.prog = prog
        self.rehook = rehook     # every component injects its keys once more (with a default) when its template is rendered

    # -- values ---------------------------------------------------------------------------------
    @staticmethod
    def print_x(x):
        k, v = x
        if k == "b":
            return "True" if v else "False"
        if k == "n":
            return str(v)
        if isinstance(v, str):
            return v
        if isinstance(v, list):
            return "<list>"
        return "{" + ", ".join("&#x27;%s&#x27;: %s" % (f, "&#x27;%s&#x27;" % w if isinstance(w, str) else "<nested>") for f, w in v.items()) + "}"

    @staticmethod
    def truthy(x):
        k, v = x
        if k == "b":
            return v
        if k == "n":
            return v != 0
        return len(v) > 0

    @staticmethod
    def to_value(x):
        k, v = x
        if k == "b":
            return "True" if v else "False"
        if k == "n":
            return str(v)
        return v

    def lookup(self, x, st):
        ok, v = _lookup_list(x, st["loc"])
        if ok:
            return True, v
        return _lookup_list(x, st["out"])

    def eval(self, e, st):
        k = e[0]
        if k == "str":
            return ("v", e[1])
        if k == "var":
            ok, v = self.lookup(e[1], st)
            return ("v", v if ok else "")
        if k == "dot":
            ok, v = self.lookup(e[1], st)
            if ok and isinstance(v, dict):
                return ("v", v.get(e[2], ""))
            return ("v", "")
        if k == "filled":
            if st["cur"] is None:
                return ("v", "")
            return ("b", any(_escape_name(n) == e[1] for n, _ in st["cur"]["fills"]))
        ok, v = self.lookup(COUNTER, st)
        return ("v", v if ok and isinstance(v, str) else "")

    def eval_kwargs(self, kw, st):
        return [(k, self.to_value(self.eval(e, st))) for k, e in kw]

    @staticmethod
    def bind_loc(x, v, st):
        return dict(st, loc=[(x, v)] + st["loc"])

    # -- fill discovery ---------------------------------------------------------------------------
    def extract(self, st, btw, t):
        k = t[0]
        if k == "text":
            return t[1], []
        if k == "out":
            return self.print_x(self.eval(t[1], st)), []
        if k == "if":
            return self.extract_list(st, btw, t[2] if self.truthy(self.eval(t[1], st)) else t[3])
        if k == "for":
            x = self.eval(t[2], st)
            items = x[1] if x[0] == "v" and isinstance(x[1], list) else []
            text, fills = "", []
            for i, v in enumerate(items, 1):
                cv = str(i)
                a, b = self.extract_list(self.bind_loc(t[1], v, self.bind_loc(COUNTER, cv, st)), [(t[1], v), (COUNTER, cv)] + btw, t[3])
                text += a
                fills += b
            return text, fills
        if k == "with":
            v = self.to_value(self.eval(t[2], st))
            return self.extract_list(self.bind_loc(t[1], v, st), [(t[1], v)] + btw, t[3])
        if k in ("slot", "comp"):
            return "", []
        if k == "provide":
            if not _is_ident(t[1]):
                raise RefError("ETemplateSyntax")
            return self.extract_list(st, btw, t[3])
        # fill
        x = self.eval(t[1], st)
        if not (x[0] == "v" and isinstance(x[1], str)):
            raise RefError("ETemplateSyntax")
        if t[2] is not None and t[3] is not None and t[2] == t[3]:
            raise RefError("ERuntime")
        return "", [(x[1], {"body": t[4], "btw": btw, "cloc": st["loc"], "cout": st["out"], "dvar": t[2], "defvar": t[3], "owner": st["cur"]})]

    def extract_list(self, st, btw, ts):
        text, fills = "", []
        for t in ts:
            a, b = self.extract(st, btw, t)
            text += a
            fills += b
        return text, fills

    def resolve_fills(self, st, body):
        if not body:
            return []
        content, fills = self.extract_list(st, [], body)
        if not fills:
            if all(t[0] == "text" and all(c in " \n\t\r\x0b\x0c" for c in t[1]) for t in body):
                return []
            return [("default", {"body": body, "btw": [], "cloc": st["loc"], "cout": st["out"], "dvar": None, "defvar": None, "owner": st["cur"]})]
        if any(c not in " \n\t\r\x0b\x0c" for c in content):
            raise RefError("ETemplateSyntax")
        names = [n for n, _ in fills]
        if len(set(names)) != len(names):
            raise RefError("ETemplateSyntax")
        return fills

    # -- get_context_data ----------------------------------------------------------------------------
    def eval_data(self, ds, kw, stk, injects):
        out = []
        for x, d in ds:
            if d[0] == "kw":
                ok, v = _lookup_list(d[1], kw)
                v = v if ok else ""
            elif d[0] == "str":
                v = d[1]
            else:
                _, key, field, dflt = d
                ok, rec = _lookup_list(key, stk)
                if ok:
                    injects.append((key, "hit", dict(rec)))
                    fok, v = _lookup_list(field, rec)
                    if not fok:
                        raise RefError("EAttribute")
                elif dflt is not None:
                    injects.append((key, "default", None))
                    v = dflt
                else:
                    injects.append((key, "KeyError", None))
                    raise RefError("EKey")
            out = [(x, v)] + out
        return out

    # -- rendering --------------------------------------------------------------------------------------
    def rl(self, stk, st, ts, depth):
        text, nodes = "", []
        for t in ts:
            a, b = self.render(stk, st, t, depth)
            text += a
            nodes += b
        return text, nodes

    def render(self, stk, st, t, depth):
        if depth > 150:
            raise RefError("other:depth")
        k = t[0]
        if k == "text":
            return t[1], []
        if k == "out":
            return self.print_x(self.eval(t[1], st)), []
        if k == "if":
            return self.rl(stk, st, t[2] if self.truthy(self.eval(t[1], st)) else t[3], depth)
        if k == "for":
            x = self.eval(t[2], st)
            items = x[1] if x[0] == "v" and isinstance(x[1], list) else []
            text, nodes = "", []
            for i, v in enumerate(items, 1):
                a, b = self.rl(stk, self.bind_loc(t[1], v, self.bind_loc(COUNTER, str(i), st)), t[3], depth)
                text += a
                nodes += b
            return text, nodes
        if k == "with":
            return self.rl(stk, self.bind_loc(t[1], self.to_value(self.eval(t[2], st)), st), t[3], depth)
        if k == "provide":
            if not _is_ident(t[1]):
                raise RefError("ETemplateSyntax")
            record = self.eval_kwargs(t[2], st)
            text, nodes = self.rl([(t[1], record)] + stk, st, t[3], depth)
            return text, [("prov", t[1], dict(record), nodes)]
        if k == "comp":
            kwv = self.eval_kwargs(t[2], st)
            if t[1] not in self.lib:
                raise RefError("ENotRegistered")
            cd = self.lib[t[1]]
            fills = self.resolve_fills(st, t[4])
            injects = []
            node = ["comp", t[1], injects, []]
            self.partial.append(node)
            data = self.eval_data(cd["data"], kwv, stk, injects)
            if self.rehook:
                for _, d in cd["data"]:
                    if d[0] == "inject":
                        ok, rec = _lookup_list(d[1], stk)
                        injects.append((d[1], "hit", dict(rec)) if ok else (d[1], "default", None))
            iso = t[3] or self.mode == "isolated"
            cst = {"loc": data, "out": [] if iso else st["loc"] + st["out"], "cur": {"cname": t[1], "fills": fills, "iso": iso}}
            text, nodes = self.rl(stk, cst, cd["tpl"], depth + 1)
            node[3] = nodes
            return text, [tuple(node)]
        if k == "fill":
            raise RefError("ETemplateSyntax")
        # slot
        _, name, is_default, is_required, data, body = t
        inst = st["cur"]
        if inst is None:
            raise RefError("ETemplateSyntax")
        fills = inst["fills"]
        names = [n for n, _ in fills]
        sdata = dict(self.eval_kwargs(data, st))
        if is_default and name != "default" and name in names and "default" in names:
            raise RefError("ETemplateSyntax")
        fname = "default" if (is_default and "default" in names) else name
        ok, c = _lookup_list(fname, fills)
        if not ok:
            if is_required:
                raise RefError("ETemplateSyntax")
            return self.rl(stk, st, body, depth)
        hidden, aliases = [], []
        if c["defvar"] is not None:
            dtext, hidden = self.rl(stk, st, body, depth)
            aliases.append((c["defvar"], dtext))
        if c["dvar"] is not None:
            aliases.append((c["dvar"], sdata))
        if inst["iso"]:
            fst = {"loc": aliases + c["btw"] + c["cloc"], "out": c["cout"], "cur": c["owner"]}
        else:
            fst = {"loc": aliases + st["loc"] + c["btw"], "out": st["out"], "cur": c["owner"]}
        text, nodes = self.rl(stk, fst, c["body"], depth)     # rendered HERE: the slot's stack
        return text, hidden + nodes

    def run(self):
        import sys
        self.partial = []
        st = {"loc": [(k, v) for k, v in self.prog["ctx"]], "out": [], "cur": None}
        old = sys.getrecursionlimit()
        sys.setrecursionlimit(20000)
        try:
            text, nodes = self.rl([], st, self.prog["page"], 0)
            return ("ok", text, nodes)
        except RefError as e:
            return ("err", e.kind, None)
        except RecursionError:
            return ("err", "other:RecursionError", None)
        finally:
            sys.setrecursionlimit(old)


# ================================================================================================
# 3. Canonical forms and Coq printers
# ================================================================================================
def canon_recorded(nodes):
    """recorded structure -> the oracle's tree shape"""
    out = []
    for n in nodes:
        if n.kind == "prov":
            if n.extract:
                continue    # rendered only while the tag body was scanned for {% fill %} tags: not part of the output structure
            out.append(("prov", n.key, dict(n.payload), canon_recorded(n.children)))
        else:
            res = [(r[0], r[1], r[2] if r[1] == "hit" else None) for r in n.results]
            out.append(("comp", n.cname, res, canon_recorded(n.children)))
    return out


def canon_expected(nodes):
    out = []
    for n in nodes:
        if n[0] == "prov":
            out.append(("prov", n[1], n[2], canon_expected(n[3])))
        else:
            out.append(("comp", n[1], [tuple(r) for r in n[2]], canon_expected(n[3])))
    return out


def idnum(s):
    return int(s, 16) - 0xa00000


def c_ids(l):
    return "[%s]" % "; ".join("%d%%N" % idnum(x) for x in l)


def c_tables(t):
    return "(%s, [%s], %s)" % (c_ids(t["cache"]), "; ".join("(%d%%N, %s)" % (idnum(k), c_ids(v)) for k, v in t["refs"]), c_ids(t["all"]))


def c_event(e):
    k = e[0]
    if k == "CReg":
        return "CReg %d%%N %s" % (idnum(e[1]), c_ids(e[2]))
    if k == "CInject":
        return "CInject %d%%N %d%%N" % (idnum(e[1]), idnum(e[2]))
    return "%s %d%%N" % (k, idnum(e[1]))


def c_tree(nodes):
    out = []
    for n in nodes:
        if n.kind == "prov":
            out.append("Prov %d%%N %s" % (idnum(n.id), c_tree(n.children)))
        else:
            out.append("Comp %s %d%%N %s %s %s %s" % ("true" if n.root else "false", idnum(n.id), c_ids(n.vis), c_ids(n.inj), c_ids(n.inj2),
                                                      c_tree(n.children)))
    return "[%s]" % "; ".join(out)


def c_trace_case(initial, events, roots, clean):
    evs = "; ".join("(%s, %s)" % (c_event(e), "None" if t is None else "Some %s" % c_tables(t)) for e, t in events)
    tree = "None" if roots is None else "Some %s" % c_tree(roots)
    return "{| tc_init := %s; tc_events := [%s]; tc_tree := %s; tc_clean := %s |}" % (c_tables(initial), evs, tree, "true" if clean else "false")
