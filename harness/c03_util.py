"""Static analysis of generated component programs for C03 (variable scoping).

 * `analyse(prog)`            - binder sites, fills with the binders around them, reads
 * `targeted_pairs(prog, rng)` - pairs of names whose merge creates a collision *around a fill or a component tag*
 * `classes(prog)`            - the root-cause classes (decidable predicates on the program) a program belongs to;
                                 used only to name the trigger of a program on which the property oracle FAILED
 * `ni_variant(prog)`         - the two-run non-interference pair of a program
All predicates look at the program text only - never at outputs.
"""
import genprog as G

# ---------------------------------------------------------------------------------------------------------------
# expression / template walkers
# ---------------------------------------------------------------------------------------------------------------


def expr_reads(e):
    """(variable names, reads_counter) of an expression"""
    if e[0] in ("var", "dot"):
        return {e[1]}, False
    if e[0] == "counter":
        return set(), True
    return set(), False


def node_exprs(t):
    """expressions evaluated by the node itself (not by its children)"""
    k = t[0]
    if k == "out":
        return [t[1]]
    if k == "if":
        return [t[1]]
    if k in ("for", "with"):
        return [t[2]]
    if k == "slot":
        return [e for _, e in t[4]]
    if k == "fill":
        return [t[1]]
    if k in ("comp", "provide"):
        return [e for _, e in t[2]]
    return []


def children(t):
    return [t[bi] for bi in G.BODY_IDX.get(t[0], ())]


def reads_of(ts, bound=frozenset(), in_for=False):
    """free variable reads of a template list: (names, counter_read_outside_own_for).
    `bound` are names bound by enclosing with/for/aliases of the same list (lexically)."""
    names, cnt = set(), False
    for t in ts:
        for e in node_exprs(t):
            n, c = expr_reads(e)
            names |= (n - bound)
            cnt = cnt or (c and not in_for)
        k = t[0]
        if k == "for":
            n, c = reads_of(t[3], bound | {t[1]}, True)
        elif k == "with":
            n, c = reads_of(t[3], bound | {t[1]}, in_for)
        elif k == "fill":
            al = {a for a in (t[2], t[3]) if a}
            n, c = reads_of(t[4], bound | al, in_for)
        elif k == "if":
            n1, c1 = reads_of(t[2], bound, in_for)
            n2, c2 = reads_of(t[3], bound, in_for)
            n, c = n1 | n2, c1 or c2
        elif k in ("slot", "comp", "provide"):
            n, c = reads_of(t[G.BODY_IDX[k][0]], bound, in_for)
        else:
            n, c = set(), False
        names |= n
        cnt = cnt or c
    return names, cnt


def all_reads(ts):
    """every variable name read anywhere below (bound or not), and whether forloop.counter is read"""
    names, cnt = set(), False
    for t in G.flatten(ts):
        for e in node_exprs(t):
            n, c = expr_reads(e)
            names |= n
            cnt = cnt or c
    return names, cnt


class FillInfo:
    """an explicit {% fill %} or the implicit default fill of a component tag"""

    def __init__(self, owner, tag, enc, btw, aliases, body, explicit, tag_depth):
        self.owner = owner          # None = page, else name of the component whose template contains the tag
        self.tag = tag              # the ("comp", cname, kw, only, body) node
        self.enc = enc              # [(kind, name)] binders enclosing the TAG in the owner template, outermost first
        self.btw = btw              # [(kind, name)] with/for between the tag and the fill, outermost first
        self.aliases = aliases      # [(kind, name)] sd / df
        self.body = body
        self.explicit = explicit
        self.tag_depth = tag_depth  # number of component tags / fills of the same template enclosing the tag

    @property
    def cname(self):
        return self.tag[1]

    @property
    def only(self):
        return self.tag[3]


class Info:
    pass


def analyse(prog):
    info = Info()
    info.mode = prog["mode"]
    info.lib = dict(prog["lib"])
    info.sites = []           # (template, kind, name)   kind in page|data|with|for|sd|df
    info.fills = []
    info.tags = []            # (owner, tag, enc, depth)
    info.tpl_reads = {}       # cname -> (free reads of the template given its data names, counter read outside own for)
    info.tpl_all_reads = {}
    info.slot_default_reads = {}   # cname -> free reads of slot default bodies (w.r.t. nothing bound)
    info.slot_default_nested = {}  # cname -> kinds of nodes (slot / comp) nested in slot default bodies
    for k, _ in prog["ctx"]:
        info.sites.append((None, "page", k))
    for cn, cd in prog["lib"]:
        for x, _ in cd["data"]:
            info.sites.append((cn, "data", x))

    def walk(owner, ts, path, depth):
        for t in ts:
            k = t[0]
            if k == "with" or k == "for":
                info.sites.append((owner, k, t[1]))
                walk(owner, t[3], path + [(k, t[1])], depth)
            elif k == "if":
                walk(owner, t[2], path, depth)
                walk(owner, t[3], path, depth)
            elif k == "provide":
                walk(owner, t[3], path, depth)
            elif k == "slot":
                walk(owner, t[5], path, depth)
            elif k == "comp":
                enc = [p for p in path if p[0] != "tag"]
                info.tags.append((owner, t, enc, depth))
                has_fill = any(x[0] == "fill" for x in flat_no_comp(t[4]))
                if t[4] and not has_fill and not all(x[0] == "text" and not x[1].strip() for x in t[4]):
                    info.fills.append(FillInfo(owner, t, enc, [], [], t[4], False, depth))
                walk(owner, t[4], path + [("tag", t)], depth + 1)
            elif k == "fill":
                ti = max(i for i, p in enumerate(path) if p[0] == "tag")
                tag = path[ti][1]
                enc = [p for p in path[:ti] if p[0] != "tag"]
                btw = [p for p in path[ti + 1:]]
                al = []
                if t[2]:
                    al.append(("sd", t[2]))
                    info.sites.append((owner, "sd", t[2]))
                if t[3]:
                    al.append(("df", t[3]))
                    info.sites.append((owner, "df", t[3]))
                info.fills.append(FillInfo(owner, tag, enc, btw, al, t[4], True, depth - 1))
                walk(owner, t[4], path + al, depth)

    def flat_no_comp(ts):
        """nodes of a component body that belong to this tag's fill discovery (not inside nested component tags / fills)"""
        out = []
        for t in ts:
            out.append(t)
            if t[0] in ("if",):
                out += flat_no_comp(t[2]) + flat_no_comp(t[3])
            elif t[0] in ("for", "with", "provide"):
                out += flat_no_comp(t[3])
        return out

    walk(None, prog["page"], [], 0)
    for cn, cd in prog["lib"]:
        walk(cn, cd["tpl"], [], 0)
        data = frozenset(x for x, _ in cd["data"])
        info.tpl_reads[cn] = reads_of(cd["tpl"], data)
        info.tpl_all_reads[cn] = all_reads(cd["tpl"])
        sr, nested = set(), set()
        for t in G.flatten(cd["tpl"]):
            if t[0] == "slot":
                sr |= all_reads(t[5])[0]
                nested |= {x[0] for x in G.flatten(t[5]) if x[0] in ("slot", "comp")}
        info.slot_default_reads[cn] = sr
        info.slot_default_nested[cn] = nested
    info.page_reads = all_reads(prog["page"])
    info.every_read = set(info.page_reads[0])
    for cn in info.tpl_all_reads:
        info.every_read |= info.tpl_all_reads[cn][0]
    return info


def sites_of(info, name, kinds=None, but=None):
    return [s for s in info.sites if s[2] == name and (kinds is None or s[1] in kinds) and s is not but]


def n_sites(info, name, kinds):
    return sum(1 for s in info.sites if s[2] == name and s[1] in kinds)


def inner_names(info, cname):
    """names bound inside component cname: its data and the with/for variables of its template"""
    return {s[2] for s in info.sites if s[0] == cname and s[1] in ("data", "with", "for")}


# ---------------------------------------------------------------------------------------------------------------
# root-cause classes (names are the trigger strings of known_findings.json)
# ---------------------------------------------------------------------------------------------------------------
K_ONLY = "c03-django-only-fill-rendered-in-isolated-inner-context"
K_LEAK = "c03-loop-variables-forwarded-into-isolated-component"
K_RECAP = "c03-forloop-layers-recaptured-over-inner-binders"
K_ISO_BTW = "c03-isolated-fill-variables-inserted-below-owner-component-data"
K_DJ_BTW = "c03-django-fill-variables-inserted-above-inner-component-data"
K_DFLT = "c03-default-alias-rendered-while-fill-variables-are-on-the-context"
K_ESCAPE = "c03-default-alias-passed-on-as-a-value"
CLASS_ORDER = [K_ONLY, K_LEAK, K_ESCAPE, K_DFLT, K_RECAP, K_ISO_BTW, K_DJ_BTW]

CLASS_TEXT = {
    # every predicate OVER-approximates the input class of its root cause; inside a class the observed deviation must equal
    # the mechanism model Core/Mech.v (c03.judge_with_mechanism), otherwise it is reported as c03-deviation-beyond-known-*
    K_ONLY: "django mode: a component tag with the `only` flag has fill content that is not constant text "
            "(the fill is rendered in the isolated inner context instead of the scope of the tag)",
    K_LEAK: "some tag is rendered isolated (isolated mode or `only`), the program has a {% for %} loop, and a component template reads "
            "a for/with variable that is not one of its own data variables, or reads forloop outside a loop of its own",
    K_RECAP: "the program has a {% for %} loop and a fill, and a for- or with-variable that is read somewhere shares its name with another with / "
             "for / fill-alias / component-data variable (FillNode._extract_fill re-captures every context layer containing `forloop`)",
    K_ISO_BTW: "isolated mode / `only`: a fill whose component tag is written in a component template has a with/for variable "
               "between tag and fill that shares its name with another binder (or reads forloop of a loop between tag and fill "
               "while the program has another loop)",
    K_DJ_BTW: "django mode: a fill whose component tag is not at the top level of the page has a with/for variable between tag "
              "and fill that shares its name with another binder (or reads forloop of a loop between tag and fill while the program has another loop)",
    K_DFLT: "a fill has a default= alias and reads it somewhere in its body (any depth, static or dynamic fill name): the slot default is "
            "rendered lazily while the layers of the fill are on the Context",
    K_ESCAPE: "a fill reads its default= alias in a value position (keyword argument, with-value, slot data, condition, loop source, fill "
              "name) or anywhere inside a component tag nested in the fill: the lazily rendered slot default leaves the fill",
}


def _iso(info, f_or_tag_only):
    return info.mode == "isolated" or f_or_tag_only


def binders_in(ts):
    out = set()
    for t in G.flatten(ts):
        if t[0] in ("with", "for"):
            out.add(t[1])
        elif t[0] == "fill":
            out |= {a for a in (t[2], t[3]) if a}
    return out


def classes(prog, info=None):
    info = info or analyse(prog)
    out = []
    mode = info.mode
    have_fill = bool(info.fills)
    # K_ONLY
    if mode == "django":
        for owner, t, enc, depth in info.tags:
            if t[3] and any(x[0] != "text" and not (x[0] == "fill" and not x[2] and not x[3] and x[1][0] == "str") for x in G.flatten(t[4])):
                out.append(K_ONLY)
                break
    # The predicates below OVER-approximate the input class of each root cause (every program in which the root cause can show
    # is inside; many programs in which it cannot are inside too). They only NAME a deviation that was observed; whether the
    # observed deviation is the recorded one is decided by the comparison with the mechanism model (c03.judge_with_mechanism).
    nfor = sum(1 for s in info.sites if s[1] == "for")
    scoped = {s[2] for s in info.sites if s[1] in ("for", "with")}
    # K_LEAK: some tag is rendered isolated, some loop exists (its layer - or the variable layer of a fill standing in it - is
    # forwarded down every chain of isolated copies), and a component template reads a for/with variable that is not its own
    # data, or forloop outside a loop of its own
    if nfor and any(_iso(info, t[3]) for _, t, _, _ in info.tags):
        for cn in info.lib:
            free, cnt = info.tpl_reads[cn]
            if cnt or (free & scoped):
                out.append(K_LEAK)
                break
    # K_RECAP: FillNode._extract_fill copies EVERY layer that contains `forloop` - the layer of an enclosing {% for %}, the
    # variable layer of an enclosing fill standing in a loop, a forwarded loop layer - on top of the variables captured for the fill
    if have_fill and nfor:
        if any(n_sites(info, x, ("with", "for", "sd", "df", "data")) > 1 for x in scoped & info.every_read):
            out.append(K_RECAP)
    # K_ISO_BTW / K_DJ_BTW: where render_func inserts the fill's variable layer
    for f in info.fills:
        if not f.btw:
            continue
        names = [x for _, x in f.btw]
        has_for = any(k == "for" for k, _ in f.btw)
        reads_cnt = all_reads(f.body)[1]
        hit = any(n_sites(info, x, ("data", "with", "for", "sd", "df")) > 1 for x in names) or (has_for and reads_cnt and nfor > 1)
        if not hit:
            continue
        if _iso(info, f.only):
            if f.owner is not None and K_ISO_BTW not in out:
                out.append(K_ISO_BTW)
        elif (f.owner is not None or f.tag_depth > 0) and K_DJ_BTW not in out:
            out.append(K_DJ_BTW)
    # K_DFLT: a fill has a default= alias and reads it somewhere in its body (any depth, static or dynamic fill name, under any
    # for / with / if): the slot default is rendered lazily, while the layers of the fill are on the (shared) Context
    # K_ESCAPE: ... and the read is not a plain print in the fill's own content: a value position (keyword argument, with-value,
    # slot data, condition, loop source, fill name) or anywhere inside a component tag nested in the fill
    for f in info.fills:
        df = [x for k, x in f.aliases if k == "df"]
        if not df or df[0] not in all_reads(f.body)[0]:
            continue
        if K_DFLT not in out:
            out.append(K_DFLT)
        esc = any(df[0] in expr_reads(e)[0] for t in G.flatten(f.body) if t[0] != "out" for e in node_exprs(t)) or \
            any(df[0] in all_reads([t])[0] for t in G.flatten(f.body) if t[0] == "comp")
        if esc and K_ESCAPE not in out:
            out.append(K_ESCAPE)
    return [k for k in CLASS_ORDER if k in out]


# ---------------------------------------------------------------------------------------------------------------
# targeted collisions
# ---------------------------------------------------------------------------------------------------------------
def targeted_pairs(prog, info=None):
    """[(relation, keep_name, renamed_name)] - merging renamed_name into keep_name makes two names that are related
    through a fill or a component tag (binder/binder = shadowing, binder/read = visibility) coincide."""
    info = info or analyse(prog)
    role = G.role_of
    out = []

    def add(rel, a, b):
        if a == b or not role(a) or not role(b):
            return
        if role(b) == "p" or (role(a) == "u" and role(b) != "u"):
            a, b = b, a          # keep page keys stable; rename a probe into a binder, not vice versa
        if role(a) == "p" and role(b) == "p":
            return
        if role(a) == "u" and role(b) == "u":
            return
        out.append((rel, a, b))

    data_of = {cn: [x for x, _ in cd["data"]] for cn, cd in prog["lib"]}
    page_names = [k for k, _ in prog["ctx"]]
    for f in info.fills:
        own = data_of[f.owner] if f.owner is not None else page_names
        enc = [x for _, x in f.enc]
        btw = [x for _, x in f.btw]
        al = [x for _, x in f.aliases]
        inner = sorted(inner_names(info, f.cname)) if f.cname in info.lib else []
        freads = sorted(all_reads(f.body)[0])
        loops = [x for k, x in f.enc + f.btw if k == "for"]
        for b in btw:
            for o in own:
                add("btw~owner", b, o)
            for e in enc:
                add("btw~enclosing", b, e)
            for i in inner:
                add("btw~inner", b, i)
        for a in al:
            for i in inner:
                add("alias~inner", a, i)
            for r in sorted(info.slot_default_reads.get(f.cname, ())):
                add("alias~default-read", a, r)
            for e in enc + btw:
                add("alias~outer-binder", a, e)
        for lv in loops:
            for x in al + [x for k, x in f.enc + f.btw if k != "for"] + sorted(binders_in(f.body)):
                add("loop~inner-binder", lv, x)
        for r in freads:
            for i in inner:
                add("fillread~inner", r, i)
            for o in own + enc:
                add("fillread~outer", r, o)
    for owner, t, enc, depth in info.tags:
        if t[1] not in info.lib:
            continue
        free = sorted(info.tpl_reads[t[1]][0])
        own = data_of[owner] if owner is not None else page_names
        for r in free:
            for kind, x in enc:
                add("tplread~loop" if kind == "for" else "tplread~outer", r, x)
            for o in own:
                add("tplread~outer", r, o)
    # de-duplicate
    seen, res = set(), []
    for rel, a, b in out:
        if (a, b) not in seen:
            seen.add((a, b))
            res.append((rel, a, b))
    return res


# ---------------------------------------------------------------------------------------------------------------
# two-run non-interference
# ---------------------------------------------------------------------------------------------------------------
def map_tpls(ts, f):
    """rebuild a template list bottom-up; f(node_with_mapped_children) -> list of nodes"""
    out = []
    for t in ts:
        k = t[0]
        if k == "if":
            t = ("if", t[1], map_tpls(t[2], f), map_tpls(t[3], f))
        elif k in G.BODY_IDX:
            bi = G.BODY_IDX[k][0]
            t = t[:bi] + (map_tpls(t[bi], f),) + t[bi + 1:]
        out.extend(f(t))
    return out


def secret_name(cname):
    return "zs_" + "".join(ch if ch.isalnum() else "_" for ch in cname)


def ni_variant(prog, tag):
    """A program for the two-run non-interference oracle.
    * every component gets one more data variable zs_<c> = "S<tag>" which its own template never reads,
    * every fill (explicit or implicit) of a tag of component c additionally prints {{ zs_<c> }} (isolated rendering of c:
      inner data must be invisible to the caller's fill content) and {{ forloop.counter }} (per-iteration state of the
      loops around the tag / the fill),
    * the page lists are passed down (zl, zn) so that loops in component templates iterate, at least twice,
    * every component template additionally prints the unpassed page variable {{ zu_page }} and {{ forloop.counter }}
      (outside any loop of its own),
    * the page context gets zu_page = "U<tag>".
    For tag 'A' / 'B' the two programs differ ONLY in those unpassed values."""
    lib_names = [n for n, _ in prog["lib"]]

    def add_fill_probes(ts, cname):
        out = []
        for t in ts:
            k = t[0]
            if k == "fill":
                t = t[:4] + ([("out", ("var", secret_name(cname))), ("out", ("counter",))] + list(t[4]),)
            elif k == "if":
                t = ("if", t[1], add_fill_probes(t[2], cname), add_fill_probes(t[3], cname))
            elif k in ("for", "with", "provide"):
                t = t[:3] + (add_fill_probes(t[3], cname),)
            out.append(t)
        return out

    def g(t):
        if t[0] == "comp" and t[1] in lib_names and t[4]:
            has_fill = any(x[0] == "fill" for x in _flat_own(t[4]))
            if has_fill:
                return [t[:4] + (add_fill_probes(list(t[4]), t[1]),)]
            if not all(x[0] == "text" and not x[1].strip() for x in t[4]):
                return [t[:4] + ([("out", ("var", secret_name(t[1]))), ("out", ("counter",))] + list(t[4]),)]
        return [t]

    # the page's list variables reach component templates only when passed: every tag passes them on (zl / zn), every
    # component takes them into its data, and loops written in component templates iterate over the passed lists -
    # so that loops inside component templates really iterate in isolated mode too
    def pass_lists(owner_is_page):
        def h(t):
            if t[0] == "comp" and t[1] in lib_names:
                src = (("var", "plist"), ("var", "snames")) if owner_is_page else (("var", "zl"), ("var", "zn"))
                return [("comp", t[1], list(t[2]) + [("zl", src[0]), ("zn", src[1])], t[3], t[4])]
            if t[0] == "for" and not owner_is_page and t[2] == ("var", "plist"):
                return [("for", t[1], ("var", "zl"), t[3])]
            if t[0] == "for" and not owner_is_page and t[2] == ("var", "snames"):
                return [("for", t[1], ("var", "zn"), t[3])]
            return [t]
        return h

    q = dict(prog)
    q["page"] = map_tpls(map_tpls(prog["page"], g), pass_lists(True))
    q["lib"] = []
    for n, cd in prog["lib"]:
        tpl = map_tpls(map_tpls(cd["tpl"], g), pass_lists(False)) + [("text", "^"), ("out", ("var", "zu_page")), ("out", ("counter",))]
        q["lib"].append((n, {"tpl": tpl, "data": list(cd["data"]) + [("zl", ("kw", "zl")), ("zn", ("kw", "zn")),
                                                                   (secret_name(n), ("str", "S" + tag))]}))
    # loops must iterate at least twice for per-iteration state (forloop) to matter
    q["ctx"] = [(k, (["I1", "I2"] if k == "plist" and len(v) < 2 else v)) for k, v in prog["ctx"]] + [("zu_page", "U" + tag)]
    return q


def _flat_own(ts):
    out = []
    for t in ts:
        out.append(t)
        if t[0] == "if":
            out += _flat_own(t[2]) + _flat_own(t[3])
        elif t[0] in ("for", "with", "provide"):
            out += _flat_own(t[3])
    return out


# ---------------------------------------------------------------------------------------------------------------
# exhaustive small family: one fill, every assignment of colliding / non-colliding names to the binders around it
# ---------------------------------------------------------------------------------------------------------------
GRID_SITES = ("P", "O", "W_enc", "I_enc", "BTW", "SD", "D_in", "W_in")


def grid_program(mode, nested, only, btw_for, names):
    """names: dict site -> variable name.  The fill content reads {{ x }} (and forloop.counter); binders named x collide.  Sites: P page variable, O data of the owner component (nested only), W_enc / I_enc with / for around the
    component tag, BTW with (or for) between tag and fill, SD slot-data alias, D_in data of the inner component, W_in with
    around the slot in the inner template."""
    T = lambda s: ("text", s)                                   # noqa
    n = names
    fill_name = ("var", n["BTW"]) if btw_for else ("str", "s")
    fill = ("fill", fill_name, n["SD"], None, [T("["), ("out", ("var", "x")), T("|"), ("out", ("counter",)), T("]")])
    between = ("for", n["BTW"], ("var", "sl"), [fill]) if btw_for else ("with", n["BTW"], ("str", "Wb"), [fill])
    tag = ("comp", "A", [("a", ("str", "k"))], only, [between])
    block = [("with", n["W_enc"], ("str", "We"), [("for", n["I_enc"], ("var", "xs"), [tag, T(";")])])]
    a_tpl = [T("A("), ("with", n["W_in"], ("str", "Wi"), [("slot", "s", False, False, [("k", ("str", "K"))], [T("dflt")])]), T(")")]
    lib = [("A", {"tpl": a_tpl, "data": [(n["D_in"], ("str", "Dv"))]})]
    ctx = [(n["P"], "Pv")] + [(k, v) for k, v in (("xs", ["I1", "I2"]), ("sl", ["s"])) if k != n["P"]]
    if nested:
        lib.append(("B", {"tpl": [T("B:")] + block + [T(".")],
                          "data": [("xs", ("kw", "l")), ("sl", ("kw", "m")), (n["O"], ("str", "Ov"))]}))
        page = [("comp", "B", [("l", ("var", "xs")), ("m", ("var", "sl"))], False, [])]
    else:
        page = block
    return {"mode": mode, "lib": lib, "page": page, "ctx": ctx, "nerr": 0}


def grid_programs(thorough):
    import itertools
    out = []
    for nested in (False, True):
        sites = [s for s in GRID_SITES if nested or s != "O"]
        for bits in itertools.product("yx", repeat=len(sites)):
            if not thorough and sum(b == "x" for b in bits) > 3:
                continue
            # a binder that does not collide gets a name of its own
            names = {s: ("x" if b == "x" else "n_" + s.lower()) for s, b in zip(sites, bits)}
            names.setdefault("O", "n_o")
            for mode in ("isolated", "django"):
                for only in (False, True):
                    for btw_for in (False, True):
                        tagname = "grid:%s%s%s:%s" % ("nested" if nested else "page", "-only" if only else "", "-for" if btw_for else "",
                                                       "".join(s[0] + s[-1] for s, b in zip(sites, bits) if b == "x") or "none")
                        out.append((tagname, mode, grid_program(mode, nested, only, btw_for, names)))
    return out


def loop_programs():
    """loops inside component templates around a child component: per-iteration state reaches the deferred child and its fills"""
    T = lambda s: ("text", s)                                   # noqa
    out = []
    for mode in ("isolated", "django"):
        for child_only in (False, True):
            for reads in ("none", "counter", "x"):
                for body in ("none", "fill-counter", "fill-x", "with-fill", "implicit"):
                    read = {"none": [], "counter": [("out", ("counter",))], "x": [("out", ("var", "x"))]}[reads]
                    b = {"none": [],
                         "fill-counter": [("fill", ("str", "s"), None, None, [("out", ("counter",))])],
                         "fill-x": [("fill", ("str", "s"), None, None, [("out", ("var", "x")), ("out", ("counter",))])],
                         "with-fill": [("with", "w", ("var", "x"), [("fill", ("str", "s"), None, None, [("out", ("var", "w")), ("out", ("counter",))])])],
                         "implicit": [T("i:"), ("out", ("var", "x")), ("out", ("counter",))]}[body]
                    ch = ("ch", {"tpl": [T("ch["), ("out", ("var", "d"))] + read + [T("("), ("slot", "s", True, False, [], [T("dflt")]), T(")]")],
                                 "data": [("d", ("kw", "a"))]})
                    pa = ("pa", {"tpl": [T("pa:"), ("for", "x", ("var", "xs"), [("comp", "ch", [("a", ("var", "x"))], child_only, b), ("out", ("counter",))]), T(";")],
                                 "data": [("xs", ("kw", "l"))]})
                    prog = {"mode": mode, "lib": [pa, ch], "page": [("comp", "pa", [("l", ("var", "xs"))], False, [])],
                            "ctx": [("p", "Pv"), ("xs", ["I1", "I2", "I3"])], "nerr": 0}
                    out.append(("loops:%s%s/%s" % (reads, "-only" if child_only else "", body), mode, prog))
    # what is bound BETWEEN a loop and an isolated component tag must not reach the template either: a with-variable, the
    # data of a parent component that stands in a page-level loop, the alias / variables of a fill that stands in a loop.
    # The reader prints those names, the loop variable and forloop.counter.
    rd = ("rd", {"tpl": [T("rd["), ("out", ("var", "w")), T("|"), ("out", ("var", "d")), T("|"), ("out", ("var", "sd")), T("|"),
                         ("out", ("var", "x")), T("|"), ("out", ("counter",)), T("]")], "data": [("own", ("kw", "a"))]})
    sl = ("sl", {"tpl": [T("sl("), ("slot", "s", True, False, [("k", ("str", "K"))], []), T(")")], "data": []})
    for mode in ("isolated", "django"):
        only = mode == "django"
        shapes = {
            "for-with-tag": ([rd], [("for", "x", ("var", "xs"), [("with", "w", ("str", "W"), [("comp", "rd", [], only, [])])])]),
            "for-with-with-tag": ([rd], [("for", "x", ("var", "xs"), [("with", "w", ("str", "W"), [("with", "d", ("str", "D"), [("comp", "rd", [], only, [])])])])]),
            "with-for-tag": ([rd], [("with", "w", ("str", "W"), [("for", "x", ("var", "xs"), [("comp", "rd", [], only, [])])])]),
            "for-parent-data": ([rd, ("pa", {"tpl": [T("pa:"), ("comp", "rd", [], only, []), T(";")], "data": [("d", ("kw", "a"))]})],
                                [("for", "x", ("var", "xs"), [("comp", "pa", [("a", ("str", "D"))], only, [])])]),
            "for-parent-with": ([rd, ("pa", {"tpl": [T("pa:"), ("with", "w", ("str", "W"), [("comp", "rd", [], only, [])]), T(";")], "data": [("d", ("kw", "a"))]})],
                                [("for", "x", ("var", "xs"), [("comp", "pa", [("a", ("str", "D"))], only, [])])]),
            "for-fill-tag": ([rd, sl], [("for", "x", ("var", "xs"), [("comp", "sl", [], only, [("fill", ("str", "s"), "sd", None, [("comp", "rd", [], only, [])])])])]),
            "for-with-fill-tag": ([rd, sl], [("for", "x", ("var", "xs"), [("comp", "sl", [], only, [("with", "w", ("str", "W"), [("fill", ("str", "s"), "sd", None, [("comp", "rd", [], only, [])])])])])]),
        }
        for name in sorted(shapes):
            lib, page = shapes[name]
            out.append(("loops:between/%s" % name, mode,
                        {"mode": mode, "lib": lib, "page": page, "ctx": [("p", "Pv"), ("xs", ["I1", "I2"])], "nerr": 0}))
    return out


# ---------------------------------------------------------------------------------------------------------------
# outside the calculus: state of NESTED loops (forloop.parentloop) seen by fills and child templates.
# Raw template text is carried in text nodes (printed verbatim on the implementation side); these programs never go
# to the Coq reference - the expected output is computed here from the loop structure.
# ---------------------------------------------------------------------------------------------------------------
def parentloop_programs():
    T = lambda s: ("text", s)                                   # noqa
    RD = "[{{ forloop.parentloop.counter }}.{{ forloop.counter }}:{{ x }}{{ y }}]"
    xs, ys = ["a", "b", "c"], ["x", "y"]
    grid = "".join("[%d.%d:%s%s]" % (i, j, x, y) for i, x in enumerate(xs, 1) for j, y in enumerate(ys, 1))
    out = []

    def loops(body):
        return [T("{% for x in xs %}{% for y in ys %}")] + body + [T("{% endfor %}{% endfor %}")]

    def prog(mode, lib, page):
        return {"mode": mode, "lib": lib, "page": page, "ctx": [("xs", xs), ("ys", ys), ("names", ["s1", "s2"])], "nerr": 0}
    passl = [("xs", ("var", "xs")), ("ys", ("var", "ys")), ("names", ("var", "names"))]
    ldata = [("xs", ("kw", "xs")), ("ys", ("kw", "ys")), ("names", ("kw", "names"))]
    ch_slot = ("ch", {"tpl": [("slot", "s", True, False, [], [])], "data": []})
    ch_read = ("ch", {"tpl": [T(RD)], "data": []})
    ch2 = ("ch2", {"tpl": [("slot", "s1", False, False, [], []), T("/"), ("slot", "s2", False, False, [], [])], "data": []})
    for mode in ("isolated", "django"):
        for only in (False, True):
            if mode == "django" and only:
                continue    # fills of `only` tags in django mode: recorded class K_ONLY
            fill = [("comp", "ch", [], only, [("fill", ("str", "s"), None, None, [T(RD)])])]
            impl = [("comp", "ch", [], only, [T(RD)])]
            for where in ("template", "page"):
                for kind, body in (("fill", fill), ("implicit", impl)):
                    if where == "template":
                        lib = [("pa", {"tpl": loops(body), "data": ldata}), ch_slot]
                        page = [("comp", "pa", passl, False, [])]
                    else:
                        lib, page = [ch_slot], loops(body)
                    # django, explicit fill under two loops of a component template: the re-captured (shallow) copy of the
                    # inner loop's state still points at the live outer loop = root cause of class K_RECAP
                    cls = K_RECAP if (mode == "django" and where == "template" and kind == "fill") else None
                    out.append(("parentloop:%s/%s%s" % (where, kind, "-only" if only else ""), prog(mode, lib, page), grid, cls))
                # loop around the tag, loop between tag and fill (dynamic fill names)
                btw = [T("{% for x in xs %}"),
                       ("comp", "ch2", [], only, [("for", "n", ("var", "names"),
                                                   [("fill", ("var", "n"), None, None, [T("[{{ forloop.parentloop.counter }}.{{ forloop.counter }}:{{ x }}{{ n }}]")])])]),
                       T("{% endfor %}")]
                exp = "".join("[%d.1:%ss1]/[%d.2:%ss2]" % (i, x, i, x) for i, x in enumerate(xs, 1))
                if where == "template":
                    lib = [("pa", {"tpl": btw, "data": ldata}), ch2]
                    page = [("comp", "pa", passl, False, [])]
                else:
                    lib, page = [ch2], btw
                # loop between tag and fill inside a loop of a component template: isolated - the fill's variable layer
                # sits below the owner's loop layer (K_ISO_BTW); django - shallow copy of the loop state (K_RECAP)
                cls = (K_ISO_BTW if mode == "isolated" else K_RECAP) if where == "template" else None
                out.append(("parentloop:%s/between%s" % (where, "-only" if only else ""), prog(mode, lib, page), exp, cls))
        # django mode: the child TEMPLATE sees the surrounding loops
        if mode == "django":
            lib = [("pa", {"tpl": loops([("comp", "ch", [], False, [])]), "data": ldata}), ch_read]
            out.append(("parentloop:template/child-template", prog(mode, lib, [("comp", "pa", passl, False, [])]), grid, None))
            out.append(("parentloop:page/child-template", prog(mode, [ch_read], loops([("comp", "ch", [], False, [])])), grid, None))
    return out


# ---------------------------------------------------------------------------------------------------------------
# outside the calculus: `... as var` tags written directly in a component body bind a variable BETWEEN tag and fill
# (they write into the layer that is on top while the body is rendered).  Expected output computed here.
# ---------------------------------------------------------------------------------------------------------------
def asvar_programs():
    """[(name, prog, expected, ni_partner or None)]: ni_partner = the same program with another value of the outer page
    variable x (isolated mode: the outputs must be identical - x is re-bound before the fills and never passed)"""
    T = lambda s: ("text", s)                                   # noqa
    binders = {"firstof-lit": ('{% firstof v1 "lit" as x %}', lambda v1: v1 or "lit"),
               "firstof-var": ('{% firstof v1 "lit" as x %}', lambda v1: v1 or "lit"),
               "cycle": ("{% cycle 'a' 'b' as x silent %}", lambda v1: "a")}
    out = []
    for mode in ("isolated", "django"):
        for bname in sorted(binders):
            src, val = binders[bname]
            v1 = "V1" if bname == "firstof-var" else ""
            for where in ("page", "template"):
                for page_x in (None, "PX"):
                    for inner_x in (None, "IX"):
                        for only in ((False, True) if mode == "isolated" else (False,)):
                            for in_if in (False, True):
                                if mode == "django" and where == "template" and inner_x:
                                    continue      # nested tag + inner data of the same name: recorded class K_DJ_BTW
                                if in_if and (page_x or inner_x or only):
                                    continue
                                if bname == "cycle" and page_x:
                                    continue      # Django's {% cycle .. as x %} uses set_upward: it overwrites an existing outer x

                                asval = val(v1)
                                fx = asval if (mode == "isolated" or not inner_x) else inner_x
                                tx = inner_x or ("" if mode == "isolated" else (page_x or ""))
                                binder = [T("{% if yes %}" + src + "{% endif %}")] if in_if else [T(src)]
                                body = binder + [("fill", ("str", "s1"), None, None, [T("["), ("out", ("var", "x")), T("]")]), T(" "),
                                                 ("fill", ("str", "s2"), None, None, [T("["), ("out", ("var", "x")), T("!]")])]
                                a = ("A", {"tpl": [T("A:"), ("out", ("var", "x")), T(";("), ("slot", "s1", False, False, [], []), T(")("),
                                                   ("slot", "s2", False, False, [], []), T(")")],
                                           "data": [("x", ("str", inner_x))] if inner_x else []})
                                tag = ("comp", "A", [], only, body)
                                exp = "A:%s;([%s])([%s!])" % (tx, fx, fx)

                                def mk(px):
                                    ctx = [("v1", v1), ("yes", "1")] + ([("x", px)] if px else [])
                                    if where == "page":
                                        return {"mode": mode, "lib": [a], "page": [tag], "ctx": ctx, "nerr": 0}
                                    p = ("P", {"tpl": [T("P:"), tag, T(".")], "data": [("v1", ("kw", "v")), ("yes", ("str", "1"))]})
                                    return {"mode": mode, "lib": [a, p], "page": [("comp", "P", [("v", ("var", "v1"))], False, [])], "ctx": ctx, "nerr": 0}
                                if where == "template":
                                    exp = "P:" + exp + "."
                                name = "asvar:%s/%s%s%s%s%s" % (bname, where, "-only" if only else "", "-pagex" if page_x else "",
                                                                 "-innerx" if inner_x else "", "-if" if in_if else "")
                                partner = mk("PX2") if (mode == "isolated" and page_x) else None
                                out.append((name, mk(page_x), exp, partner))
    return out
