"""C03 - variable scoping follows the configured context behaviour.

Reference semantics: coq/Core/Sem.v (fill_state / comp_state)   Theorems: coq/Props/C03.v
Correspondence: programs whose variable names are all distinct (plus unbound "probe" references), then the same
program with TWO binders merged into one name (a collision of a known pair of roles), both context behaviours, `only`
on/off.  Direct oracle on the implementation: the caller's Context is left exactly as found.
"""
import json
import os

import common as C
import core_run as R
import genprog as G
from c01 import fix_prog, possible_kinds

IMPORTS = "From DJC Require Import Lib.Base Core.Syntax Core.Sem."
CORPUS = os.path.join(C.VERIF, "corpus", "C03")


def has_only(prog):
    nodes = G.flatten(prog["page"]) + [t for _, cd in prog["lib"] for t in G.flatten(cd["tpl"])]
    return any(t[0] == "comp" and t[3] for t in nodes)


def strip_only(prog):
    def ts(l):
        out = []
        for t in l:
            k = t[0]
            if k == "comp":
                t = ("comp", t[1], t[2], False, ts(t[4]))
            elif k == "if":
                t = ("if", t[1], ts(t[2]), ts(t[3]))
            elif k in ("for", "with", "provide"):
                t = t[:3] + (ts(t[3]),)
            elif k == "slot":
                t = t[:5] + (ts(t[5]),)
            elif k == "fill":
                t = t[:4] + (ts(t[4]),)
            out.append(t)
        return out
    q = dict(prog)
    q["page"] = ts(prog["page"])
    q["lib"] = [(n, dict(cd, tpl=ts(cd["tpl"]))) for n, cd in prog["lib"]]
    return q


def gen_cases(chk, n, mode):
    """yields (tag, program) - tag = 'fresh' or 'A~B' (roles of the merged binders)"""
    r = chk.rng
    for i in range(n):
        small = i < n // 3
        g = G.Gen(r, mode, ncomp=r.randint(1, 2) if small else r.randint(1, 3), collide=0.0, provide=0.0, errors=0.0,
                  depth=2 if small else 3, only=0.15, probes=0.25, loops=0.35)
        p = g.program()
        yield ("fresh", i, p)
        names = G.names_of(p)
        keys = sorted(names)
        if len(keys) < 2:
            continue
        for _ in range(3):
            a, b = r.sample(keys, 2)
            if names[a] == "p" and names[b] == "p":
                continue
            if names[a] == "u" and names[b] == "u":
                continue
            if names[b] == "p":          # keep page-context keys stable: rename the other one
                a, b = b, a
            yield ("~".join(sorted([names[a], names[b]])), i, G.rename(p, b, a))


def evaluate(chk, cases, tag):
    """run implementation + model for every case; returns list of (tag, idx, prog, impl_outcome, agrees)"""
    rows, terms = [], []
    for ctag, idx, prog in cases:
        rep = []
        o = R.render_page(prog, ctx_report=rep)
        rows.append([ctag, idx, prog, o, None])
        # direct oracle: the caller's Context is left as found (dicts, flatten, render_context depth)
        if rep and rep[0][0] != rep[0][1] and o[0] == "ok":
            chk.fail("c03-caller-context-changed", "Template.render left the caller's Context changed",
                     {"program": prog, "before": rep[0][0], "after": rep[0][1]})
        if o[0] == "err" and o[1].startswith("other:"):
            # hang / RecursionError / foreign exception: never what the reference says; classified like an output difference
            terms.append("(%s, OErr ERuntime)" % G.c_prog(prog) if False else None)
            rows[-1][4] = False
        else:
            terms.append("(%s, %s)" % (G.c_prog(prog), R.c_outcome(o)))
    idx = [i for i, t in enumerate(terms) if t is not None]
    bad = set(C.coq_eval_cases("C03", tag, IMPORTS, "core_case", "check_core_lenient", [terms[i] for i in idx], shard=150)) if idx else set()
    for j, i in enumerate(idx):
        rows[i][4] = j not in bad
    return rows


def classify(chk, mode, rows):
    fresh_ok = {r[1]: r[4] for r in rows if r[0] == "fresh"}
    for ctag, idx, prog, o, ok in rows:
        feats = G.features(prog)
        nontriv = "fill" in feats and ("comp-nested" in feats or "comp-in-loop" in feats) and ctag != "fresh"
        chk.count(json.dumps(prog, sort_keys=True), nontriv, kind="%s/%s" % (mode, ctag),
                  sample={"mode": mode, "collision": ctag, "page": G.d_tpls(prog["page"]),
                          "components": {n: G.d_tpls(cd["tpl"]) for n, cd in prog["lib"]}, "output": o[1][:160]}
                  if nontriv and len(G.d_tpls(prog["page"])) < 220 else None)
        if ok:
            continue
        if ctag == "fresh":
            trig = "c03-%s-distinct-names%s" % (mode, "-only" if has_only(prog) else "")
            what = "output differs from the lexical reference although all variable names are distinct"
        elif not fresh_ok.get(idx, True):
            continue   # already reported for the collision-free original
        else:
            trig = "c03-%s-collision-%s%s" % (mode, ctag, "-only" if has_only(prog) else "")
            what = "output differs from the reference scoping once two binders (%s) share a name" % ctag
        chk.fail(trig, what, {"program": prog, "page": G.d_tpls(prog["page"]),
                              "components": {n: G.d_tpls(cd["tpl"]) for n, cd in prog["lib"]}, "implementation": o})


def corpus_cases():
    out = []
    if os.path.isdir(CORPUS):
        for f in sorted(os.listdir(CORPUS)):
            if f.endswith(".json"):
                d = json.load(open(os.path.join(CORPUS, f)))
                out.append((d.get("collision", "fresh"), f, fix_prog(d["program"])))
    return out


def run(tier, seed):
    import djsetup
    djsetup.setup()
    djsetup.patch_ids()
    chk = C.Check("C03", tier, seed)
    chk.prove()
    n = 1500 if tier == "thorough" else 220
    cc = corpus_cases()
    for mode in ("isolated", "django"):
        rows = evaluate(chk, [c for c in cc if c[2]["mode"] == mode], "corpus" + mode[:3])
        classify(chk, mode, rows)
        rows = evaluate(chk, list(gen_cases(chk, n, mode)), mode[:3])
        classify(chk, mode, rows)
    chk.assumptions = [
        "get_context_data is a total function of the keyword arguments; page context values are strings / lists of strings",
        "documented built-ins (True/False/None, component_vars) are not counted as leaks; `forloop` is treated as a variable bound by its loop",
        "errors are compared as 'raises' only (exception classes are C01's subject)",
    ]
    return chk.finish(
        rule="%d programs per context behaviour with pairwise distinct variable names and unbound probe references (only flag on ~15%% of tags), each also in up to 3 "
             "variants where two binders chosen at random (page variable p, component data d, with w, loop i, slot-data alias sd, default alias df, probe u) are "
             "merged into one name; expected output = reference scoping evaluated inside Coq. Non-trivial = a collision variant of a program with a fill and a "
             "nested or looped component. Distinct = distinct program text." % n,
        explanation="theorems of Props/C03.v re-checked; reference scoping evaluated by vm_compute for every program; caller-Context fingerprint compared before/after each render.",
        extra_trusted=["modelled, not verified: Django Context push/pop/flatten; snapshot_context is abstracted (the reference semantics is pure)"])


def replay(path):
    import djsetup
    import coredbg_lib as D
    djsetup.setup()
    djsetup.patch_ids()
    r = json.load(open(path))
    prog = fix_prog(r["case"]["program"])
    print(r.get("trigger"), "-", r.get("what"))
    print("mode:", prog["mode"], "ctx:", prog["ctx"])
    for n, cd in prog["lib"]:
        print("component", n, "data", cd["data"])
        print("   ", G.d_tpls(cd["tpl"]))
    print("page:", G.d_tpls(prog["page"]))
    print("implementation:", R.render_page(prog))
    print("reference:     ", D.model_outcome(prog))
    return 0
