"""C03 - variable scoping follows the configured context behaviour.

Reference semantics: coq/Core/Sem.v (fill_state / comp_state)
Theorems: coq/Props/C03.v (Core/ScopeProofs.v scope equations, Core/ScopeNI.v whole-program non-interference, Core/CtxStack.v layer stack)
Correspondence, expected output = reference scoping evaluated inside Coq:
  0. corpus/C03: one minimal witness per root-cause class;
  1. exhaustive small family (c03_util.grid_programs): ONE fill, every assignment of a colliding / own name to the 8 binder
     sites around it x both behaviours x only x tag position x with/for; loops in component templates (loop_programs);
  2. seeded programs with pairwise distinct names (plus unbound probe reads), the same program with TWO names merged
     (pairs related through a fill / component tag, plus random pairs), `only` on some tags and - django mode - on all tags,
     and probe variants (unpassed page variable / forloop read in every template, inner data / forloop read in every fill).
Direct oracles on the implementation (independent of the model):
  * the caller's Context is left exactly as found (layer count, flatten(), render_context depth, keys per layer);
  * two-run non-interference: the same program rendered with two page contexts / component data that differ only in
    variables that are never passed (page variable read by component templates, component data read by the caller's fill
    content) gives identical output when components are isolated (isolated mode; django mode with `only` on every tag).
A failing program is named by the root-cause class it belongs to (c03_util.classes: predicates on the program text);
a failure outside every class is reported as `c03-<mode>-unclassified` / `c03-<mode>-noninterference`.
"""
import json
import os

import common as C
import core_run as R
import genprog as G
import c03_ref as PR
import c03_util as U
from c01 import fix_prog

IMPORTS = "From DJC Require Import Lib.Base Core.Syntax Core.Sem."
CORPUS = os.path.join(C.VERIF, "corpus", "C03")


def has_only(prog):
    nodes = G.flatten(prog["page"]) + [t for _, cd in prog["lib"] for t in G.flatten(cd["tpl"])]
    return any(t[0] == "comp" and t[3] for t in nodes)


def set_only(prog, value=True):
    def f(t):
        if t[0] == "comp":
            return [("comp", t[1], t[2], value, t[4])]
        return [t]
    q = dict(prog)
    q["page"] = U.map_tpls(prog["page"], f)
    q["lib"] = [(n, dict(cd, tpl=U.map_tpls(cd["tpl"], f))) for n, cd in prog["lib"]]
    return q


def gen_cases(chk, n, mode):
    """yields (kind, base_index, program); kind = fresh | all-only | ni-A | <relation of the merged names>"""
    r = chk.rng
    for i in range(n):
        small = i < n // 3
        g = G.Gen(r, mode, ncomp=r.randint(1, 2) if small else r.randint(1, 3), collide=0.0, provide=0.0, errors=0.0,
                  depth=2 if small else 3, only=0.15, probes=0.25, loops=0.35)
        p = g.program()
        yield ("fresh", i, p)
        if mode == "django":
            yield ("all-only", i, set_only(p))
        # targeted collisions: names related through a fill / component tag
        tp = U.targeted_pairs(p)
        by_rel = {}
        for rel, a, b in tp:
            by_rel.setdefault(rel, []).append((a, b))
        rels = sorted(by_rel)
        r.shuffle(rels)
        for rel in rels[:4]:
            a, b = r.choice(by_rel[rel])
            q = G.rename(p, b, a)
            yield (rel, i, q)
            if mode == "django" and r.random() < 0.25:
                yield (rel + "/all-only", i, set_only(q))
        # random collisions (roles of the merged binders)
        names = G.names_of(p)
        keys = sorted(names)
        if len(keys) >= 2:
            for _ in range(2):
                a, b = r.sample(keys, 2)
                if names[a] == names[b] and names[a] in ("p", "u"):
                    continue
                if names[b] == "p" or (names[a] == "u" and names[b] != "u"):
                    a, b = b, a
                yield ("rnd:" + "~".join(sorted([names[a], names[b]])), i, G.rename(p, b, a))


def render(prog, ctx_report=None):
    """render on the implementation; a render that misses the 4 s watchdog is repeated once with a generous limit (a loaded
    machine can make a healthy render slow) - only a second timeout counts as a hang"""
    rep = []
    o = R.render_page(prog, ctx_report=rep)
    if o == ("err", "other:Timeout"):
        rep = []
        _limit[0] = 20.0
        try:
            o = R.render_page(prog, ctx_report=rep)
        finally:
            _limit[0] = 4.0
    if ctx_report is not None:
        ctx_report.extend(rep)
    return o


_private = {}


def private_registry(mode):
    """one private ComponentRegistry per context behaviour (own tag Library in the engine builtins, own tag name: the package
    refuses two registries with the same start tag), created once per process"""
    if mode not in _private:
        from django.template import Library
        from django.template.engine import Engine
        from django_components import ComponentFormatter, ComponentRegistry, RegistrySettings
        lib = Library()
        tag = "pcomp_" + mode[:3]
        reg = ComponentRegistry(library=lib, settings=RegistrySettings(context_behavior=mode, tag_formatter=ComponentFormatter(tag)))
        Engine.get_default().template_builtins.append(lib)
        _private[mode] = (reg, tag)
    return _private[mode]


def render_private(prog):
    """the same program with its components registered in a PRIVATE ComponentRegistry whose RegistrySettings.context_behavior is
    the program's mode, while the GLOBAL COMPONENTS.context_behavior is the OPPOSITE mode: scoping must follow the behaviour
    configured for the component's registry.  The templates use that registry's tag ({% pcomp_iso %} / {% pcomp_dja %})."""
    import djsetup
    from django.template import Context, Template
    from django_components import Component
    import django_components.cache as dc_cache
    if not prog["lib"]:
        return None
    opposite = "django" if prog["mode"] == "isolated" else "isolated"
    reg, tag = private_registry(prog["mode"])

    def retag(src):
        return src.replace("{% component ", "{%% %s " % tag).replace("{% endcomponent %}", "{%% end%s %%}" % tag)
    _serial[0] += 1
    with djsetup.components_settings(context_behavior=opposite):
        try:
            for cname, cd in prog["lib"]:
                cls = type("GenP_%s" % cname, (Component,), {"template": retag(G.d_tpls(cd["tpl"])),
                                                            "get_context_data": R.make_get_context_data(cd["data"]),
                                                            "__module__": "verif_c03_private_%d" % _serial[0]})
                reg.register(cname, cls)
            src = retag(G.d_tpls(prog["page"]))
            return R.outcome_of(lambda: Template(src).render(Context(dict(prog["ctx"]))))
        finally:
            for cname in list(reg.all()):
                reg.unregister(cname)


_serial = [0]


def private_registry_oracle(chk, prog, o):
    """direct oracle: the outcome must not depend on WHERE the context behaviour is configured"""
    op = render_private(prog)
    if op == ("err", "other:Timeout"):
        _limit[0] = 20.0
        try:
            op = render_private(prog)
        finally:
            _limit[0] = 4.0
    if op is None:
        return
    chk.count(("private", json.dumps(prog, sort_keys=True)), "fill" in G.features(prog) and "comp-nested" in G.features(prog), kind="%s/private-registry" % prog["mode"])
    if op != o and not (op[0] == "err" and o[0] == "err" and not op[1].startswith("other:") and not o[1].startswith("other:")):
        trig = "c03-%s-registry-context-behavior-not-followed" % prog["mode"]
        chk.dist["differs:" + trig] += 1
        chk.fail(trig, "components registered in a private ComponentRegistry with context_behavior=%s (global setting: the other mode) render "
                       "differently from the same program under the global setting %s" % (prog["mode"], prog["mode"]),
                 {"program": prog, "private_registry": op, "global_setting": o, **describe(prog)})


def same_outcome(o, ref):
    """implementation outcome vs reference outcome, errors compared as 'raises' (classes are C01's subject)"""
    if o[0] == "ok" or ref[0] == "ok":
        return o == ref
    return not o[1].startswith("other:") and ref[1] != "OutOfFuel"


_hangs = [0]
_limit = [4.0]


def _outcome_of_repeating(fn, limit=None):
    """core_run.outcome_of with a REPEATING alarm: a one-shot SIGALRM is lost when it happens to be delivered inside code
    that swallows exceptions (weakref callbacks, __del__), and the render then runs unbounded."""
    import signal
    import sys
    old = sys.getrecursionlimit()
    signal.signal(signal.SIGALRM, R._alarm)
    signal.setitimer(signal.ITIMER_REAL, limit or _limit[0], 0.25)
    try:
        try:
            return ("ok", R.canon(fn()))
        finally:
            signal.setitimer(signal.ITIMER_REAL, 0)
    except R.RenderTimeout:
        return ("err", "other:Timeout")
    except RecursionError:
        return ("err", "other:RecursionError")
    except Exception as e:  # noqa
        return ("err", R.ERRMAP.get(type(e).__name__, "other:" + type(e).__name__))
    finally:
        signal.setitimer(signal.ITIMER_REAL, 0)
        sys.setrecursionlimit(old)


def evaluate(chk, cases, tag):
    """run implementation + reference (Coq) for every case; rows = [kind, idx, prog, impl_outcome, agrees]"""
    rows, terms = [], []
    for kind, idx, prog in cases:
        if _hangs[0] >= 8:
            break       # the tree under test hangs on many programs: reported once (below), do not spend the budget on it
        rep = []
        o = render(prog, ctx_report=rep)
        if len(rows) % 3 == 0 and _hangs[0] < 8 and not (o[0] == "err" and o[1].startswith("other:")):
            private_registry_oracle(chk, prog, o)
        if o == ("err", "other:Timeout"):
            _hangs[0] += 1
            if _hangs[0] == 8:
                chk.fail("c03-render-hangs", "8 renders exceeded the watchdog (4 s, then 20 s); remaining programs skipped",
                         {"program": prog, "implementation": o, **describe(prog)})
        rows.append([kind, idx, prog, o, None])
        # direct oracle: the caller's Context is left as found (dicts, flatten, render_context depth, keys per layer)
        if rep and rep[0][0] != rep[0][1] and o[0] == "ok":
            chk.fail("c03-caller-context-changed", "Template.render left the caller's Context changed",
                     {"program": prog, "before": rep[0][0], "after": rep[0][1]})
        if o[0] == "ok" and len(o[1]) > 20000:
            # coqc cannot parse a list literal of that length (stack overflow beyond ~25 000 elements): such an output is
            # compared with the python port of the reference (self-checked against Coq on every other case) instead
            terms.append(None)
            rows[-1][4] = same_outcome(o, PR.render_prog(prog))
            rows[-1].append("python-port-only")
            chk.dist["long-output-compared-with-python-port"] += 1
        elif o[0] == "err" and o[1].startswith("other:"):
            # hang / RecursionError / foreign exception: never what the reference says
            terms.append(None)
            rows[-1][4] = False
        else:
            terms.append("(%s, %s)" % (G.c_prog(prog), R.c_outcome(o)))
    # Coq literals: ordinary cases in shards of 60, long ones (big programs / long outputs) in shards of 5, so that no
    # generated file grows beyond what coqc parses comfortably
    for group, shard, suffix in (([i for i, t in enumerate(terms) if t is not None and len(t) <= 5000], 60, ""),
                                 ([i for i, t in enumerate(terms) if t is not None and len(t) > 5000], 5, "L")):
        if not group:
            continue
        bad = set(C.coq_eval_cases("C03", tag + suffix, IMPORTS, "core_case", "check_core_lenient", [terms[i] for i in group], shard=shard))
        for j, i in enumerate(group):
            rows[i][4] = j not in bad
    # self-check of the python port of the reference (used for shrinking only)
    for row in rows:
        if len(row) > 5:
            del row[5:]
            continue
        if same_outcome(row[3], PR.render_prog(row[2])) != row[4]:
            chk.disagree("harness self-check: harness/c03_ref.py (python port of Core/Sem.v) and the Coq evaluation of Sem.v "
                         "disagree on whether the implementation matches", {"program": row[2], "implementation": row[3],
                                                                            "python_port": PR.render_prog(row[2]), "coq_agrees": row[4]})
    return rows


MIMPORTS = "From DJC Require Import Lib.Base Core.Syntax Core.Sem Core.Mech."


def ensure_mech():
    """Core/Mech.vo (mechanism model M of the CURRENT code, owned by C01M) must exist for the judgement inside known classes"""
    with C._Lock(os.path.join(C.WORK, "coq.lock")):
        C.ensure_makefile()
        rc, out = C.sh("timeout 1500 make -j%d Core/Mech.vo" % C.NCPU, cwd=C.COQ)
    if rc != 0:
        raise C.HarnessError("cannot build Core/Mech.vo:\n" + out[-2000:])


def judge_with_mechanism(progs_outcomes, tag):
    """for every (program, implementation outcome): 'agrees' (M reproduces the implementation), 'unsupported' (the run leaves
    the fragment M models: not judged) or 'differs'"""
    res = [None] * len(progs_outcomes)
    plain, rec = [], []
    for i, (prog, o) in enumerate(progs_outcomes):
        if o == ("err", "other:RecursionError"):
            rec.append(i)
        elif o[0] == "err" and o[1].startswith("other:"):
            res[i] = "differs"          # hang / foreign exception: M never says that
        elif o[0] == "ok" and len(o[1]) > 20000:
            res[i] = "unsupported"      # no Coq literal of that length
        else:
            plain.append(i)
    if plain:
        terms = ["(%s, %s)" % (G.c_prog(progs_outcomes[i][0]), R.c_outcome(progs_outcomes[i][1])) for i in plain]
        bad = C.coq_eval_cases("C03", tag + "m", MIMPORTS, "core_case", "check_mech_lenient", terms, shard=max(4, len(terms) // C.NCPU + 1))
        for j, i in enumerate(plain):
            res[i] = "agrees"
        if bad:
            uns = set(C.coq_eval_cases("C03", tag + "u", MIMPORTS, "core_case", "mech_supported", [terms[j] for j in bad], shard=max(4, len(bad) // C.NCPU + 1)))
            for k, j in enumerate(bad):
                res[plain[j]] = "unsupported" if k in uns else "differs"
    if rec:
        terms = [G.c_prog(progs_outcomes[i][0]) for i in rec]
        bad = C.coq_eval_cases("C03", tag + "d", MIMPORTS, "prog", "check_mech_diverges", terms, shard=4)
        for j, i in enumerate(rec):
            res[i] = "agrees"
        if bad:
            uns = set(C.coq_eval_cases("C03", tag + "e", MIMPORTS, "prog", "mech_unsup_p", [terms[j] for j in bad], shard=4))
            for k, j in enumerate(bad):
                res[rec[j]] = "unsupported" if k in uns else "differs"
    return res


def trigger_of(prog):
    ks = U.classes(prog)
    return ks[0] if ks else "c03-%s-unclassified" % prog["mode"], ks


def shrink(prog, trig, budget=400):
    """smallest program (greedy node deletion) that still differs from the reference AND stays in the same class"""
    def still(q):
        o = render(q)
        return (not same_outcome(o, PR.render_prog(q))) and trigger_of(q)[0] == trig
    try:
        return G.shrink_prog(prog, still, budget=budget)
    except Exception:
        return prog


def describe(prog):
    return {"page": G.d_tpls(prog["page"]), "components": {n: G.d_tpls(cd["tpl"]) for n, cd in prog["lib"]},
            "data": {n: cd["data"] for n, cd in prog["lib"]}, "ctx": prog["ctx"], "mode": prog["mode"]}


def classify(chk, mode, rows, reported, tag="x"):
    failing = []
    for kind, idx, prog, o, ok in rows:
        feats = G.features(prog)
        collision = kind not in ("fresh", "all-only", "ni-A", "probes", "corpus") and not kind.startswith("loops:") and not kind.endswith(":none")
        nontriv = "fill" in feats and ("comp-nested" in feats or "comp-in-loop" in feats) and collision
        chk.count(json.dumps(prog, sort_keys=True), nontriv, kind="%s/%s" % (mode, kind.split(":")[0].split("/")[0]),
                  sample={"mode": mode, "collision": kind, "page": G.d_tpls(prog["page"]),
                          "components": {n: G.d_tpls(cd["tpl"]) for n, cd in prog["lib"]}, "output": o[1][:160]}
                  if nontriv and len(G.d_tpls(prog["page"])) < 220 else None)
        if not ok:
            failing.append((kind, prog, o) + trigger_of(prog))
    # Inside a recorded class a deviation from the reference is accepted only if it is THE recorded deviation: the
    # implementation must then equal the mechanism model M of the current code (Core/Mech.v), which reproduces the
    # recorded deviations exactly. Anything else in the same input class is a different violation.
    inclass = [i for i, f in enumerate(failing) if f[4]]
    verdict = dict(zip(inclass, judge_with_mechanism([(failing[i][1], failing[i][2]) for i in inclass], tag))) if inclass else {}
    for i, (kind, prog, o, trig, ks) in enumerate(failing):
        v = verdict.get(i)
        if v == "differs":
            trig = "c03-deviation-beyond-known-" + trig[4:]
            what = "output differs from the reference scoping AND from the mechanism model of the current code (%s variant): not the recorded deviation of class %s" % (kind, ks[0])
        else:
            what = "output differs from the reference scoping (%s variant); root-cause classes of the program: %s" % (kind, ks or "none")
            if v == "unsupported":
                chk.dist["in-known-class-not-judged-by-M(outside modelled fragment)"] += 1
            elif v == "agrees":
                chk.dist["in-known-class-equal-to-M"] += 1
        chk.dist["differs:" + trig] += 1
        if trig not in reported:
            # first failure of this kind in this run: minimise it for the replay
            reported[trig] = True
            small = shrink(prog, trig) if v != "differs" else shrink_beyond(prog, ks[0])
            chk.fail(trig, what, {"program": small, "shrunk_from_variant": kind, "implementation": render(small),
                                  "reference_python_port": PR.render_prog(small), "classes": ks, "mechanism_model": v, **describe(small)})
        else:
            chk.fail(trig, what, {"program": prog, "implementation": o, "classes": ks, **describe(prog)})


def shrink_beyond(prog, cls, budget=60):
    """smaller program of the same class on which the implementation still differs from the reference AND from M"""
    n = [0]

    def still(q):
        o = render(q)
        if same_outcome(o, PR.render_prog(q)) or trigger_of(q)[0] != cls or n[0] >= budget:
            return False
        n[0] += 1
        return judge_with_mechanism([(q, o)], "shr")[0] == "differs"
    try:
        return G.shrink_prog(prog, still, budget=600)
    except Exception:
        return prog


def noninterference(chk, mode, bases, reported):
    """two-run oracle on the implementation: same program, unpassed values differ => identical output"""
    n = 0
    failing = []
    for idx, p in bases:
        if _hangs[0] >= 8:
            break
        q = p if mode == "isolated" else set_only(p)
        a, b = U.ni_variant(q, "A"), U.ni_variant(q, "B")
        oa, ob = render(a), render(b)
        if n % 3 == 0 and not any(x[0] == "err" and x[1].startswith("other:") for x in (oa, ob)):
            private_registry_oracle(chk, a, oa)
            private_registry_oracle(chk, b, ob)
        n += 1
        chk.count(("ni", json.dumps(a, sort_keys=True)), "fill" in G.features(a) and "comp-nested" in G.features(a), kind="%s/ni-pair" % mode)
        if oa != ob:
            failing.append((a, b, oa, ob) + trigger_of(a))
    # inside a recorded class: both runs must be exactly what the mechanism model of the current code says
    inclass = [f for f in failing if f[5]]
    verdicts = judge_with_mechanism([(f[0], f[2]) for f in inclass] + [(f[1], f[3]) for f in inclass], "ni" + mode[:3]) if inclass else []
    beyond = {id(f) for k, f in enumerate(inclass) if "differs" in (verdicts[k], verdicts[len(inclass) + k])}
    for f in failing:
        a, b, oa, ob, base_trig, ks = f
        trig = base_trig
        if not ks:
            trig = "c03-%s-noninterference" % mode
        elif id(f) in beyond:
            trig = "c03-deviation-beyond-known-" + trig[4:]
        chk.dist["ni-differs:" + trig] += 1
        if trig in reported:
            chk.fail(trig, "two-run non-interference fails", {"program": a, "classes": ks})
            continue
        reported[trig] = True

        def still(x, base_trig=base_trig, ks=ks):
            if trigger_of(x)[0] != base_trig and ks:
                return False
            y = json.loads(json.dumps(x).replace('"SA"', '"SB"').replace('"UA"', '"UB"'))
            return render(x) != render(fix_prog(y))
        try:
            small = G.shrink_prog(a, still, budget=300) if id(f) not in beyond else a
        except Exception:
            small = a
        sb = fix_prog(json.loads(json.dumps(small).replace('"SA"', '"SB"').replace('"UA"', '"UB"')))
        chk.fail(trig, "two-run non-interference fails: two runs that differ only in values never passed (page variable zu_page, "
                       "component data zs_<c>) give different output although every component is rendered isolated",
                 {"program": small, "program_run_B": sb, "run_A": render(small), "run_B": render(sb),
                  "classes": ks, **describe(small)})
    return n


def corpus_cases():
    out = []
    if os.path.isdir(CORPUS):
        for f in sorted(os.listdir(CORPUS)):
            if f.endswith(".json"):
                d = json.load(open(os.path.join(CORPUS, f)))
                prog = fix_prog(d["program"])
                want = d.get("class")
                if want and want not in U.classes(prog):
                    raise C.HarnessError("corpus/C03/%s: program is not in its recorded class %s (classes: %s)" % (f, want, U.classes(prog)))
                out.append(("corpus", f, prog))
    return out


def run(tier, seed):
    import djsetup
    djsetup.setup()
    djsetup.patch_ids()
    R.outcome_of = _outcome_of_repeating     # this process only
    chk = C.Check("C03", tier, seed)
    chk.prove()
    ensure_mech()
    _hangs[0] = 0
    n = 1500 if tier == "thorough" else 200
    cc = corpus_cases()
    reported = {}
    nni = 0
    # exhaustive small families first: one fill with every assignment of colliding / non-colliding names to the binders
    # around it (x both behaviours x only x tag on the page / in a component template x with / for between tag and fill),
    # and loops inside component templates around a child component
    fam = U.grid_programs(tier == "thorough") + U.loop_programs()
    for mode in ("isolated", "django"):
        rows = evaluate(chk, [c for c in cc if c[2]["mode"] == mode], "corpus" + mode[:3])
        classify(chk, mode, rows, reported, "corpus" + mode[:3])
        rows = evaluate(chk, [(k, j, p) for j, (k, m, p) in enumerate(fam) if m == mode], "fam" + mode[:3])
        classify(chk, mode, rows, reported, "fam" + mode[:3])
    # outside the calculus: nested loops and forloop.parentloop (expected output computed from the loop structure)
    for name, prog, expected, cls in U.parentloop_programs():
        rep = []
        o = render(prog, ctx_report=rep)
        chk.count(json.dumps(prog, sort_keys=True), True, kind="%s/parentloop" % prog["mode"])
        if rep and rep[0][0] != rep[0][1] and o[0] == "ok":
            chk.fail("c03-caller-context-changed", "Template.render left the caller's Context changed", {"program": prog, "before": rep[0][0], "after": rep[0][1]})
        if o != ("ok", expected):
            trig = cls or "c03-%s-loop-state" % prog["mode"]
            chk.dist["differs:" + trig] += 1
            chk.fail(trig, "fill content / child template under nested loops does not see the loop state of its own iteration (%s)" % name,
                     {"program": prog, "implementation": o, "expected": expected, **describe(prog)})
    # outside the calculus: `... as var` tags directly in a component body (a binding between tag and fill that is written into
    # the layer on top while the body renders); expected output computed from the binder; isolated mode also as a two-run pair
    for name, prog, expected, partner in U.asvar_programs():
        rep = []
        o = render(prog, ctx_report=rep)
        chk.count(json.dumps(prog, sort_keys=True), True, kind="%s/asvar" % prog["mode"])
        if rep and rep[0][0] != rep[0][1] and o[0] == "ok":
            chk.fail("c03-caller-context-changed", "Template.render left the caller's Context changed", {"program": prog, "before": rep[0][0], "after": rep[0][1]})
        if o != ("ok", expected):
            trig = "c03-%s-as-variable-scope" % prog["mode"]
            chk.dist["differs:" + trig] += 1
            chk.fail(trig, "a variable bound by an `as var` tag between the component tag and the fill is not what the fill / the template sees (%s)" % name,
                     {"program": prog, "implementation": o, "expected": expected, **describe(prog)})
        elif partner is not None and render(partner) != o:
            trig = "c03-%s-noninterference" % prog["mode"]
            chk.dist["ni-differs:" + trig] += 1
            chk.fail(trig, "two-run non-interference fails: the outer page variable x, re-bound by an `as var` tag before the fills and never passed, changes the output (%s)" % name,
                     {"program": prog, "program_run_B": partner, "run_A": o, "run_B": render(partner), **describe(prog)})
    for mode in ("isolated", "django"):
        cases = list(gen_cases(chk, n, mode))
        bases = [(i, p) for k, i, p in cases if k == "fresh"]
        # the run-A program of each non-interference pair is also a correspondence case (fills that read inner data,
        # templates that read an unpassed page variable and forloop)
        cases += [("ni-A", i, U.ni_variant(p if mode == "isolated" else set_only(p), "A")) for i, p in bases]
        if mode == "django":
            # the same probes without `only` everywhere: positive visibility (templates see the page variable and the
            # enclosing loop, fill content sees the inner component's data)
            cases += [("probes", i, U.ni_variant(p, "A")) for i, p in bases]
        rows = evaluate(chk, cases, mode[:3])
        classify(chk, mode, rows, reported, mode[:3])
        nni += noninterference(chk, mode, bases, reported)
    chk.extra["noninterference_pairs"] = nni
    chk.extra["root_cause_classes"] = U.CLASS_TEXT
    chk.assumptions = [
        "get_context_data is a total function of the keyword arguments; page context values are strings / lists of strings",
        "documented built-ins (True/False/None, component_vars) are not counted as leaks; `forloop` is treated as a variable bound by its loop",
        "errors are compared as 'raises' only (exception classes are C01's subject)",
        "the statement is read as lexical scoping with innermost-binder-wins: with-variables between tag and fill extend the fill's scope "
        "like loop variables do (the implementation captures both; the statement names only loops)",
    ]
    return chk.finish(
        rule="exhaustive small family: one fill of one component tag with every assignment of a colliding / own name to the 8 binder sites around it (page "
             "variable, owner-component data, with and for around the tag, with or for between tag and fill, slot-data alias, inner-component data, with around "
             "the slot) x both behaviours x only on/off x tag on the page / in a component template (quick: at most 3 colliding sites; thorough: all), plus 60 "
             "programs with a loop in a component template around a child component; then %d programs per context behaviour with pairwise distinct variable names and unbound probe reads (`only` on ~15%% of tags; in django mode also "
             "the variant with `only` on every tag), each also in up to 6 variants where two names are merged: up to 4 pairs related through a fill or a "
             "component tag (with/for variable between tag and fill vs data of the owner / of the inner component / enclosing binders; fill alias vs inner "
             "names / reads of slot defaults; loop variable vs binders inside the loop; probe read in a fill or in a component template vs a name bound "
             "around the tag) and 2 random pairs; plus the run-A program of the non-interference pair. Expected output = reference scoping evaluated inside "
             "Coq. Two-run non-interference and caller-Context fingerprint evaluated on the implementation directly. Non-trivial = a collision variant of a "
             "program with a fill and a nested or looped component (for the pairs: a fill and a nested component). Distinct = distinct program text." % n,
        explanation="theorems of Props/C03.v re-checked; reference scoping evaluated by vm_compute for every program; two-run non-interference "
                    "(isolated mode; django mode with `only` everywhere) and caller-Context fingerprint compared on the implementation.",
        extra_trusted=["modelled, not verified: Django Context push/pop/flatten; snapshot_context is abstracted (the reference semantics is pure; "
                       "Core/CtxStack.v models the layer-stack discipline of render_func / ComponentNode only)",
                       "harness/c03_util.py: the class predicates that name the trigger of a FAILING program (a failure outside every class is unclassified = VIOLATION)"])


def replay(path):
    import djsetup
    import coredbg_lib as D
    djsetup.setup()
    djsetup.patch_ids()
    R.outcome_of = _outcome_of_repeating
    r = json.load(open(path))
    prog = fix_prog(r["case"]["program"])
    print(r.get("trigger"), "-", r.get("what"))
    print("mode:", prog["mode"], "ctx:", prog["ctx"])
    for n, cd in prog["lib"]:
        print("component", n, "data", cd["data"])
        print("   ", G.d_tpls(cd["tpl"]))
    print("page:", G.d_tpls(prog["page"]))
    print("root-cause classes of the program:", U.classes(prog))
    rep = []
    print("implementation:", render(prog, ctx_report=rep))
    if rep:
        print("caller context unchanged:", rep[0][0] == rep[0][1])
    print("reference (Coq):", D.model_outcome(prog))
    if "program_run_B" in r["case"]:
        pb = fix_prog(r["case"]["program_run_B"])
        print("run B (unpassed values changed):", render(pb))
    return 0
