"""C09 helper: histories of Template-class creation and `monkeypatch_template_cls` calls (the documented manual
patching entry point for custom template classes), and the token stream each class compiles from.

A history is a list of events over class ids (0 = django.template.Template, new classes numbered in creation order):
    ["new", parent_id, own_compile]   class C(parent) - with own_compile a compile_nodelist written like stock Django's
    ["patch", class_id]               django_components.util.django_monkeypatch.monkeypatch_template_cls(cls)
    ["setup"]                         django.setup() -> ComponentsConfig.ready() (only when run as a subprocess; in the
                                      model this is a patch of class 0)
Model: coq/Lexer/PatchModel.v (ENew / EPatch).

Run as a script (fresh interpreter, django NOT set up yet):
    python c09_util.py '<json: {"histories": [[events...], ...], "probes": [src, ...]}>'
every history may contain one "setup" event; all events before it are executed (for all histories) before the single
django.setup() of the process, the rest after it.  Prints one JSON line with the observations.
"""
import json
import sys


class _Captured(Exception):
    """raised from the wrapped Parser.__init__ once the token list is recorded: nothing is parsed, no tag is compiled"""


def tok_tuple(t):
    pos = t.position if t.position is not None else (-1, -1)     # stock Lexer (engine.debug off) carries no positions
    return (t.token_type.value, t.contents, pos[0], pos[1], t.lineno)


_engines = {}


def capture_stream(template_cls, s, debug):
    """Tokens handed to django.template.base.Parser by template_cls(s, engine=Engine(debug=debug)).
    -> ("toks", [...]) | ("exc", class name, message) when no Parser was constructed."""
    from django.template import Engine, base
    if debug not in _engines:
        _engines[debug] = Engine(debug=debug)
    cap = []
    orig = base.Parser.__init__

    def init(self, tokens, *a, **k):
        cap.append([tok_tuple(t) for t in tokens])
        e = _Captured()
        e.token = base.Token(base.TokenType.TEXT, "", (0, 0), 1)   # the debug branch of compile_nodelist reads e.token
        raise e
    base.Parser.__init__ = init
    try:
        template_cls(s, engine=_engines[debug])
        out = ("exc", "NoParser", "the template class returned without constructing a Parser")
    except _Captured:
        out = ("toks", cap[0])
    except Exception as e:  # noqa
        out = ("toks", cap[0]) if cap else ("exc", type(e).__name__, str(e)[:200])
    finally:
        base.Parser.__init__ = orig
    return out


def make_class(parent, own_compile, name):
    """A custom template class.  With own_compile it carries its own compile_nodelist - Django 5.1's stock code, as an
    instrumented / profiling template class would."""
    if not own_compile:
        return type(name, (parent,), {})
    from django.template.base import DebugLexer, Lexer, Parser

    def compile_nodelist(self):
        lexer = DebugLexer(self.source) if self.engine.debug else Lexer(self.source)
        tokens = lexer.tokenize()
        parser = Parser(tokens, self.engine.template_libraries, self.engine.template_builtins, self.origin)
        try:
            nodelist = parser.parse()
            self.extra_data = getattr(parser, "extra_data", {})
            return nodelist
        except Exception as e:
            if self.engine.debug:
                e.template_debug = self.get_exception_info(e, e.token)
            raise
    return type(name, (parent,), {"compile_nodelist": compile_nodelist})


def apply_events(events, classes):
    """Execute events on the list of class objects (classes[0] is django.template.Template)."""
    from django_components.util.django_monkeypatch import monkeypatch_template_cls
    for ev in events:
        if ev[0] == "new":
            classes.append(make_class(classes[ev[1]], bool(ev[2]), "C09Cls%d" % len(classes)))
        elif ev[0] == "patch":
            monkeypatch_template_cls(classes[ev[1]])
        else:
            raise ValueError("event %r cannot be executed here" % (ev,))


def observe(classes, probes):
    """Per class: is_template_cls_patched, and per (probe, engine.debug) the captured stream."""
    from django_components.util.django_monkeypatch import is_template_cls_patched
    out = []
    for cls in classes:
        streams = [[capture_stream(cls, s, debug) for debug in (True, False)] for s in probes]
        out.append({"flag": bool(is_template_cls_patched(cls)), "streams": streams})
    return out


def reference(probes):
    """parse_template(s) and stock DebugLexer(s) under the tag_re of this moment."""
    from django.template import base
    from django_components.util.template_parser import parse_template
    ref = []
    for s in probes:
        try:
            pt = ("toks", [tok_tuple(t) for t in parse_template(s)])
        except Exception as e:  # noqa
            pt = ("exc", type(e).__name__, str(e)[:200])
        ref.append({"parse_template": pt, "stock": [tok_tuple(t) for t in base.DebugLexer(s).tokenize()]})
    return ref


def main(arg):
    import re
    job = json.loads(arg)
    import django
    from django.conf import settings
    settings.configure(
        INSTALLED_APPS=["django_components"],
        TEMPLATES=[{"BACKEND": "django.template.backends.django.DjangoTemplates", "OPTIONS": {"builtins": []}}],
        COMPONENTS={"autodiscover": False}, SECRET_KEY="c09", DATABASES={},
    )
    from django.template import Template, base
    worlds = [[Template] for _ in job["histories"]]
    split = []
    for h in job["histories"]:
        i = next((k for k, e in enumerate(h) if e[0] == "setup"), None)
        split.append((h, None) if i is None else (h[:i], h[i + 1:]))
    for (pre, _), classes in zip(split, worlds):
        apply_events(pre, classes)
    did_setup = any(post is not None for _, post in split)
    if did_setup:
        django.setup()
    for (_, post), classes in zip(split, worlds):
        if post is not None:
            apply_events(post, classes)
    res = {"setup": did_setup, "dotall": bool(base.tag_re.flags & re.DOTALL), "reference": reference(job["probes"]),
           "worlds": [observe(classes, job["probes"]) for classes in worlds]}
    print(json.dumps(res))


if __name__ == "__main__":
    main(sys.argv[1])
