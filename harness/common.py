"""Shared machinery of the /verif checks (see DESIGN.md section 2).

Every property module harness/cXX.py builds a `Check`, asks it to
  1. (re)build and re-check the Coq theorems of Props/CXX.v         -> build_proofs()
  2. evaluate generated cases inside Coq (vm_compute) against the
     results observed on the implementation                         -> coq_eval_cases()
  3. record direct-oracle failures / model disagreements            -> fail() / disagree()
  4. write evidence, print VIOLATION / KNOWN-FINDING lines, exit    -> finish()
"""
import collections
import concurrent.futures
import fcntl
import hashlib
import json
import os
import random
import re
import subprocess
import sys
import time

VERIF = "/verif"
REPO = os.environ.get("VERIF_REPO", "/repo")
COQ = os.path.join(VERIF, "coq")
WORK = os.path.join(VERIF, "work")
def _default_jobs():
    # work/jobs.txt (git-ignored, absent in a fresh checkout) lets the lead throttle all running checks while many agents share the box
    try:
        return open(os.path.join(WORK, "jobs.txt")).read().strip() or "16"
    except OSError:
        return "16"


NCPU = int(os.environ.get("VERIF_JOBS") or _default_jobs())

FORBIDDEN = re.compile(
    r"\b(Admitted|admit|Axiom|Axioms|Parameter|Parameters|Conjecture|Hypothesis|Variable|Variables|Hypotheses)\b"
    r"|Unset\s+Guard|bypass_check|type-in-type|impredicative-set|Admit\s+Obligations"
)


class HarnessError(Exception):
    pass


def sh(cmd, timeout=None, cwd=None, env=None, input=None):
    p = subprocess.run(cmd, shell=isinstance(cmd, str), cwd=cwd, env=env, input=input,
                       stdout=subprocess.PIPE, stderr=subprocess.STDOUT, timeout=timeout, text=True)
    return p.returncode, p.stdout


# ----------------------------------------------------------------------------------------------
# Coq term printers (Python value -> Gallina literal)
# ----------------------------------------------------------------------------------------------
def cN(n):
    return "%d%%N" % n


def cZ(n):
    return "(%d)%%Z" % n


def cnat(n):
    return "%d%%nat" % n


def cbool(b):
    return "true" if b else "false"


def clist(items):
    return "[" + "; ".join(items) + "]"


def cstr(s):
    """Python str -> `list N` literal of code points (bytes -> byte values)."""
    if isinstance(s, bytes):
        return "[" + ";".join("%d" % b for b in s) + "]%N"
    return "[" + ";".join("%d" % ord(c) for c in s) + "]%N"


def copt(x, f=lambda v: v):
    return "None" if x is None else "(Some %s)" % f(x)


def cpair(a, b):
    return "(%s, %s)" % (a, b)


# ----------------------------------------------------------------------------------------------
# Coq build
# ----------------------------------------------------------------------------------------------
class _Lock:
    def __init__(self, path):
        self.path = path

    def __enter__(self):
        os.makedirs(os.path.dirname(self.path), exist_ok=True)
        self.f = open(self.path, "w")
        fcntl.flock(self.f, fcntl.LOCK_EX)

    def __exit__(self, *a):
        fcntl.flock(self.f, fcntl.LOCK_UN)
        self.f.close()


def write_if_changed(path, content):
    os.makedirs(os.path.dirname(path), exist_ok=True)
    try:
        with open(path) as f:
            if f.read() == content:
                return False
    except FileNotFoundError:
        pass
    with open(path, "w") as f:
        f.write(content)
    return True


def all_v_files():
    out = []
    for d, _, fs in os.walk(COQ):
        for f in fs:
            if f.endswith(".v"):
                out.append(os.path.relpath(os.path.join(d, f), COQ))
    return sorted(out)


def ensure_makefile():
    """(Re)generate _CoqProject/Makefile when the set of .v files changed."""
    files = all_v_files()
    proj = "-Q . DJC\n-arg -w -arg -notation-overridden,-deprecated-hint-without-locality,-deprecated-instance-without-locality\n" + "\n".join(files) + "\n"
    changed = write_if_changed(os.path.join(COQ, "_CoqProject"), proj)
    if changed or not os.path.exists(os.path.join(COQ, "Makefile")):
        rc, out = sh("coq_makefile -f _CoqProject -o Makefile", cwd=COQ, timeout=120)
        if rc != 0:
            raise HarnessError("coq_makefile failed:\n" + out)


def scan_forbidden(files=None):
    bad = []
    for rel in (files or all_v_files()):
        p = os.path.join(COQ, rel)
        txt = open(p).read()
        # strip comments (non-nested approximation is enough: we never write forbidden words in comments)
        txt_nc = re.sub(r"\(\*.*?\*\)", "", txt, flags=re.S)
        in_section = 0
        for i, line in enumerate(txt_nc.split("\n"), 1):
            if re.match(r"\s*Section\b", line):
                in_section += 1
            if re.match(r"\s*End\b", line) and in_section:
                in_section -= 1
            m = FORBIDDEN.search(line)
            if m:
                w = m.group(0)
                if w in ("Variable", "Variables", "Hypothesis", "Hypotheses") and in_section:
                    continue  # section-local: discharged as explicit premises
                bad.append("%s:%d: %s" % (rel, i, line.strip()))
    return bad


def closure_files(prop):
    """.v files Props/<prop>.v depends on (transitively, via `From DJC Require Import/Export ...`)."""
    seen, todo = [], ["Props/%s.v" % prop]
    while todo:
        rel = todo.pop()
        if rel in seen or not os.path.exists(os.path.join(COQ, rel)):
            continue
        seen.append(rel)
        txt = re.sub(r"\(\*.*?\*\)", "", open(os.path.join(COQ, rel)).read(), flags=re.S)
        for m in re.finditer(r"From\s+DJC\s+Require\s+(?:Import\s+|Export\s+)?(.*?)\.(?=\s|$)", txt, flags=re.S):
            for mod in m.group(1).split():
                todo.append(mod.replace(".", "/") + ".v")
        for m in re.finditer(r"Require\s+(?:Import\s+|Export\s+)?((?:DJC\.[\w.]+\s*)+)\.(?=\s|$)", txt, flags=re.S):
            for mod in m.group(1).split():
                todo.append(mod[4:].replace(".", "/") + ".v")
    return sorted(seen)


def prop_theorems(prop):
    p = os.path.join(COQ, "Props", prop + ".v")
    txt = open(p).read()
    txt = re.sub(r"\(\*.*?\*\)", "", txt, flags=re.S)
    return re.findall(r"^\s*(?:Theorem|Lemma)\s+([A-Za-z_][\w']*)", txt, flags=re.M)


def build_proofs(prop, timeout=1500):
    """make Props/<prop>.vo (always re-checking that file); returns a dict describing the outcome."""
    t0 = time.time()
    with _Lock(os.path.join(WORK, "coq.lock")):
        ensure_makefile()
        target = "Props/%s.vo" % prop
        try:
            os.remove(os.path.join(COQ, target))
        except FileNotFoundError:
            pass
        cmd = "timeout %d make -j%d %s" % (timeout, NCPU, target)
        rc, out = sh(cmd, cwd=COQ)
    thms = prop_theorems(prop)
    res = {"checker_cmd": "cd /verif/coq && coq_makefile -f _CoqProject -o Makefile && " + cmd,
           "obligations": len(thms), "theorems": thms, "discharged": 0, "ok": rc == 0, "log_tail": out[-3000:],
           "assumptions": {}, "axioms": [], "wall_s": round(time.time() - t0, 1), "failed_at": None}
    forb = scan_forbidden(closure_files(prop))
    if forb:
        res["ok"] = False
        res["failed_at"] = "forbidden construct: " + "; ".join(forb[:5])
        return res
    if rc == 0:
        res["discharged"] = len(thms)
        # parse Print Assumptions blocks, in order
        blocks = []
        cur = None
        for line in out.split("\n"):
            if line.startswith("Closed under the global context"):
                blocks.append([])
                cur = None
            elif line.startswith("Axioms:"):
                cur = []
                blocks.append(cur)
            elif cur is not None:
                if line.startswith(" ") or line.startswith("\t"):
                    if re.match(r"^\s{0,2}\S", line) and ":" in line:
                        cur.append(line.strip())
                    elif cur:
                        cur[-1] += " " + line.strip()
                elif re.match(r"^[A-Za-z_][\w.']*\s*:", line):
                    cur.append(line.strip())
                else:
                    cur = None
        for name, b in zip(thms, blocks):
            res["assumptions"][name] = b
        axs = sorted({a.split(":")[0].strip() for b in blocks for a in b})
        res["axioms"] = axs
        if len(blocks) < len(thms):
            res["ok"] = False
            res["failed_at"] = "Print Assumptions missing for some theorem of Props/%s.v" % prop
    else:
        m = re.search(r'File "\./([^"]+)", line (\d+)', out)
        where = None
        if m:
            rel, ln = m.group(1), int(m.group(2))
            where = "%s:%d" % (rel, ln)
            try:
                lines = open(os.path.join(COQ, rel)).read().split("\n")
                for j in range(min(ln, len(lines)) - 1, -1, -1):
                    mm = re.match(r"\s*(Theorem|Lemma|Example|Corollary|Definition|Fixpoint)\s+([\w']+)", lines[j])
                    if mm:
                        where += " (%s %s)" % (mm.group(1), mm.group(2))
                        break
            except Exception:
                pass
        res["failed_at"] = where or "make failed (rc=%d)" % rc
    return res


def _coqc_file(path, timeout):
    # a shard that takes 40 s alone was seen to exceed 600 s with the box at load 100; a time-out is a HARNESS error, never a
    # verdict, so the floor is generous (the models are total: evaluation always ends)
    timeout = max(timeout, 3000)
    # large case literals (a rendered page of several hundred kB) overflow coqc's default 8 MB stack: lift the limit for the child
    rc, out = sh("ulimit -s unlimited 2>/dev/null || ulimit -s 1000000 2>/dev/null; exec timeout %d coqc -Q %s DJC -w -notation-overridden %s"
                 % (timeout, COQ, path))
    return rc, out


def parse_bad(out):
    """Parse `= [..] : list N` printed by `Eval vm_compute in (bad_indices ...)`."""
    m = re.search(r"=\s*(\[.*?\])\s*(?:%N)?\s*:\s*list N", out, flags=re.S)
    if not m:
        raise HarnessError("cannot parse coqc output:\n" + out[-2000:])
    return [int(x) for x in re.findall(r"\d+", m.group(1).replace("%N", ""))]


def coq_eval_cases(prop, tag, imports, case_type, check_fn, terms, shard=1000, timeout=600, extra_defs=""):
    """Evaluate `check_fn : case_type -> bool` on every term inside Coq; return indices with result false."""
    d = os.path.join(WORK, prop)
    os.makedirs(d, exist_ok=True)
    # file names carry the pid: two runs of the same property at the same time (a mutation experiment next to a normal run) must
    # not overwrite each other's shards
    tag = "%s_p%d" % (tag, os.getpid())
    paths = []
    for si in range(0, len(terms), shard):
        chunk = terms[si:si + shard]
        path = os.path.join(d, "%s_%d.v" % (tag, si // shard))
        with open(path, "w") as f:
            f.write(imports + "\n" + extra_defs + "\n")
            f.write("Definition cases : list (%s) :=\n [ " % case_type)
            f.write("\n ; ".join(chunk))
            f.write("\n ].\n")
            f.write("Eval vm_compute in (bad_indices (%s) cases).\n" % check_fn)
        paths.append((si, path))
    bad = []
    with concurrent.futures.ThreadPoolExecutor(max_workers=NCPU) as ex:
        futs = {ex.submit(_coqc_file, p, timeout): (si, p) for si, p in paths}
        for fu in concurrent.futures.as_completed(futs):
            si, p = futs[fu]
            rc, out = fu.result()
            if rc != 0:
                raise HarnessError("coqc failed on %s (rc=%d):\n%s" % (p, rc, out[-3000:]))
            bad.extend(si + i for i in parse_bad(out))
    for si, p in paths:
        base = p[:-2]
        for ext in (".v", ".vo", ".vok", ".vos", ".glob"):
            try:
                os.remove(base + ext)
            except FileNotFoundError:
                pass
        try:
            os.remove(os.path.join(os.path.dirname(p), "." + os.path.basename(base) + ".aux"))
        except FileNotFoundError:
            pass
    return sorted(bad)


# ----------------------------------------------------------------------------------------------
# Known findings
# ----------------------------------------------------------------------------------------------
def load_known(prop):
    p = os.path.join(VERIF, "known_findings.json")
    try:
        data = json.load(open(p))
    except FileNotFoundError:
        return []
    return [e for e in data.get("findings", []) if e.get("property") == prop and e.get("status") == "known"]


# ----------------------------------------------------------------------------------------------
# The check object
# ----------------------------------------------------------------------------------------------
class Check:
    def __init__(self, prop, tier, seed, report_as=None):
        # report_as: this Check is a SUB-CHECK of property `report_as` (e.g. the mechanism model C01M of C01): VIOLATION lines and
        # known findings use that property id, and the evidence goes to work/sub-evidence/<prop>.json for the parent to merge
        self.prop, self.tier, self.seed = prop, tier, seed
        self.report_as = report_as
        self.subs = []
        self.t0 = time.time()
        self.rng = random.Random("%s-%s" % (prop, seed))
        self.failures = []          # (trigger, what, replay_obj)  direct oracle failed on the implementation
        self.disagreements = []     # (what, replay_obj)           model != implementation, oracle fine
        self.evaluations = 0
        self.nontrivial = set()
        self.samples = []
        self.dist = collections.Counter()
        self.proof = None
        self.extra = {}
        self.assumptions = []
        self.known = load_known(report_as or prop)
        self.known_hit = collections.OrderedDict()

    # -- bookkeeping -----------------------------------------------------------------------
    def count(self, case_repr, nontrivial, sample=None, kind=None):
        self.evaluations += 1
        if nontrivial:
            self.nontrivial.add(hashlib.md5(repr(case_repr).encode()).digest()[:8])
        if kind is not None:
            self.dist[kind] += 1
        if sample is not None and len(self.samples) < 6:
            self.samples.append(sample)

    def add_sub(self, prop):
        """merge the evidence a sub-check (Check(prop, ..., report_as=self.prop)) has just written"""
        with open(os.path.join(WORK, "sub-evidence", prop + ".json")) as f:
            self.subs.append(json.load(f))

    def prove(self, timeout=1500):
        # every generated constants file the theorems of this property depend on (directly or through an imported area, e.g.
        # C12 -> Lexer -> Gen/C09.v) is re-translated from the tree under test first, so that a Gen file left behind by a run
        # against another tree (mutation experiment, edited /repo) can never be what the proofs are checked against
        try:
            gens = sorted({os.path.basename(f)[:-2] for f in closure_files(self.prop) if f.startswith("Gen/")} |
                          {m for f in closure_files(self.prop)
                           for m in re.findall(r"\bGen\.(C\d\d\w*)", open(os.path.join(COQ, f)).read())})
            if gens:
                import gen_constants
                gen_constants.generate(gens)
        except HarnessError:
            raise
        self.proof = build_proofs(self.prop, timeout=timeout)
        if self.tier == "thorough" and self.proof["ok"] and os.environ.get("VERIF_COQCHK", "1") != "0":
            # independent re-check of the compiled theorems file and everything it depends on, with the axiom summary
            t0 = time.time()
            rc, out = sh("timeout 2400 coqchk -silent -o -Q . DJC DJC.Props.%s" % self.prop, cwd=COQ)
            m = re.search(r"\* Axioms:(.*?)\n\s*\n\* Constants/Inductives relying on type-in-type:(.*?)\n\s*\n\* Constants/Inductives relying on unsafe \(co\)fixpoints:(.*?)\n\s*\n\* Inductives whose positivity is assumed:(.*?)(?:\n\s*\n|$)", out, flags=re.S)
            summ = [x.strip() for x in m.groups()] if m else None
            self.proof["coqchk"] = {"rc": rc, "axioms": summ[0] if summ else None, "type_in_type": summ[1] if summ else None,
                                    "unsafe_fixpoints": summ[2] if summ else None, "assumed_positivity": summ[3] if summ else None,
                                    "wall_s": round(time.time() - t0, 1)}
            if rc != 0 or summ is None or any(x != "<none>" for x in summ[1:]):
                self.proof["ok"] = False
                self.proof["failed_at"] = "coqchk: rc=%d %s" % (rc, out[-500:])
        return self.proof

    def fail(self, trigger, what, replay):
        """The property's own predicate failed on the implementation for a concrete input."""
        self.failures.append((trigger, what, replay))

    def disagree(self, what, replay):
        """Model and implementation differ on an input although no property predicate failed."""
        self.disagreements.append((what, replay))

    # -- finish ----------------------------------------------------------------------------
    def _write_replay(self, obj):
        d = os.path.join(VERIF, "replays")
        os.makedirs(d, exist_ok=True)
        blob = json.dumps(obj, sort_keys=True, default=repr)
        h = hashlib.md5(blob.encode()).hexdigest()[:10]
        path = os.path.join(d, "%s-%s.json" % (self.prop, h))
        with open(path, "w") as f:
            json.dump(obj, f, indent=1, sort_keys=True, default=repr)
        return path

    def finish(self, rule, explanation="", extra_trusted=()):
        lines = []
        nviol = 0
        # 1. direct failures: known finding or violation
        seen_v = set()
        for trigger, what, replay in self.failures:
            k = next((e for e in self.known if e.get("trigger") == trigger), None)
            if k is not None:
                if trigger not in self.known_hit:
                    self.known_hit[trigger] = k
                continue
            if trigger in seen_v:
                continue
            seen_v.add(trigger)
            path = self._write_replay({"property": self.prop, "kind": "property-oracle-failed", "trigger": trigger,
                                       "what": what, "tier": self.tier, "seed": self.seed, "case": replay})
            lines.append("VIOLATION property=%s replay=%s" % (self.report_as or self.prop, path))
            nviol += 1
        for trigger, k in self.known_hit.items():
            line = k.get("line", "")
            line = re.sub(r"^known:\s*", "", line)
            print("KNOWN-FINDING: %s" % line)
        # 2. broken proof / broken correspondence without failing input
        if nviol == 0:
            if self.proof is not None and not self.proof["ok"]:
                path = self._write_replay({"property": self.prop, "kind": "proof-obligation-broken",
                                           "theorem_or_file": self.proof["failed_at"], "log_tail": self.proof["log_tail"],
                                           "note": "no failing input found by the search of this run"})
                lines.append("VIOLATION property=%s replay=%s no-failing-input-found" % (self.report_as or self.prop, path))
                nviol += 1
            elif self.disagreements:
                what, replay = self.disagreements[0]
                path = self._write_replay({"property": self.prop, "kind": "correspondence-broken", "what": what,
                                           "n_disagreements": len(self.disagreements), "case": replay,
                                           "others": [r for _, r in self.disagreements[1:6]],
                                           "note": "model and implementation differ here; every decidable predicate of the "
                                                   "property still held on the implementation for all explored inputs"})
                lines.append("VIOLATION property=%s replay=%s no-failing-input-found" % (self.report_as or self.prop, path))
                nviol += 1
        for l in lines:
            print(l)
        pr = self.proof or {"obligations": 0, "discharged": 0, "checker_cmd": "", "axioms": [], "assumptions": {}, "theorems": []}
        trusted = ["Coq 8.16.1 kernel (coqc; vm_compute used for finite sweeps and for evaluating the model on cases; no native_compute)",
                   "axioms reported by Print Assumptions: " + (", ".join(pr["axioms"]) if pr["axioms"] else "none (all theorems closed under the global context)"),
                   "correspondence harness (Python generators, canonicalisers, printers of Coq literals) in /verif/harness",
                   "hand-written Gallina model; tie to /repo = differential run of the model (inside Coq) against the implementation on the generated cases"]
        trusted += list(extra_trusted)
        ev = {
            "property_id": self.prop, "tier": self.tier, "seed": self.seed, "level": "proof",
            "coverage": {
                "obligations": pr["obligations"], "discharged": pr["discharged"],
                "checker_cmd": pr["checker_cmd"] or "n/a", "trusted_base": trusted,
                "theorems": pr["theorems"], "print_assumptions": pr["assumptions"], "coqchk": pr.get("coqchk"),
                "evaluations": self.evaluations, "distinct_nontrivial": len(self.nontrivial),
                "rule": rule, "samples": self.samples[:6], "input_distribution": dict(self.dist),
                "model_vs_impl_disagreements": len(self.disagreements),
                "oracle_failures": len(self.failures),
                "known_findings_reproduced": list(self.known_hit.keys()),
                "explanation": explanation,
            },
            "assumptions": self.assumptions,
            "wall_s": round(time.time() - self.t0, 1),
            "violations": nviol,
        }
        ev["coverage"].update(self.extra)
        # keys the evidence schema reserves with a fixed type: a check that used one of them for something else is renamed, not dropped
        _typed = {"states": int, "transitions": int, "traces_validated_against_impl": int, "programs": int,
                  "disagreements_checked": int, "explanation": str, "exhaustive": bool, "evaluations": int,
                  "distinct_nontrivial": int, "rule": str}
        for k, t in _typed.items():
            v = ev["coverage"].get(k)
            if k in ev["coverage"] and (not isinstance(v, t) or (t is int and (isinstance(v, bool) or v < 0))):
                ev["coverage"]["x_" + k] = ev["coverage"].pop(k)
        # merge sub-checks (their own theorems, cases and violations count towards this property)
        for sub in self.subs:
            sc = sub.get("coverage", {})
            for k in ("obligations", "discharged", "evaluations", "distinct_nontrivial", "model_vs_impl_disagreements", "oracle_failures"):
                ev["coverage"][k] = ev["coverage"].get(k, 0) + int(sc.get(k, 0))
            ev["coverage"]["theorems"] = list(ev["coverage"].get("theorems", [])) + ["%s.%s" % (sub.get("property_id"), t) for t in sc.get("theorems", [])]
            ev["coverage"].setdefault("sub_checks", {})[sub.get("property_id")] = {
                "checker_cmd": sc.get("checker_cmd"), "rule": sc.get("rule"), "explanation": sc.get("explanation"),
                "print_assumptions": sc.get("print_assumptions"), "input_distribution": sc.get("input_distribution"),
                "samples": sc.get("samples", [])[:3], "wall_s": sub.get("wall_s"), "violations": sub.get("violations")}
            ev["assumptions"] = list(ev["assumptions"]) + ["[%s] %s" % (sub.get("property_id"), a) for a in sub.get("assumptions", [])]
            ev["violations"] += int(sub.get("violations", 0))
            for t in sc.get("trusted_base", []):
                if t not in ev["coverage"]["trusted_base"]:
                    ev["coverage"]["trusted_base"].append(t)
        # evidence/ is only ever written from runs against /repo itself; mutation experiments (VERIF_REPO=<scratch copy>)
        # write to work/mut-evidence/ instead
        evdir = os.path.join(VERIF, "evidence") if os.path.realpath(REPO) == "/repo" else os.path.join(WORK, "mut-evidence")
        if self.report_as or not re.fullmatch(r"C\d\d", self.prop):
            evdir = os.path.join(WORK, "sub-evidence")   # not one of the 20 properties: a sub-check
        os.makedirs(evdir, exist_ok=True)
        with open(os.path.join(evdir, self.prop + ".json"), "w") as f:
            json.dump(ev, f, indent=1, default=repr)
        print("%s tier=%s seed=%s obligations=%d discharged=%d evaluations=%d nontrivial=%d disagreements=%d oracle_failures=%d known=%d violations=%d wall=%.0fs" % (
            self.prop, self.tier, self.seed, pr["obligations"], pr["discharged"], self.evaluations, len(self.nontrivial),
            len(self.disagreements), len(self.failures), len(self.known_hit), nviol, time.time() - self.t0))
        sys.stdout.flush()
        return 1 if nviol else 0


def shrink_list(seq, still_fails, max_steps=2000):
    """Greedy delta-debugging on a list: remove chunks while `still_fails(candidate)` holds."""
    seq = list(seq)
    n = max(1, len(seq) // 2)
    steps = 0
    while n >= 1 and steps < max_steps:
        i = 0
        changed = False
        while i < len(seq) and steps < max_steps:
            cand = seq[:i] + seq[i + n:]
            steps += 1
            if cand != seq and still_fails(cand):
                seq = cand
                changed = True
            else:
                i += n
        if not changed:
            n //= 2
    return seq
