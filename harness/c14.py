"""C14 - root elements of a component instance, and only they, carry its render id.

Model: coq/PostRender/Model.v   Theorems: coq/Props/C14.v
Correspondence: generated programs (component library + page: elements, text, components plain and through
DynamicComponent, two slot names with default content, implicit and named fills, slots inside fills and slot
defaults, slot pass-through into child components, {% for %}, {% if %}, components rendered from Python while a
template is being rendered - lazily evaluated variable / on_render_before hook) are rendered by the implementation in
both context behaviours; the final HTML is parsed with html.parser; the element structure with the `data-djc-id-*`
sets, the number of instances and the number of RE-ENTRANT root runs (a component rendered without a parent while
another component's template is being rendered) are compared with what the Coq model (expansion -> deferred-render
queue with nested root runs on the shared global tables) computes for the same program (vm_compute inside Coq).
Independently of the model, a direct oracle checks the property on the implementation's output: every component
echoes `Component.id` in begin/end text markers, which delimit the instance's output in the final HTML.
"""
import html.parser
import itertools
import json
import os
import random
import re
import time

import common as C
from common import cN, clist

IMPORTS = "From DJC Require Import Lib.Base PostRender.Model PostRender.Ident."
TAGS = ["div", "span", "section", "p", "ul", "li"]
TAGN = {t: i + 1 for i, t in enumerate(TAGS)}
ATTR = "data-djc-id-"
SLOTS = ["content", "aux"]          # slot 0 carries the `default` flag
CTX_KEY = "_DJC_COMPONENT_CTX"

# ------------------------------------------------------------------------------------------------
# programs:  ("E", tag, kids, extra_attr) | ("T",) | ("C", k, dyn, fills) | ("S", slot, dflt) | ("R", n, body)
#            | ("I", cond, body) | ("P", k, via)
#   fills: list of (slot index, forest, explicit)   explicit=False: body written without {% fill %} (slot 0 only)
#   P: component k rendered from Python while the surrounding template renders; via = "lazy" (callable context
#      variable, evaluated where {{ v }} stands), "lazy-deps" (same, render_dependencies=True), "before"
#      (on_render_before hook puts the HTML into the context), "self-gcd" / "self-before" (the SAME Component instance
#      renders template k: self.render(kwargs=...) inside get_context_data / on_render_before, Component.id read afterwards).
#      The eager kinds (before, self-*) stand at the top level of a template or inside elements, never inside fills or loops.
# lib: list of (template forest, marked)    page: forest
# ------------------------------------------------------------------------------------------------


def E(tag, *kids, attr=""):
    return ("E", tag, list(kids), attr)


T = ("T",)


def Cc(k, *fill, dyn=False, fills=None):
    if fills is None:
        fills = [(0, list(fill), False)] if fill else []
    return ("C", k, dyn, [(f[0], list(f[1]), bool(f[2]) if len(f) > 2 else True) for f in fills])


def S(*dflt, name=0):
    return ("S", name, list(dflt))


def R(n, *body):
    return ("R", n, list(body))


def If(c, *body):
    return ("I", bool(c), list(body))


def P(k, via="lazy"):
    return ("P", k, via)


def subforests(t):
    k = t[0]
    if k in ("E", "R", "I", "S"):
        return [t[2]]
    if k == "C":
        return [f[1] for f in t[3]]
    return []


def slot_in_fill(f, inside=False):
    """a {% slot %} written inside the body of a fill (of a component tag of this template)"""
    for t in f:
        if t[0] == "S" and inside:
            return True
        if t[0] == "C":
            if any(slot_in_fill(b, True) for _s, b, _e in t[3]):
                return True
        elif any(slot_in_fill(x, inside) for x in subforests(t)):
            return True
    return False


def py_targets(lib, page, api):
    out = set()

    def go(f):
        for t in f:
            if t[0] == "P":
                out.add(t[1])
            for x in subforests(t):
                go(x)
    go(page)
    for f, _m in lib:
        go(f)
    if api != "template":
        out.add(page[0][1])
    return out


def python_root_slot_in_fill(lib, page, mode, api):
    """In "django" mode a component rendered from Python (outer_context None) that writes a slot inside the body of a
    child's fill used to resolve it against the CHILD's fills (endless rendering / RecursionError; found while this
    generator was extended, fixed in /repo by 7d75a37).  Counted, rendered like every other program."""
    return mode == "django" and any(slot_in_fill(lib[k][0]) for k in py_targets(lib, page, api))


def has_py(f):
    return any(t[0] == "P" or any(has_py(x) for x in subforests(t)) for t in f)


def src_forest(f, names, ctx):
    """Template source. ctx = {"prefix": str, "vars": []}: every P node gets a context variable of its own."""
    out = []
    for t in f:
        k = t[0]
        if k == "E":
            out.append("<%s%s>%s</%s>" % (t[1], t[3], src_forest(t[2], names, ctx), t[1]))
        elif k == "T":
            out.append("tx")
        elif k == "C":
            head = '"%s"' % names[t[1]] if not t[2] else '"c14dyn" is="%s"' % names[t[1]]
            if not t[3]:
                out.append("{%% component %s / %%}" % head)
            elif len(t[3]) == 1 and t[3][0][0] == 0 and not t[3][0][2] and t[3][0][1] and not has_py(t[3][0][1]):
                # (a body without fill tags is rendered once more while the fills are collected: a Python-rendered
                #  component in there would be rendered twice - such bodies are written with an explicit {% fill %})
                out.append("{%% component %s %%}%s{%% endcomponent %%}" % (head, src_forest(t[3][0][1], names, ctx)))
            else:
                body = "".join('{%% fill "%s" %%}%s{%% endfill %%}' % (SLOTS[s], src_forest(b, names, ctx)) for s, b, _e in t[3])
                out.append("{%% component %s %%}%s{%% endcomponent %%}" % (head, body))
        elif k == "S":
            out.append('{%% slot "%s"%s %%}%s{%% endslot %%}' % (SLOTS[t[1]], " default" if t[1] == 0 else "", src_forest(t[2], names, ctx)))
        elif k == "R":
            out.append('{%% for _i in "%s" %%}%s{%% endfor %%}' % ("x" * t[1], src_forest(t[2], names, ctx)))
        elif k == "I":
            out.append('{%% if %d %%}%s{%% endif %%}' % (1 if t[1] else 0, src_forest(t[2], names, ctx)))
        elif k == "P":
            v = "%s_%d" % (ctx["prefix"], len(ctx["vars"]))
            ctx["vars"].append((v, t[1], t[2]))
            out.append("{{ %s }}" % v)
        else:
            raise ValueError(t)
    return "".join(out)


def show(f, n):
    return src_forest(f, ["c%d" % i for i in range(n)], {"prefix": "py", "vars": []})


def coq_forest(f):
    out = []
    for t in f:
        k = t[0]
        if k == "E":
            out.append("TElem %s %s" % (cN(TAGN[t[1]]), coq_forest(t[2])))
        elif k == "T":
            out.append("TText")
        elif k == "C":
            out.append("TComp %s %s %s" % (cN(t[1]), C.cbool(t[2]),
                                          clist(["(%s, %s)" % (cN(s), coq_forest(b)) for s, b, _e in t[3]])))
        elif k == "S":
            out.append("TSlot %s %s" % (cN(t[1]), coq_forest(t[2])))
        elif k == "R":
            out.append("TRep %d%%nat %s" % (t[1], coq_forest(t[2])))
        elif k == "I":
            out.append("TIf %s %s" % (C.cbool(t[1]), coq_forest(t[2])))
        else:
            out.append("TPy %s" % cN(t[1]))
    return clist(out)


def coq_prog(lib, page, mode):
    return "{| lib := %s; page := %s; iso := %s |}" % (
        clist(["(%s, %s)" % (cN(i), coq_forest(f)) for i, (f, _m) in enumerate(lib)]), coq_forest(page),
        C.cbool(mode == "isolated"))


# ------------------------------------------------------------------------------------------------
# implementation side
# ------------------------------------------------------------------------------------------------
_uid = [0]
_NEST = [0]       # > 0 while a component's get_context_data is rendering the same instance again (self.render)
LOG = []          # per instance, in creation order: [Component.id at the start of the render, rendered without a parent,
                  #   ... while another instance is being rendered, pending attr entries, Component.id at the end of
                  #   get_context_data, Component.id at the end of on_render_before (None: hook not used)]
EAGER = ("before", "self-gcd", "self-before")


def _log(comp):
    import django_components.perfutil.component as Pm
    root = not comp.input.context.get(CTX_KEY, None)
    e = [comp.id, root, root and (len(Pm.component_context_cache) > 0 or _NEST[0] > 0), len(Pm.child_component_attrs), None, None]
    LOG.append(e)
    return e


def self_targets(f):
    out = []
    for t in f:
        if t[0] == "P" and t[2].startswith("self"):
            out.append(t[1])
        for x in subforests(t):
            out.extend(self_targets(x))
    return out


RESEED_CONST = 20260928


def build_components(lib, reseed=None):
    """Create and register one Component class per library entry. Returns (names, classes).
    reseed: {component index: "gcd" | "before"} - user code of that component calls random.seed(<constant>) in
    get_context_data / on_render_before (a "pick of the day" component); render ids must not depend on that.
    A Python-rendered component `P(k, "self-...")` is rendered by the SAME Component instance (self.render(kwargs=...)
    from get_context_data / on_render_before): the class then carries the template of entry k as a variant of its own."""
    from django_components import Component, registry
    _uid[0] += 1
    names = ["c14_%d_%d" % (_uid[0], i) for i in range(len(lib))]
    classes = []
    for i in range(len(lib)):
        variants = [i]
        for v in variants:
            for k in self_targets(lib[v][0]):
                if k not in variants:
                    variants.append(k)
        parts, info = [], {}
        for v in variants:
            ctx = {"prefix": "py%dv%d" % (i, v), "vars": []}
            body = src_forest(lib[v][0], names, ctx)
            text = ("[[B{{ id }}]]%s[[E{{ id }}]]" % body) if lib[v][1] else body
            parts.append(text if len(variants) == 1 else "{%% if c14v == %d %%}%s{%% endif %%}" % (v, text))
            info[v] = ctx["vars"]

        rs = (reseed or {}).get(i)

        def gcd(self, variant=None, _i=i, _info=info, _rs=rs, **kw):
            v = _i if variant is None else variant
            e = _log(self)
            if _rs == "gcd":
                random.seed(RESEED_CONST)
                random.choice("abcdef")
            d = {"c14v": v, "c14e": e}
            for var, k, via in _info[v]:
                if via in ("lazy", "lazy-deps"):
                    d[var] = (lambda k=k, via=via: classes[k].render(render_dependencies=(via == "lazy-deps")))
                elif via == "self-gcd":
                    _NEST[0] += 1
                    try:
                        d[var] = self.render(kwargs={"variant": k}, render_dependencies=False)
                    finally:
                        _NEST[0] -= 1
            d["id"] = e[4] = self.id          # read AFTER the nested renders of this instance returned
            return d
        attrs = {"template": "".join(parts), "get_context_data": gcd, "__module__": "verif_c14_%d" % _uid[0]}
        if rs == "before" or any(via in ("before", "self-before") for vs in info.values() for _v, _k, via in vs):
            def orb(self, context, template, _info=info, _rs=rs):
                hooked = False
                if _rs == "before":
                    random.seed(RESEED_CONST)
                    random.choice("abcdef")
                for var, k, via in _info[context["c14v"]]:
                    if via == "before":
                        context[var] = classes[k].render(render_dependencies=False)
                        hooked = True
                    elif via == "self-before":
                        context[var] = self.render(kwargs={"variant": k}, render_dependencies=False)
                        hooked = True
                if hooked:
                    context["id"] = context["c14e"][5] = self.id
            attrs["on_render_before"] = orb
        cls = type("C14Comp_%d_%d" % (_uid[0], i), (Component,), attrs)
        registry.register(names[i], cls)
        classes.append(cls)
    return names, classes


def drop_components(names):
    from django_components import registry
    for n in names:
        try:
            registry.unregister(n)
        except Exception:
            pass


_dyn_registered = [False]


def ensure_dyn():
    if _dyn_registered[0]:
        return
    from django_components import registry
    from django_components.components.dynamic import DynamicComponent

    class C14Dyn(DynamicComponent):
        template = "[[B{{ id }}]]" + DynamicComponent.template + "[[E{{ id }}]]"

        def get_context_data(self, *a, **k):
            e = _log(self)
            d = super().get_context_data(*a, **k)
            d["id"] = e[4] = self.id
            return d
    registry.register("c14dyn", C14Dyn)
    _dyn_registered[0] = True


class RenderTimeout(BaseException):
    pass


def _on_alarm(*a):
    raise RenderTimeout()


def render_impl(lib, page, mode, api, limit=60, reseed=None):
    """Returns (html or None, exception text or None, log, sizes of the two global tables afterwards).
    With `reseed` the page is rendered twice (the observed render is the second one: all templates are compiled)."""
    import signal
    old_handler = signal.signal(signal.SIGALRM, _on_alarm)
    signal.alarm(limit)
    try:
        return _render_impl(lib, page, mode, api, reseed)
    except RenderTimeout:
        return None, "no result after %d s" % limit, list(LOG), None
    finally:
        signal.alarm(0)
        signal.signal(signal.SIGALRM, old_handler)


def _render_impl(lib, page, mode, api, reseed=None):
    import djsetup
    import django_components.perfutil.component as Pm
    from django.template import Context, Template
    ensure_dyn()
    names, classes = build_components(lib, reseed)
    del LOG[:]
    try:
        with djsetup.components_settings(context_behavior=mode):
            try:
                if api == "python":
                    # page is a single fill-less, non-dynamic component: render it through Component.render
                    out = classes[page[0][1]].render(render_dependencies=False)
                elif api == "python-deps":
                    out = classes[page[0][1]].render(render_dependencies=True, type="fragment")
                else:
                    ctx = {"prefix": "pypage", "vars": []}
                    src = src_forest(page, names, ctx)
                    data = {v: (lambda k=k, via=via: classes[k].render(render_dependencies=(via == "lazy-deps")))
                            for v, k, via in ctx["vars"]}
                    tpl = Template(src)
                    if reseed is not None:
                        tpl.render(Context(data))
                        del LOG[:]
                    out = tpl.render(Context(data))
                return str(out), None, list(LOG), (len(Pm.component_renderer_cache), len(Pm.child_component_attrs))
            except RecursionError:
                return None, "RecursionError", list(LOG), None
            except Exception as e:  # noqa
                return None, type(e).__name__ + ": " + str(e)[:200], list(LOG), None
    finally:
        drop_components(names)


class _P(html.parser.HTMLParser):
    def __init__(self):
        super().__init__(convert_charrefs=True)
        self.toks = []

    def handle_starttag(self, tag, attrs):
        # html.parser lower-cases attribute names; ids are case-sensitive, so read them from the raw tag text
        self.toks.append(("open", tag, re.findall(r"\s" + ATTR + r"([^\s=>/]+)", self.get_starttag_text())))

    def handle_endtag(self, tag):
        self.toks.append(("close", tag))

    def handle_startendtag(self, tag, attrs):
        self.handle_starttag(tag, attrs)
        self.handle_endtag(tag)

    def handle_data(self, data):
        self.toks.append(("text", data))


MARK = re.compile(r"\[\[([BE])(\w*)\]\]")


def parse_html(s):
    p = _P()
    p.feed(s)
    p.close()
    return p.toks


def direct_oracle(toks, log, all_marked):
    """The property, evaluated on the implementation's output alone. Returns list of failure strings.
    log: one entry per instance, in the order the instances were created (see LOG)."""
    fails = []
    logged = [e[0] for e in log]
    for e in log:
        for later, where in ((e[4], "get_context_data"), (e[5], "on_render_before")):
            if later is not None and later != e[0]:
                fails.append("Component.id reported %s at the start of the render and %s at the end of %s (after a nested "
                             "render of the same instance returned)" % (e[0], later, where))
    if len(set(logged)) != len(logged):
        fails.append("two instances on the page reported the same Component.id: %r" % (logged,))
    if any(not re.fullmatch(r"\w{6}", i or "") for i in logged):
        fails.append("Component.id is not a 6-character id: %r" % (logged,))
    # element table: (index, depth, ids) ; marker table: id -> (begin index, begin depth, end index)
    depth = 0
    elems, spans, open_marks = [], {}, {}
    for i, t in enumerate(toks):
        if t[0] == "open":
            if t[1] == "template":
                fails.append("placeholder <template djc-render-id> survived in the output")
            elems.append((i, depth, t[2]))
            depth += 1
        elif t[0] == "close":
            depth -= 1
        else:
            for m in MARK.finditer(t[1]):
                b, cid = m.group(1), m.group(2)
                if b == "B":
                    if cid in open_marks or cid in spans:
                        fails.append("id %s echoed by two instances" % cid)
                    open_marks[cid] = (i, depth)
                else:
                    if cid not in open_marks:
                        fails.append("end marker without begin for %s" % cid)
                        continue
                    bi, bd = open_marks.pop(cid)
                    if bd != depth:
                        fails.append("unbalanced output of instance %s" % cid)
                    spans[cid] = (bi, bd, i)
    if depth != 0 or open_marks:
        fails.append("unbalanced document")
    logged_set = set(logged)
    for cid in spans:
        if cid not in logged_set:
            fails.append("marker id %s was never reported by Component.id" % cid)
    if all_marked:
        for cid in logged:
            if cid not in spans:
                fails.append("instance %s (Component.id) has no output in the document" % cid)
    for (i, d, ids) in elems:
        if len(set(ids)) != len(ids):
            fails.append("element carries the same id twice: %r" % (ids,))
        for x in ids:
            if x not in logged_set:
                fails.append("element carries id %s that no instance reported as Component.id" % x)
        for cid, (bi, bd, ei) in spans.items():
            inside = bi < i < ei
            is_root = inside and d == bd
            if is_root and cid not in ids:
                fails.append("top-level element of instance %s does not carry its id" % cid)
            if (not is_root) and cid in ids:
                fails.append("element that is not a top-level element of instance %s carries its id (%s)"
                             % (cid, "nested inside its output" if inside else "outside its output"))
    return fails


class TooBig(Exception):
    pass


def reference_doc(lib, page, cap=None):
    """Independent executable statement of the property: expand the program (each component instance gets a fresh
    number, in the order of the Coq expansion), and emit every element with exactly the ids of the instances it is a
    top-level element of.  Also returns the number of instances, the recursion depth the Coq expansion needs (its
    fuel), and for the model of Component.id: the labels of the instances rendered from inside get_context_data
    ("early") and (label, object) for the instances rendered by the Component object of their host (self.render())."""
    counter = [0]
    maxd = [0]
    meta = {"early": [], "obj": []}

    def walk(forest, env, inherited, out, d, cur):
        # inherited: ids carried by top-level elements at this position; cur: the object rendering this template
        # env: (fills {slot: forest}, env of the fills' author, object of the fills' author) | None
        maxd[0] = max(maxd[0], d)
        if cap is not None and (counter[0] > cap or len(out) > 12 * cap):
            raise TooBig()
        for t in forest:
            k = t[0]
            if k == "E":
                out.append(("open", t[1], list(inherited)))
                walk(t[2], env, [], out, d + 1, cur)
                out.append(("close", t[1]))
            elif k == "C":
                mine = []
                for _ in range(2 if t[2] else 1):     # a dynamic component is an instance around the inner instance
                    mine.append(counter[0])
                    counter[0] += 1
                fills = {}
                for s, b, _e in t[3]:
                    fills.setdefault(s, b)
                walk(lib[t[1]][0], (fills, env, cur) if t[3] else None, inherited + mine, out, d + 1, mine[-1])
            elif k == "S":
                if env is not None and t[1] in env[0]:
                    walk(env[0][t[1]], env[1], inherited, out, d + 1, env[2])
                else:
                    walk(t[2], env, inherited, out, d + 1, cur)
            elif k == "R":
                for _ in range(t[1]):
                    walk(t[2], env, inherited, out, d + 1, cur)
            elif k == "I":
                if t[1]:
                    walk(t[2], env, inherited, out, d + 1, cur)
            elif k == "P":
                me = counter[0]
                counter[0] += 1
                o = me
                if t[2].startswith("self") and cur is not None:
                    o = cur
                    meta["obj"].append((me, cur))
                if t[2] == "self-gcd":
                    meta["early"].append(me)
                walk(lib[t[1]][0], None, inherited + [me], out, d + 1, o)
    out = []
    walk(page, None, [], out, 1, None)
    return out, counter[0], maxd[0] + 2, meta


def alloc_tokens(toks, order):
    """Element tokens with every id replaced by its allocation index (position of the instance in the LOG)."""
    out = []
    for t in toks:
        if t[0] == "open":
            out.append(("open", t[1], sorted(order.get(x, (1 << 20) + i) for i, x in enumerate(t[2]))))
        elif t[0] == "close":
            out.append(t)
    return out


def coq_case(lib, page, mode, fuel, meta, toks, log):
    order = {}
    for i, e in enumerate(log):
        order.setdefault(e[0], i)
    reps = ["(%s, %s)" % (cN(order.get(e[4], 1 << 20)), C.copt(e[5], lambda v: cN(order.get(v, 1 << 20)))) for e in log]
    return "(%s, %s, %s, %s, %s, %s, %s, %s)" % (
        cN(fuel), coq_prog(lib, page, mode), clist([cN(x) for x in meta["early"]]),
        clist(["(%s, %s)" % (cN(a), cN(b)) for a, b in meta["obj"]]), coq_obs(alloc_tokens(toks, order)),
        cN(len(log)), cN(sum(1 for l in log if l[2])), clist(reps))


def canon_tokens(toks, order=None):
    """Element tokens with ids renumbered by first appearance (creation order inside one element)."""
    order = order or {}
    m, out = {}, []
    for t in toks:
        if t[0] == "open":
            fresh = sorted(set(x for x in t[2] if x not in m), key=lambda x: x if isinstance(x, int) else order.get(x, 1 << 30))
            for x in fresh:
                m[x] = len(m)
            out.append(("open", t[1], sorted(m[x] for x in t[2])))
        elif t[0] == "close":
            out.append(t)
    return out


def coq_obs(ctoks):
    out = []
    for t in ctoks:
        tn = TAGN.get(t[1], 99)
        out.append("Open %s %s" % (cN(tn), clist([cN(x) for x in t[2]])) if t[0] == "open" else "Close %s" % cN(tn))
    return clist(out)


def measure_nontrivial(toks):
    """shared root (an element with >= 2 ids) and a non-root element inside some instance's output."""
    shared = inner = False
    stack = []
    for t in toks:
        if t[0] == "open":
            if len(t[2]) >= 2:
                shared = True
            if not t[2] and any(stack):
                inner = True
            stack.append(bool(t[2]) or (bool(stack) and stack[-1]))
        elif t[0] == "close" and stack:
            stack.pop()
    return shared and inner


# ------------------------------------------------------------------------------------------------
# generators
# ------------------------------------------------------------------------------------------------
def shapes(child, leafish=False):
    """Template shapes over one child component index (None = no child available)."""
    base = [
        [], [T], [E("div")], [E("div"), E("span")], [T, E("p", T), T], [E("div", E("span", T), T)],
        [S()], [E("section", S(E("p")))], [S(E("div"), T), E("span")],
    ]
    if child is not None:
        base += [
            [Cc(child)], [E("div", Cc(child))], [Cc(child), E("p")], [T, Cc(child), Cc(child)],
            [Cc(child, E("li"))], [Cc(child, T)], [E("ul", Cc(child, E("li"), E("li")))],
            [R(2, Cc(child))], [Cc(child, dyn=True)], [S(Cc(child))], [S(), S()],
            [Cc(child, Cc(child))],
        ]
    return base


def gen_exhaustive(thorough):
    """All three-level libraries over the template shapes (comp0 -> comp1 -> comp2), page = comp0 with 4 kinds of fill."""
    leaf = shapes(None)
    mid = shapes(2)
    top = shapes(1)
    fills = [[], [E("li")], [T], [Cc(2)]]
    for a, b, c in itertools.product(range(len(top)), range(len(mid)), range(len(leaf))):
        if not thorough and (a * 7 + b * 3 + c) % 4 != 0:
            continue
        for fi, fill in enumerate(fills):
            if not thorough and (a + b + c + fi) % 2:
                continue
            lib = [(top[a], True), (mid[b], True), (leaf[c], (b + c) % 11 != 0)]
            yield lib, [E("section", Cc(0, *fill)), Cc(1)], "exh"


def gen_reentrant(thorough):
    """The layout pattern and its neighbours: comp0 has several root-level items with a component LATER among them,
    an earlier part forwards comp0's slot into comp1 (or comp1 renders a component from Python); the page fills comp0's
    slot.  In "isolated" mode the page-level fill content is rendered without a parent component: a complete root run
    that starts and ends while the attribute entries of comp0's later root components are waiting in the global table."""
    tops = [
        [Cc(1, S()), Cc(3)],
        [Cc(1, S()), E("p"), Cc(3)],
        [E("div", Cc(1, S())), Cc(3)],
        [Cc(1, E("ul", S())), Cc(3)],
        [Cc(1), Cc(3)],
        [S(), Cc(3)],
        [Cc(3), Cc(1, S())],
        [R(2, Cc(1, S())), Cc(3), Cc(3)],
        [Cc(1, fills=[(1, [S()])]), Cc(3)],
        [Cc(1, S(), dyn=True), Cc(3, dyn=True)],
        [Cc(1, fills=[(0, [S(name=1)]), (1, [S()])]), If(1, Cc(3))],
        [Cc(1, S(Cc(2))), Cc(3)],
    ]
    mids = [
        [E("section", S())], [S()], [S(), E("span")], [E("div", P(2))], [P(2, "before"), S()], [S(name=1)],
        [E("section", S(), S(Cc(2), name=1))], [Cc(2, S())], [If(1, S()), If(0, S())], [E("p", P(2, "lazy-deps")), Cc(2)],
        [E("div", P(2, "self-gcd"), S())], [P(2, "self-before"), E("span", S())],
    ]
    leaves = [[E("span")], [], [T], [E("li"), E("li")], [P(3)]]
    foots = [[E("p")], [E("div"), T, E("span", E("p"))]]
    fills = [[], [Cc(2)], [E("li"), Cc(2)], [E("div", Cc(2))], [P(2)], [Cc(2, Cc(2))], [Cc(1, Cc(2))]]
    n = 0
    for a, b, c, d, fi in itertools.product(range(len(tops)), range(len(mids)), range(len(leaves)), range(len(foots)), range(len(fills))):
        n += 1
        if not thorough and (a * 5 + b * 3 + c * 7 + d + fi * 11) % 9 != 0:
            continue
        lib = [(tops[a], True), (mids[b], True), (leaves[c], True), (foots[d], True)]
        yield lib, [Cc(0, *fills[fi])], "reentrant"
        if (a + b + fi) % 3 == 0:
            yield lib, [E("section", Cc(0, fills=[(1, fills[fi]), (0, [E("li")] + fills[fi])])), Cc(3)], "reentrant"


def gen_forest(rng, size, avail, where, depth=0):
    """Random forest; avail = component indices that may be named; where = "page" (no slots), "tpl" (component
    template: slots allowed, also inside fills and slot defaults)."""
    out = []
    n = rng.choice([0, 1, 1, 2, 2, 3]) if depth else rng.choice([0, 1, 1, 2, 2, 3, 4])
    for _ in range(n):
        if size[0] <= 0:
            break
        size[0] -= 1
        r = rng.random()
        if r < 0.27 or depth >= 4:
            if rng.random() < 0.5 or depth >= 4:
                out.append(E(rng.choice(TAGS), attr=rng.choice(["", "", ' class="k"', ' id="a" data-x'])))
            else:
                out.append(E(rng.choice(TAGS), *gen_forest(rng, size, avail, where, depth + 1),
                             attr=rng.choice(["", "", ' class="k"'])))
        elif r < 0.36:
            out.append(T)
        elif r < 0.66 and avail:
            k = rng.choice(avail)
            q = rng.random()
            if q < 0.45:
                fills = []
            elif q < 0.80:
                fills = [(0, gen_forest(rng, size, avail, where, depth + 1), rng.random() < 0.4)]
            elif q < 0.90:
                fills = [(1, gen_forest(rng, size, avail, where, depth + 1), True)]
            else:
                fills = [(s, gen_forest(rng, size, avail, where, depth + 1), True) for s in rng.sample([0, 1], 2)]
            out.append(Cc(k, dyn=rng.random() < 0.12, fills=fills))
        elif r < 0.81 and where == "tpl":
            out.append(S(*gen_forest(rng, size, avail, where, depth + 1), name=rng.choice([0, 0, 0, 1])))
        elif r < 0.86:
            out.append(R(rng.choice([0, 1, 2, 2, 3]), *gen_forest(rng, size, avail, where, depth + 1)))
        elif r < 0.90:
            out.append(If(rng.random() < 0.7, *gen_forest(rng, size, avail, where, depth + 1)))
        elif r < 0.98 and avail:
            out.append(P(rng.choice(avail), rng.choice(["lazy", "lazy", "lazy-deps"])))
        else:
            out.append(T)
    return out


def gen_random(rng, n, marked_all=True):
    for _ in range(n):
        nc = rng.choice([1, 2, 3, 3, 4, 5])
        lib = []
        unmarked = (not marked_all) or rng.random() < 0.04      # a few programs without markers: empty outputs exist
        for k in range(nc):
            avail = list(range(k + 1, nc))
            f = gen_forest(rng, [rng.choice([2, 4, 6, 8])], avail, "tpl")
            if avail and rng.random() < 0.10:
                # hook-rendered component (on_render_before), echoed at the start of the template or of an element
                p = P(rng.choice(avail), rng.choice(["before", "self-gcd", "self-before"]))
                if f and f[0][0] == "E" and rng.random() < 0.5:
                    f[0] = ("E", f[0][1], [p] + f[0][2], f[0][3])
                else:
                    f.insert(0, p)
            if avail and rng.random() < 0.25:
                f.append(Cc(rng.choice(avail)))        # a later root-level component: its attribute entry waits while the rest renders
            lib.append((f, not unmarked))
        page = gen_forest(rng, [rng.choice([2, 3, 5])], list(range(nc)), "page")
        if not any(t[0] == "C" for t in page):
            page.append(Cc(0))
        try:
            reference_doc(lib, page, cap=150)       # loops x repeated slots x several children multiply: keep pages small
            reference_doc(lib, [Cc(0)], cap=150)
        except TooBig:
            continue
        yield lib, page, "random"


def chain_program(depth, shared, looped=False):
    """depth components; shared: each is the ROOT of its parent (all ids on the same elements);
    otherwise each sits inside a <div> of its parent (nesting depth); looped: every level renders its child from
    inside a {% for %} loop over one item (forloop.parentloop grows with the depth)."""
    lib = []
    for k in range(depth - 1):
        child = R(1, Cc(k + 1)) if looped else Cc(k + 1)
        lib.append(([child] if shared else [E("div", child), T], True))
    lib.append(([E("p", E("span")), T, E("div")], True))
    return lib, [Cc(0)]


# ------------------------------------------------------------------------------------------------
def run_case(chk, lib, page, mode, api, kind, terms, cases, ids="counter", reseed=None):
    if python_root_slot_in_fill(lib, page, mode, api):
        chk.extra["django_python_root_with_slot_in_fill"] = chk.extra.get("django_python_root_with_slot_in_fill", 0) + 1
    html_out, exc, log, tabs = render_impl(lib, page, mode, api, reseed=reseed)
    case = {"lib": lib, "page": page, "mode": mode, "api": api}
    if ids != "counter":
        case["ids"] = ids
    if reseed is not None:
        case["reseed"] = {str(k): v for k, v in reseed.items()}
    key = (repr(lib), repr(page), mode, api, ids, repr(reseed))
    if html_out is None:
        chk.count(key, False, kind=kind)
        chk.fail("c14-render-hangs" if exc.startswith("no result") else "c14-render-raises" if exc != "RecursionError" else "c14-recursion-limit",
                 "render raised %s" % exc, dict(case, exception=exc))
        return
    logged = [l[0] for l in log]
    toks = parse_html(html_out)
    all_marked = all(m for _f, m in lib)
    fails = direct_oracle(toks, log, all_marked)
    nontriv = measure_nontrivial(toks)
    nre = sum(1 for l in log if l[2])
    npend = sum(1 for l in log if l[2] and l[3] > 0)
    st = chk.extra.setdefault("reentrancy", {"programs_with_reentrant_root_run": 0, "reentrant_root_runs": 0,
                                             "programs_with_reentrant_run_while_attr_entries_pending": 0,
                                             "tables_not_empty_after_render": 0})
    st["reentrant_root_runs"] += nre
    st["programs_with_reentrant_root_run"] += 1 if nre else 0
    st["programs_with_reentrant_run_while_attr_entries_pending"] += 1 if npend else 0
    if tabs != (0, 0):
        st["tables_not_empty_after_render"] += 1
    chk.count(key, nontriv, kind=kind + ("+reent" if npend else ""),
              sample={"page": show(page, len(lib)), "templates": [show(f, len(lib)) for f, _ in lib], "mode": mode,
                      "html": html_out[:700]} if (nontriv and npend and kind == "random" and len(html_out) < 1000) else None)
    order = {x: i for i, x in enumerate(logged)}
    ctoks = canon_tokens(toks, order)
    meta = {"early": [], "obj": []}
    if kind.startswith("chain"):
        fuel = 4 * len(lib) + 10          # (the reference is recursive Python; chains go far beyond the interpreter's limit)
    else:
        ref, ninst, fuel, meta = reference_doc(lib, page)
        if canon_tokens(ref) != ctoks:
            fails.append("elements / data-djc-id sets differ from the reference (ids on the top-level elements of each instance's output, nowhere else)")
        elif ninst != len(logged):
            fails.append("%d instances rendered, %d expected" % (len(logged), ninst))
    if fails:
        chk.fail("c14-root-ids", fails[0], dict(case, failures=fails[:5], html=html_out[:4000]))
    terms.append(coq_case(lib, page, mode, fuel, meta, toks, log))
    cases.append(dict(case, html=html_out[:4000], observed=ctoks[:400], reentrant_root_runs=nre))


SEED_LAYOUT = [([Cc(1, S()), Cc(3)], True), ([E("section", S())], True), ([E("span")], True), ([E("p")], True)]
CORPUS = [
    # component as root of a component as root of a component, two root elements, text between
    {"lib": [([Cc(1)], True), ([Cc(2)], True), ([E("div"), T, E("span", E("p"))], True)], "page": [Cc(0)]},
    # fill content at the root of the filled component: its elements are roots of the filled instance
    {"lib": [([S()], True), ([E("li")], True)], "page": [E("ul", Cc(0, E("li"), Cc(1)))]},
    # 0 roots / text-only roots below a wrapper
    {"lib": [([Cc(1), Cc(2)], False), ([], False), ([T], False)], "page": [Cc(0), E("div", Cc(0))]},
    # dynamic component as root, in a loop
    {"lib": [([R(2, Cc(1, dyn=True))], True), ([E("p")], True)], "page": [Cc(0)]},
    # seeded change C14a (child_component_attrs.clear() after a root run), scenario 1: the page fills the layout's slot
    # with a component, the layout forwards the slot into its first root component; a second root component follows
    {"lib": SEED_LAYOUT, "page": [Cc(0, Cc(2))]},
    # ... scenario 2: Component.render() from on_render_before / from a lazily evaluated variable, then a sibling root component
    {"lib": [([Cc(1), Cc(3)], True), ([E("section", P(2, "before"))], True), ([E("span")], True), ([E("p")], True)], "page": [Cc(0)]},
    {"lib": [([Cc(1), Cc(3)], True), ([E("section", P(2))], True), ([E("span")], True), ([E("p")], True)], "page": [Cc(0)]},
    # seeded change C14b (_with_metadata pops the oldest entry): a tree component renders its children by calling
    # self.render() on the SAME instance from get_context_data / on_render_before and reads Component.id afterwards
    {"lib": [([E("ul", E("li"), P(1, "self-gcd"), P(2, "self-gcd"))], True), ([E("ul", E("li"), P(2, "self-gcd"), P(2, "self-gcd"))], True),
             ([E("ul", E("li"))], True)], "page": [E("section", Cc(0))]},
    {"lib": [([P(1, "self-before"), E("p"), Cc(2)], True), ([E("div", P(2, "self-gcd"))], True), ([E("span")], True)], "page": [Cc(0), Cc(1)]},
    # ... the re-entrant run's output at the ROOT of the forwarding component, three levels of pending entries
    {"lib": [([Cc(1, S()), Cc(3)], True), ([Cc(2, S()), Cc(3)], True), ([S(), Cc(3)], True), ([E("p")], True)], "page": [Cc(0, Cc(3), E("li"))]},
]


def run(tier, seed):
    import djsetup
    djsetup.setup()
    djsetup.patch_ids()
    import gen_constants
    gen_constants.generate(["C14"])
    chk = C.Check("C14", tier, seed)
    chk.prove()
    thorough = tier == "thorough"
    terms, cases = [], []
    both = ("django", "isolated")
    # ---- corpus ----
    for c in CORPUS:
        for mode in both:
            run_case(chk, c["lib"], c["page"], mode, "template", "corpus", terms, cases)
    cdir = os.path.join(C.VERIF, "corpus", "C14")
    if os.path.isdir(cdir):
        for fn in sorted(os.listdir(cdir)):
            if fn.endswith(".json"):
                c = _from_json(json.load(open(os.path.join(cdir, fn))))
                run_case(chk, c["lib"], c["page"], c.get("mode", "django"), c.get("api", "template"), "corpus", terms, cases)
    # ---- the layout pattern (re-entrant root runs with pending entries), both modes ----
    for i, (lib, page, kind) in enumerate(gen_reentrant(thorough)):
        for mode in (both if i % 3 == 0 else ("isolated",) if i % 3 == 1 or not thorough else ("django",)):
            run_case(chk, lib, page, mode, "template", kind, terms, cases)
    # ---- exhaustive shapes ----
    for i, (lib, page, kind) in enumerate(gen_exhaustive(thorough)):
        run_case(chk, lib, page, "django" if i % 2 else "isolated", "template", kind, terms, cases)
    # ---- single-root pages through Component.render ----
    for i, (lib, page, kind) in enumerate(gen_random(chk.rng, 1500 if thorough else 300)):
        run_case(chk, lib, [Cc(0)], "django" if i % 2 else "isolated", "python" if i % 3 else "python-deps", "python-api", terms, cases)
    # ---- random programs ----
    for i, (lib, page, kind) in enumerate(gen_random(chk.rng, 40000 if thorough else 5000)):
        run_case(chk, lib, page, "django" if i % 2 else "isolated", "template", kind, terms, cases)
    # ---- chains: nesting depth and shared roots, far beyond the interpreter's recursion limit ----
    chains = [(30, True, False, "django"), (30, False, False, "django"), (300, True, False, "django"), (300, False, False, "django"),
              (30, False, True, "isolated"), (600, False, True, "django"), (600, True, True, "isolated")]
    if thorough:
        chains += [(2000, True, False, "django"), (2000, False, False, "django"), (2000, False, True, "django"), (2000, True, True, "isolated")]
    for depth, shared, looped, mode in chains:
        lib, page = chain_program(depth, shared, looped)
        t0 = time.time()
        tag = "%d%s%s" % (depth, "s" if shared else "n", "-loop" if looped else "")
        run_case(chk, lib, page, mode, "template", "chain" + tag, terms, cases)
        chk.extra.setdefault("chain_render_s", {})[tag] = round(time.time() - t0, 2)
    # ---- real (random) ids: the library's own id generator, full pipeline ----
    real_ids(chk, 1500 if thorough else 400, terms, cases)
    t0 = time.time()
    bad = C.coq_eval_cases("C14", "doc", IMPORTS, "c14i_case", "check_c14i", terms, shard=300, timeout=900)
    chk.extra["coq_eval_programs_s"] = round(time.time() - t0, 1)
    for i in bad[:20]:
        chk.disagree("PostRender model != implementation (element structure / data-djc-id sets / number of instances / "
                     "number of re-entrant root runs)", cases[i])
    t0 = time.time()
    placeholder_differential(chk, thorough)
    chk.extra["coq_eval_matcher_s"] = round(time.time() - t0, 1)
    if thorough:
        fill_nesting_probe(chk)
    chk.assumptions = [
        "render ids are distinct (62^6 random supply from os.urandom - anchored: Gen/C14.v records the entropy source of nanoid.generate and that "
        "re-seeding Python's global RNG does not repeat ids; the compared runs use a counter, a batch of every run uses the library's own "
        "generator, half of it with components whose user code calls random.seed(<constant>) during the render)",
        "templates use a tag subset on which djc_core_html_parser is well behaved (div/span/section/p/ul/li, no void elements, no stray end tags, no <script>)",
        "generated programs: component libraries are acyclic; slots (two names, one default) occur in component templates only - also inside "
        "fills and slot defaults there - never in the page template; which fill a slot resolves to is C01's subject (lexical resolution is assumed here and compared)",
        "Component.on_render_after is not overridden (the per-component callback is the identity on HTML)",
        "the order of the marker attributes inside one tag is not compared (sets)",
    ]
    return chk.finish(
        rule="programs = library of <=5 components (templates over elements/text/component tags incl. DynamicComponent/two slot names with "
             "default content/implicit + named fills/slots inside fills and defaults/for-loops over 0..3 items/if/components rendered from "
             "Python via lazy variable or on_render_before) + page, context_behavior django|isolated; families: corpus (incl. the two scenarios "
             "of seeded change C14a); the layout pattern (12 x 12 x 5 x 2 x 7 shapes%s: forwarded slots, Python renders, a later root "
             "component waiting); all 3-level libraries over %d x %d x %d template shapes x 4 fills%s; seeded random programs; single-root "
             "pages through Component.render (with and without render_dependencies); chains of depth 30/300%s both as nested elements and as "
             "component-is-root chains, and chains where every level renders its child inside a one-item {%% for %%} loop (depth 600, thorough 2000); a batch with the library's own random id generator. Non-trivial = the output has an element shared "
             "by >= 2 instances AND an element inside an instance that is not a root. Distinct = distinct (program, mode, api, id supply). "
             "kind suffix +reent = a re-entrant root run happened while attribute entries of the interrupted run were pending."
             % ("" if thorough else " (every 9th in quick)", len(shapes(1)), len(shapes(2)), len(shapes(None)),
                "" if thorough else " (every 8th in quick)", "/2000" if thorough else ""),
        explanation="theorems of Props/C14.v re-checked by coqc; for every program the Coq model (expand -> page_render = the deferred-render "
                    "queue incl. re-entrant root runs on the shared tables; page_events/exec = allocation order and metadata stacks behind "
                    "Component.id) is evaluated by vm_compute: its element tokens, with every id replaced by its ALLOCATION INDEX, must equal the "
                    "html.parser view of the implementation's output with every id replaced by the position of its instance in the creation "
                    "log (order of the gen_id calls); the number of instances, the number of re-entrant root runs, and per instance the ids "
                    "Component.id reported at the end of get_context_data / on_render_before must equal the model's reads; direct oracle on EVERY "
                    "instance: begin/end markers echoing Component.id delimit each instance's output - every element at the top level of that "
                    "span carries data-djc-id-<id>, no other element does, every id on an element was reported by some instance, the ids read "
                    "at the start, after nested renders of the same instance and in the hook agree, ids pairwise distinct, no placeholder "
                    "survives; independent Python reference of the expected document.",
        extra_trusted=["harness/gen_c14.py (prints the placeholder regexes, the placeholder text, the id alphabet/length of /repo as Coq literals)",
                       "modelled, not verified: djc_core_html_parser.set_html_attributes (as: add the attributes to every element and "
                       "placeholder at nesting depth 0, report the attributes set on every placeholder), Django template rendering of the "
                       "generated tags incl. which context a fill is rendered with (expand), Python's re on the placeholder pattern (as: "
                       "split at placeholders), html.parser (harness side)"])


PIECES = ["<template ", 'djc-render-id="', "abc123", "aB_12Z", "a0001", "a1b2c3d", '"', ">", "</template>", " ", "x",
          ' data-djc-id-a1b2c3=""', "<", "></template>", "\n", "é"]


def placeholder_differential(chk, thorough):
    """Hand matcher of the model (match_placeholder_at) vs Python re compiled from the CURRENT source patterns."""
    import django_components.perfutil.component as Pm
    strings = []
    for L in (1, 2, 3):
        for seq in itertools.product(PIECES[:12], repeat=L):
            strings.append("".join(seq))
    for L in ((4, 5, 6, 7) if thorough else (4, 5)):
        for seq in itertools.product([0, 1, 2, 6, 7, 9, 11, 13], repeat=L):
            if seq[0] == 0 and 1 in seq:
                strings.append("".join(PIECES[i] for i in seq))
    for _ in range(3000 if thorough else 1200):
        strings.append("".join(chk.rng.choice(PIECES[:15]) for _ in range(chk.rng.randint(3, 12))))
    strings.append('<template djc-render-id="a1b2c3" data-djc-id-Zz0Zz0="" data-djc-id-000000=""></template><p>')
    terms, kept = [], []
    for s in strings:
        if any(ord(c) > 127 for c in s):
            continue
        m = Pm.nested_comp_pattern.match(s)
        if m is None:
            exp = "None"
        else:
            g = Pm.render_id_pattern.search(m[0])
            if g is None:
                chk.fail("c14-placeholder-regex", "nested_comp_pattern matched but render_id_pattern found no id", {"text": s})
                continue
            exp = "(Some (%s, %s))" % (C.cstr(g.group("render_id")), cN(len(s) - m.end()))
        chk.count(("ph", s), m is not None, kind="matcher")
        terms.append("(%s, %s)" % (C.cstr(s), exp))
        kept.append(s)
    bad = C.coq_eval_cases("C14", "ph", IMPORTS, "ph_case", "check_ph", terms, shard=3000 if thorough else 500)
    for i in bad[:10]:
        chk.disagree("hand matcher of the placeholder patterns != Python re on the current source patterns", {"text": kept[i]})


_RS_LIB = [([E("div", Cc(1)), Cc(2)], True), ([E("span")], True), ([E("p"), Cc(1)], True)]
RESEED_CASES = [
    # a component whose user code re-seeds Python's global RNG, twice on a page, with child components: two page-level trees
    {"lib": _RS_LIB, "page": [Cc(0), E("section", Cc(0))], "reseed": {0: "gcd"}},
    {"lib": _RS_LIB, "page": [R(3, Cc(0))], "reseed": {0: "before"}},
    # ... both occurrences inside ONE render tree (colliding ids would share one slot of the global tables)
    {"lib": [([Cc(1), E("ul", Cc(1))], True), ([E("div", Cc(2)), Cc(2)], True), ([E("li")], True)], "page": [Cc(0)], "reseed": {1: "gcd"}},
    {"lib": [([Cc(1), E("ul", Cc(1, Cc(2)))], True), ([E("div", Cc(2)), S()], True), ([E("li")], True)], "page": [Cc(0), Cc(0)],
     "reseed": {0: "before", 1: "before"}},
]


def real_ids(chk, n, terms, cases):
    """Programs rendered with the library's own id generator (restored for this batch): full pipeline.  In half of
    them the user code of some components calls random.seed(<constant>) during the render (allowed: the ids must not
    come from Python's global, seedable RNG); those pages are rendered twice, the second render is observed."""
    import django_components.util.misc as misc
    import django_components.util.nanoid as nanoid
    saved = misc.generate
    state = random.getstate()
    misc.generate = nanoid.generate
    try:
        for c in CORPUS:
            run_case(chk, c["lib"], c["page"], "isolated", "template", "real-ids", terms, cases, ids="real")
        for c in RESEED_CASES:
            for mode in ("django", "isolated"):
                run_case(chk, c["lib"], c["page"], mode, "template", "real-ids-reseed", terms, cases, ids="real", reseed=c["reseed"])
        for i, (lib, page, kind) in enumerate(gen_random(chk.rng, n)):
            reseed = None
            if i % 2 == 0:
                reseed = {k: chk.rng.choice(["gcd", "before"]) for k in range(len(lib)) if chk.rng.random() < 0.6}
                if chk.rng.random() < 0.5:
                    page = page + page          # the same components once more on the page
            run_case(chk, lib, page, "django" if i % 4 < 2 else "isolated", "template",
                     "real-ids-reseed" if reseed is not None else "real-ids", terms, cases, ids="real", reseed=reseed)
    finally:
        misc.generate = saved
        random.setstate(state)


def fill_nesting_probe(chk):
    """Observation (not a verdict): components nested through fills in a NON-component template. In "isolated" mode each
    level is a re-entrant root run, i.e. real Python recursion; in "django" mode the limit is Django's own recursive
    rendering of nested block tags."""
    import djsetup
    from django.template import Context, Template
    lib = [([E("div", S())], True), ([E("span")], True)]
    names, classes = build_components(lib)
    res = {}
    try:
        for mode in ("isolated", "django"):
            ok = 0
            for depth in (10, 20, 30, 40, 50, 60, 80, 100, 150, 200, 300):
                src = ('{%% component "%s" %%}' % names[0]) * depth + ('{%% component "%s" / %%}' % names[1]) + "{% endcomponent %}" * depth
                with djsetup.components_settings(context_behavior=mode):
                    try:
                        Template(src).render(Context({}))
                        ok = depth
                    except RecursionError:
                        break
                    except Exception as e:  # noqa
                        res[mode + "_error"] = type(e).__name__
                        break
            res[mode + "_deepest_ok"] = ok
    finally:
        drop_components(names)
    chk.extra["page_level_fill_nesting_probe"] = res


def _from_json(o):
    def fix(f):
        out = []
        for t in f:
            t = list(t)
            if t[0] == "E":
                out.append(("E", t[1], fix(t[2]), t[3]))
            elif t[0] == "T":
                out.append(T)
            elif t[0] == "C":
                out.append(("C", t[1], t[2], [(x[0], fix(x[1]), x[2]) for x in t[3]]))
            elif t[0] == "S":
                out.append(("S", t[1], fix(t[2])))
            elif t[0] == "R":
                out.append(("R", t[1], fix(t[2])))
            elif t[0] == "I":
                out.append(("I", t[1], fix(t[2])))
            else:
                out.append(("P", t[1], t[2]))
        return out
    o = dict(o)
    o["lib"] = [(fix(f), m) for f, m in o["lib"]]
    o["page"] = fix(o["page"])
    return o


def replay(path):
    import djsetup
    djsetup.setup()
    r = json.load(open(path))
    case = r.get("case", {})
    print(json.dumps({k: v for k, v in r.items() if k != "case"}, indent=1)[:2000])
    if "lib" not in case:
        return 0
    c = _from_json(case)
    if c.get("ids") != "real":
        djsetup.patch_ids()
    n = len(c["lib"])
    for i, (f, m) in enumerate(c["lib"]):
        print("component c%d%s: %s" % (i, " (marked)" if m else "", show(f, n)))
    print("page:", show(c["page"], n), " mode:", c.get("mode"), " api:", c.get("api"))
    reseed = {int(k): v for k, v in c["reseed"].items()} if c.get("reseed") is not None else None
    if reseed is not None:
        print("user code calls random.seed(%d) in:" % RESEED_CONST, reseed, "(page rendered twice, second render shown)")
    html_out, exc, log, tabs = render_impl(c["lib"], c["page"], c.get("mode", "django"), c.get("api", "template"), reseed=reseed)
    print("implementation:", html_out if html_out is not None else exc)
    print("instances in allocation order (Component.id at start, root run, re-entrant, pending attr entries, id after get_context_data, id after on_render_before):", log)
    if html_out is not None:
        logged = [l[0] for l in log]
        toks = parse_html(html_out)
        fails = direct_oracle(toks, log, all(m for _f, m in c["lib"]))
        ctoks = canon_tokens(toks, {x: i for i, x in enumerate(logged)})
        if len(c["lib"]) > 100:
            fuel, meta = 4 * len(c["lib"]) + 10, {"early": [], "obj": []}
        else:
            ref, ninst, fuel, meta = reference_doc(c["lib"], c["page"])
            if canon_tokens(ref) != ctoks:
                fails.append("elements / data-djc-id sets differ from the reference")
        print("direct oracle:", fails or "holds")
        print("observed (ids = allocation index):", alloc_tokens(toks, {x: i for i, x in reversed(list(enumerate(logged)))}))
        bad = C.coq_eval_cases("C14", "replay", IMPORTS, "c14i_case", "check_c14i",
                               [coq_case(c["lib"], c["page"], c.get("mode", "django"), fuel, meta, toks, log)])
        print("model agrees:", not bad)
        return 1 if (fails or bad) else 0
    return 1
