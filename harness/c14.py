"""C14 - root elements of a component instance, and only they, carry its render id.

Model: coq/PostRender/Model.v   Theorems: coq/Props/C14.v
Correspondence: generated programs (component library + page: elements, text, components plain and through
DynamicComponent, default slot / implicit fill, loops) are rendered by the implementation; the final HTML is parsed
with html.parser; the element structure with the `data-djc-id-*` sets is compared with what the Coq model
(expansion -> deferred-render queue) computes for the same program (vm_compute inside Coq).  Independently of the
model, a direct oracle checks the property on the implementation's output: components echo `Component.id` in
begin/end text markers, which delimit the instance's output in the final HTML.
"""
import html.parser
import itertools
import json
import os
import re
import time

import common as C
from common import cN, clist

IMPORTS = "From DJC Require Import Lib.Base PostRender.Model."
TAGS = ["div", "span", "section", "p", "ul", "li"]
TAGN = {t: i + 1 for i, t in enumerate(TAGS)}
ATTR = "data-djc-id-"

# ------------------------------------------------------------------------------------------------
# programs:  ("E", tag, kids, extra_attr) | ("T",) | ("C", k, dyn, fill) | ("S", dflt) | ("R", n, body)
# lib: list of (template forest, marked)    page: forest
# ------------------------------------------------------------------------------------------------


def E(tag, *kids, attr=""):
    return ("E", tag, list(kids), attr)


T = ("T",)


def Cc(k, *fill, dyn=False):
    return ("C", k, dyn, list(fill))


def S(*dflt):
    return ("S", list(dflt))


def R(n, *body):
    return ("R", n, list(body))


def src_forest(f, names):
    out = []
    for t in f:
        k = t[0]
        if k == "E":
            out.append("<%s%s>%s</%s>" % (t[1], t[3], src_forest(t[2], names), t[1]))
        elif k == "T":
            out.append("tx")
        elif k == "C":
            head = '"%s"' % names[t[1]] if not t[2] else '"c14dyn" is="%s"' % names[t[1]]
            if t[3]:
                out.append("{%% component %s %%}%s{%% endcomponent %%}" % (head, src_forest(t[3], names)))
            else:
                out.append("{%% component %s / %%}" % head)
        elif k == "S":
            out.append('{%% slot "content" default %%}%s{%% endslot %%}' % src_forest(t[1], names))
        elif k == "R":
            out.append('{%% for _i in "%s" %%}%s{%% endfor %%}' % ("x" * t[1], src_forest(t[2], names)))
        else:
            raise ValueError(t)
    return "".join(out)


def coq_forest(f):
    out = []
    for t in f:
        k = t[0]
        if k == "E":
            out.append("TElem %s %s" % (cN(TAGN[t[1]]), coq_forest(t[2])))
        elif k == "T":
            out.append("TText")
        elif k == "C":
            out.append("TComp %s %s %s" % (cN(t[1]), C.cbool(t[2]), coq_forest(t[3])))
        elif k == "S":
            out.append("TSlot %s" % coq_forest(t[1]))
        else:
            out.append("TRep %d%%nat %s" % (t[1], coq_forest(t[2])))
    return clist(out)


def coq_prog(lib, page):
    return "{| lib := %s; page := %s |}" % (
        clist(["(%s, %s)" % (cN(i), coq_forest(f)) for i, (f, _m) in enumerate(lib)]), coq_forest(page))


def forest_depth(f):
    d = 0
    for t in f:
        k = t[0]
        sub = t[2] if k in ("E", "R") else t[3] if k == "C" else t[1] if k == "S" else []
        d = max(d, 1 + forest_depth(sub))
    return d


def fuel_for(lib, page):
    # every expansion step descends one template level or enters one library template / fill; libraries are
    # acyclic (component k only names components > k) so (levels per template + 1) * (components + 1) * 2 suffices
    per = max([forest_depth(f) for f, _ in lib] + [forest_depth(page)]) + 2
    return per * (len(lib) + 2) * 2


# ------------------------------------------------------------------------------------------------
# implementation side
# ------------------------------------------------------------------------------------------------
_uid = [0]
LOG = []


def build_components(lib):
    """Create and register one Component class per library entry. Returns (names, classes)."""
    from django_components import Component, registry
    _uid[0] += 1
    names = ["c14_%d_%d" % (_uid[0], i) for i in range(len(lib))]
    classes = []
    for i, (f, marked) in enumerate(lib):
        body = src_forest(f, names)
        tpl = ("[[B{{ id }}]]%s[[E{{ id }}]]" % body) if marked else body

        def gcd(self, **kw):
            LOG.append(self.id)
            return {"id": self.id}
        cls = type("C14Comp_%d_%d" % (_uid[0], i), (Component,),
                   {"template": tpl, "get_context_data": gcd, "__module__": "verif_c14_%d" % _uid[0]})
        registry.register(names[i], cls)
        classes.append(cls)
    return names, classes


def drop_components(names):
    from django_components import registry
    for n in names:
        try:
            registry.unregister(n)
        except Exception:
            pass


_dyn_registered = [False]


def ensure_dyn():
    if _dyn_registered[0]:
        return
    from django_components import registry
    from django_components.components.dynamic import DynamicComponent

    class C14Dyn(DynamicComponent):
        def get_context_data(self, *a, **k):
            LOG.append(self.id)
            return super().get_context_data(*a, **k)
    registry.register("c14dyn", C14Dyn)
    _dyn_registered[0] = True


def render_impl(lib, page, mode, api):
    """Returns (html or None, exception class name or None, logged ids)."""
    import djsetup
    from django.template import Context, Template
    ensure_dyn()
    names, classes = build_components(lib)
    del LOG[:]
    try:
        with djsetup.components_settings(context_behavior=mode):
            try:
                if api == "python":
                    # page is a single fill-less, non-dynamic component: render it through Component.render
                    out = classes[page[0][1]].render(render_dependencies=False)
                elif api == "python-deps":
                    out = classes[page[0][1]].render(render_dependencies=True, type="fragment")
                else:
                    out = Template(src_forest(page, names)).render(Context({}))
                return str(out), None, list(LOG)
            except RecursionError:
                return None, "RecursionError", list(LOG)
            except Exception as e:  # noqa
                return None, type(e).__name__ + ": " + str(e)[:200], list(LOG)
    finally:
        drop_components(names)


class _P(html.parser.HTMLParser):
    def __init__(self):
        super().__init__(convert_charrefs=True)
        self.toks = []

    def handle_starttag(self, tag, attrs):
        # html.parser lower-cases attribute names; ids are case-sensitive, so read them from the raw tag text
        self.toks.append(("open", tag, re.findall(r"\s" + ATTR + r"([^\s=>/]+)", self.get_starttag_text())))

    def handle_endtag(self, tag):
        self.toks.append(("close", tag))

    def handle_startendtag(self, tag, attrs):
        self.handle_starttag(tag, attrs)
        self.handle_endtag(tag)

    def handle_data(self, data):
        self.toks.append(("text", data))


MARK = re.compile(r"\[\[([BE])(\w*)\]\]")


def parse_html(s):
    p = _P()
    p.feed(s)
    p.close()
    return p.toks


def direct_oracle(toks, logged, has_unlogged):
    """The property, evaluated on the implementation's output alone. Returns list of failure strings."""
    fails = []
    if len(set(logged)) != len(logged):
        fails.append("two instances on the page reported the same Component.id: %r" % (logged,))
    if any(not re.fullmatch(r"\w{6}", i or "") for i in logged):
        fails.append("Component.id is not a 6-character id: %r" % (logged,))
    # element table: (index, depth, ids) ; marker table: id -> (begin index, begin depth, end index)
    depth = 0
    elems, spans, open_marks = [], {}, {}
    for i, t in enumerate(toks):
        if t[0] == "open":
            if t[1] == "template":
                fails.append("placeholder <template djc-render-id> survived in the output")
            elems.append((i, depth, t[2]))
            depth += 1
        elif t[0] == "close":
            depth -= 1
        else:
            for m in MARK.finditer(t[1]):
                b, cid = m.group(1), m.group(2)
                if b == "B":
                    if cid in open_marks or cid in spans:
                        fails.append("id %s echoed by two instances" % cid)
                    open_marks[cid] = (i, depth)
                else:
                    if cid not in open_marks:
                        fails.append("end marker without begin for %s" % cid)
                        continue
                    bi, bd = open_marks.pop(cid)
                    if bd != depth:
                        fails.append("unbalanced output of instance %s" % cid)
                    spans[cid] = (bi, bd, i)
    if depth != 0 or open_marks:
        fails.append("unbalanced document")
    logged_set = set(logged)
    for cid in spans:
        if cid not in logged_set:
            fails.append("marker id %s was never reported by Component.id" % cid)
    for (i, d, ids) in elems:
        if len(set(ids)) != len(ids):
            fails.append("element carries the same id twice: %r" % (ids,))
        if not has_unlogged:
            for x in ids:
                if x not in logged_set:
                    fails.append("element carries id %s that no instance reported as Component.id" % x)
        for cid, (bi, bd, ei) in spans.items():
            inside = bi < i < ei
            is_root = inside and d == bd
            if is_root and cid not in ids:
                fails.append("top-level element of instance %s does not carry its id" % cid)
            if (not is_root) and cid in ids:
                fails.append("element that is not a top-level element of instance %s carries its id (%s)"
                             % (cid, "nested inside its output" if inside else "outside its output"))
    return fails


def reference_doc(lib, page):
    """Independent executable statement of the property: expand the program (each component instance gets a fresh
    number), and emit every element with exactly the ids of the instances it is a top-level element of."""
    counter = [0]

    def walk(forest, env, inherited, out):
        # inherited: ids carried by top-level elements at this position; env: (fill forest, env of the fill's author) | None
        for t in forest:
            k = t[0]
            if k == "E":
                out.append(("open", t[1], list(inherited)))
                walk(t[2], env, [], out)
                out.append(("close", t[1]))
            elif k == "C":
                mine = []
                for _ in range(2 if t[2] else 1):     # a dynamic component is an instance around the inner instance
                    mine.append(counter[0])
                    counter[0] += 1
                walk(lib[t[1]][0], (t[3], env) if t[3] else None, inherited + mine, out)
            elif k == "S":
                if env is not None:
                    walk(env[0], env[1], inherited, out)
                else:
                    walk(t[1], env, inherited, out)
            elif k == "R":
                for _ in range(t[1]):
                    walk(t[2], env, inherited, out)
    out = []
    walk(page, None, [], out)
    return out, counter[0]


def canon_tokens(toks):
    """Element tokens with ids renumbered by first appearance (allocation order inside one element)."""
    m, out = {}, []
    for t in toks:
        if t[0] == "open":
            fresh = sorted(set(x for x in t[2] if x not in m),
                           key=lambda x: x if isinstance(x, int) else int(x, 16) if re.fullmatch(r"[0-9a-f]+", x) else 0)
            for x in fresh:
                m[x] = len(m)
            out.append(("open", t[1], sorted(m[x] for x in t[2])))
        elif t[0] == "close":
            out.append(t)
    return out


def coq_obs(ctoks):
    out = []
    for t in ctoks:
        tn = TAGN.get(t[1], 99)
        out.append("Open %s %s" % (cN(tn), clist([cN(x) for x in t[2]])) if t[0] == "open" else "Close %s" % cN(tn))
    return clist(out)


def measure_nontrivial(toks):
    """shared root (an element with >= 2 ids) and a non-root element inside some instance's output."""
    shared = inner = False
    stack = []
    for t in toks:
        if t[0] == "open":
            if len(t[2]) >= 2:
                shared = True
            if not t[2] and any(stack):
                inner = True
            stack.append(bool(t[2]) or (bool(stack) and stack[-1]))
        elif t[0] == "close" and stack:
            stack.pop()
    return shared and inner


# ------------------------------------------------------------------------------------------------
# generators
# ------------------------------------------------------------------------------------------------
def shapes(child, leafish=False):
    """Template shapes over one child component index (None = no child available)."""
    base = [
        [], [T], [E("div")], [E("div"), E("span")], [T, E("p", T), T], [E("div", E("span", T), T)],
        [S()], [E("section", S(E("p")))], [S(E("div"), T), E("span")],
    ]
    if child is not None:
        base += [
            [Cc(child)], [E("div", Cc(child))], [Cc(child), E("p")], [T, Cc(child), Cc(child)],
            [Cc(child, E("li"))], [Cc(child, T)], [E("ul", Cc(child, E("li"), E("li")))],
            [R(2, Cc(child))], [Cc(child, dyn=True)], [S(Cc(child))], [S(), S()],
            [Cc(child, Cc(child))],
        ]
    return base


def gen_exhaustive(thorough):
    """All three-level libraries over the template shapes (comp0 -> comp1 -> comp2), page = comp0 with 4 kinds of fill."""
    leaf = shapes(None)
    mid = shapes(2)
    top = shapes(1)
    fills = [[], [E("li")], [T], [Cc(2)]]
    for a, b, c in itertools.product(range(len(top)), range(len(mid)), range(len(leaf))):
        if not thorough and (a * 7 + b * 3 + c) % 3 != 0:
            continue
        for fi, fill in enumerate(fills):
            if not thorough and (a + b + c + fi) % 2:
                continue
            lib = [(top[a], True), (mid[b], (a + b) % 4 != 0), (leaf[c], (b + c) % 5 != 0)]
            yield lib, [E("section", Cc(0, *fill)), Cc(1)], "exh"


def gen_forest(rng, size, avail, allow_slot, depth=0):
    """Random forest; avail = component indices that may be named."""
    out = []
    n = rng.choice([0, 1, 1, 2, 2, 3]) if depth else rng.choice([0, 1, 1, 2, 2, 3, 4])
    for _ in range(n):
        if size[0] <= 0:
            break
        size[0] -= 1
        r = rng.random()
        if r < 0.30 or depth >= 4:
            if rng.random() < 0.5 or depth >= 4:
                out.append(E(rng.choice(TAGS), attr=rng.choice(["", "", ' class="k"', ' id="a" data-x'])))
            else:
                out.append(E(rng.choice(TAGS), *gen_forest(rng, size, avail, allow_slot, depth + 1),
                             attr=rng.choice(["", "", ' class="k"'])))
        elif r < 0.42:
            out.append(T)
        elif r < 0.75 and avail:
            k = rng.choice(avail)
            fill = gen_forest(rng, size, avail, False, depth + 1) if rng.random() < 0.45 else []
            out.append(Cc(k, *fill, dyn=rng.random() < 0.15))
        elif r < 0.88 and allow_slot:
            out.append(S(*gen_forest(rng, size, avail, False, depth + 1)))
        elif r < 0.95:
            out.append(R(rng.choice([0, 1, 2, 2, 3]), *gen_forest(rng, size, avail, allow_slot, depth + 1)))
        else:
            out.append(T)
    return out


def gen_random(rng, n):
    for _ in range(n):
        nc = rng.choice([1, 2, 3, 3, 4, 5])
        lib = []
        for k in range(nc):
            avail = list(range(k + 1, nc))
            lib.append((gen_forest(rng, [rng.choice([2, 4, 6, 8])], avail, True), rng.random() < 0.8))
        page = gen_forest(rng, [rng.choice([2, 3, 5])], list(range(nc)), False)
        if not any(t[0] == "C" for t in page):
            page.append(Cc(0))
        yield lib, page, "random"


def chain_program(depth, shared):
    """depth components; shared: each is the ROOT of its parent (all ids on the same elements);
    otherwise each sits inside a <div> of its parent (nesting depth)."""
    lib = []
    for k in range(depth - 1):
        lib.append(([Cc(k + 1)] if shared else [E("div", Cc(k + 1)), T], k % 7 != 3))
    lib.append(([E("p", E("span")), T, E("div")], True))
    return lib, [Cc(0)]


# ------------------------------------------------------------------------------------------------
def run_case(chk, lib, page, mode, api, kind, terms, cases):
    html_out, exc, logged = render_impl(lib, page, mode, api)
    case = {"lib": lib, "page": page, "mode": mode, "api": api}
    if html_out is None:
        chk.count((repr(lib), repr(page), mode, api), False, kind=kind)
        chk.fail("c14-render-raises" if exc != "RecursionError" else "c14-recursion-limit",
                 "render raised %s" % exc, dict(case, exception=exc))
        return
    toks = parse_html(html_out)
    has_dyn = False  # C14Dyn logs its id as well, so every id on the page is logged
    fails = direct_oracle(toks, logged, has_dyn)
    nontriv = measure_nontrivial(toks)
    chk.count((repr(lib), repr(page), mode, api), nontriv, kind=kind,
              sample={"page": src_forest(page, ["c%d" % i for i in range(len(lib))]),
                      "templates": [src_forest(f, ["c%d" % i for i in range(len(lib))]) for f, _ in lib],
                      "html": html_out[:600]} if (nontriv and kind == "random" and len(html_out) < 900) else None)
    ctoks = canon_tokens(toks)
    if not kind.startswith("chain"):
        ref, ninst = reference_doc(lib, page)
        if canon_tokens(ref) != ctoks:
            fails.append("elements / data-djc-id sets differ from the reference (ids on the top-level elements of each instance's output, nowhere else)")
        elif ninst != len(logged):
            fails.append("%d instances rendered, %d expected" % (len(logged), ninst))
    if fails:
        chk.fail("c14-root-ids", fails[0], dict(case, failures=fails[:5], html=html_out[:4000]))
    terms.append("(%s, %s, %s, %s)" % (cN(fuel_for(lib, page)), coq_prog(lib, page), coq_obs(ctoks), cN(len(logged))))
    cases.append(dict(case, html=html_out[:4000], observed=ctoks[:400]))


CORPUS = [
    # component as root of a component as root of a component, two root elements, text between
    {"lib": [([Cc(1)], True), ([Cc(2)], True), ([E("div"), T, E("span", E("p"))], True)], "page": [Cc(0)]},
    # fill content at the root of the filled component: its elements are roots of the filled instance
    {"lib": [([S()], True), ([E("li")], True)], "page": [E("ul", Cc(0, E("li"), Cc(1)))]},
    # 0 roots / text-only roots below a wrapper
    {"lib": [([Cc(1), Cc(2)], True), ([], True), ([T], True)], "page": [Cc(0), E("div", Cc(0))]},
    # dynamic component as root, in a loop
    {"lib": [([R(2, Cc(1, dyn=True))], True), ([E("p")], True)], "page": [Cc(0)]},
]


def run(tier, seed):
    import djsetup
    djsetup.setup()
    djsetup.patch_ids()
    import gen_constants
    gen_constants.generate(["C14"])
    chk = C.Check("C14", tier, seed)
    chk.prove()
    thorough = tier == "thorough"
    terms, cases = [], []
    # ---- corpus ----
    for c in CORPUS:
        for mode in ("django", "isolated"):
            run_case(chk, c["lib"], c["page"], mode, "template", "corpus", terms, cases)
    cdir = os.path.join(C.VERIF, "corpus", "C14")
    if os.path.isdir(cdir):
        for fn in sorted(os.listdir(cdir)):
            if fn.endswith(".json"):
                c = _from_json(json.load(open(os.path.join(cdir, fn))))
                run_case(chk, c["lib"], c["page"], c.get("mode", "django"), c.get("api", "template"), "corpus", terms, cases)
    # ---- exhaustive shapes ----
    for i, (lib, page, kind) in enumerate(gen_exhaustive(thorough)):
        run_case(chk, lib, page, "django" if i % 2 else "isolated", "template", kind, terms, cases)
    # ---- single-root pages through Component.render ----
    for i, (lib, page, kind) in enumerate(gen_random(chk.rng, 1500 if thorough else 250)):
        run_case(chk, lib, [Cc(0)], "django" if i % 2 else "isolated", "python" if i % 3 else "python-deps", "python-api", terms, cases)
    # ---- random programs ----
    for i, (lib, page, kind) in enumerate(gen_random(chk.rng, 40000 if thorough else 2500)):
        run_case(chk, lib, page, "django" if i % 2 else "isolated", "template", kind, terms, cases)
    # ---- chains: nesting depth and shared roots, far beyond the interpreter's recursion limit ----
    for depth, shared in ([(30, True), (30, False), (300, True), (300, False)] +
                          ([(2000, True), (2000, False)] if thorough else [])):
        lib, page = chain_program(depth, shared)
        t0 = time.time()
        run_case(chk, lib, page, "django", "template", "chain%d%s" % (depth, "s" if shared else "n"), terms, cases)
        chk.extra.setdefault("chain_render_s", {})["%d%s" % (depth, "shared" if shared else "nested")] = round(time.time() - t0, 2)
    bad = C.coq_eval_cases("C14", "doc", IMPORTS, "c14_case", "check_c14", terms, shard=400, timeout=900)
    for i in bad[:20]:
        chk.disagree("PostRender model != implementation (element structure / data-djc-id sets / number of instances)", cases[i])
    placeholder_differential(chk, 3000 if thorough else 600)
    # ---- real (random) ids: direct oracle only ----
    real_ids(chk, 600 if thorough else 120)
    chk.assumptions = [
        "render ids are distinct (the harness replaces the 62^6 random supply by a counter for the compared runs; a batch with the real generator runs through the direct oracle)",
        "templates use a tag subset on which djc_core_html_parser is well behaved (div/span/section/p/ul/li, no void elements, no stray end tags, no <script>)",
        "generated programs: component libraries are acyclic, slots only directly in component templates (not inside fills or slot defaults: that is C01's subject), one default slot name",
        "Component.on_render_after is not overridden (the per-component callback is the identity on HTML)",
    ]
    return chk.finish(
        rule="programs = library of <=5 components (templates over elements/text/component tags incl. DynamicComponent/default slot with "
             "default content/implicit fills/for-loops over 0..3 items) + page; exhaustive family: all 3-level libraries over %d x %d x %d "
             "template shapes (0 roots, text-only, n roots, component as root, slot as root, fills at root, loops, dynamic) x 4 fills%s; "
             "seeded random programs; single-root pages through Component.render (with and without render_dependencies); chains of depth "
             "30/300%s both as nested elements and as component-is-root chains; both context_behavior modes. Non-trivial = the output has an "
             "element shared by >= 2 instances AND an element inside an instance that is not a root. Distinct = distinct (program, mode, api)."
             % (len(shapes(1)), len(shapes(2)), len(shapes(None)), "" if thorough else " (every 6th in quick)", "/2000" if thorough else ""),
        explanation="theorems of Props/C14.v re-checked by coqc; for every program the Coq model (expand -> page_render = the deferred-render "
                    "queue) is evaluated by vm_compute and its element tokens with canonically renumbered ids must equal the html.parser view "
                    "of the implementation's output, and the number of instances must equal the number of Component.id values reported; "
                    "direct oracle: begin/end markers echoing Component.id delimit each instance's output - every element at the top level "
                    "of that span carries data-djc-id-<id>, no other element does, ids pairwise distinct, no placeholder survives.",
        extra_trusted=["harness/gen_c14.py (prints the placeholder regexes, the placeholder text, the id alphabet/length of /repo as Coq literals)",
                       "modelled, not verified: djc_core_html_parser.set_html_attributes (as: add the attributes to every top-level element "
                       "and placeholder, report the attributes set on every placeholder), Django template rendering of the generated tags "
                       "(expand), Python's re on the placeholder pattern (as: split at placeholders), html.parser (harness side)"])


PIECES = ["<template ", 'djc-render-id="', "abc123", "aB_12Z", "a0001", "a1b2c3d", '"', ">", "</template>", " ", "x",
          ' data-djc-id-a1b2c3=""', "<", "></template>", "\n", "é"]


def placeholder_differential(chk, nrandom):
    """Hand matcher of the model (match_placeholder_at) vs Python re compiled from the CURRENT source patterns."""
    import django_components.perfutil.component as P
    strings = []
    for L in (1, 2, 3):
        for seq in itertools.product(PIECES[:12], repeat=L):
            strings.append("".join(seq))
    for L in (4, 5, 6, 7):
        for seq in itertools.product([0, 1, 2, 6, 7, 9, 11, 13], repeat=L):
            if seq[0] == 0 and 1 in seq:
                strings.append("".join(PIECES[i] for i in seq))
    for _ in range(nrandom):
        strings.append("".join(chk.rng.choice(PIECES[:15]) for _ in range(chk.rng.randint(3, 12))))
    strings.append('<template djc-render-id="a1b2c3" data-djc-id-Zz0Zz0="" data-djc-id-000000=""></template><p>')
    terms, kept = [], []
    for s in strings:
        if any(ord(c) > 127 for c in s):
            continue
        m = P.nested_comp_pattern.match(s)
        if m is None:
            exp = "None"
        else:
            g = P.render_id_pattern.search(m[0])
            if g is None:
                chk.fail("c14-placeholder-regex", "nested_comp_pattern matched but render_id_pattern found no id", {"text": s})
                continue
            exp = "(Some (%s, %s))" % (C.cstr(g.group("render_id")), cN(len(s) - m.end()))
        chk.count(("ph", s), m is not None, kind="matcher")
        terms.append("(%s, %s)" % (C.cstr(s), exp))
        kept.append(s)
    bad = C.coq_eval_cases("C14", "ph", IMPORTS, "ph_case", "check_ph", terms, shard=3000)
    for i in bad[:10]:
        chk.disagree("hand matcher of the placeholder patterns != Python re on the current source patterns", {"text": kept[i]})


def real_ids(chk, n):
    """Same programs with the library's own id generator (restored for this batch)."""
    import django_components.util.misc as misc
    import django_components.util.nanoid as nanoid
    saved = misc.generate
    misc.generate = nanoid.generate
    try:
        for i, (lib, page, kind) in enumerate(gen_random(chk.rng, n)):
            mode = "django" if i % 2 else "isolated"
            html_out, exc, logged = render_impl(lib, page, mode, "template")
            case = {"lib": lib, "page": page, "mode": mode, "api": "template", "ids": "real"}
            chk.count((repr(lib), repr(page), mode, "real"), html_out is not None and measure_nontrivial(parse_html(html_out)), kind="real-ids")
            if html_out is None:
                chk.fail("c14-render-raises", "render raised %s" % exc, dict(case, exception=exc))
                continue
            fails = direct_oracle(parse_html(html_out), logged, False)
            if fails:
                chk.fail("c14-root-ids", fails[0], dict(case, failures=fails[:5], html=html_out[:4000]))
    finally:
        misc.generate = saved


def _from_json(o):
    def fix(f):
        out = []
        for t in f:
            t = list(t)
            if t[0] == "E":
                out.append(("E", t[1], fix(t[2]), t[3]))
            elif t[0] == "T":
                out.append(T)
            elif t[0] == "C":
                out.append(("C", t[1], t[2], fix(t[3])))
            elif t[0] == "S":
                out.append(("S", fix(t[1])))
            else:
                out.append(("R", t[1], fix(t[2])))
        return out
    o = dict(o)
    o["lib"] = [(fix(f), m) for f, m in o["lib"]]
    o["page"] = fix(o["page"])
    return o


def replay(path):
    import djsetup
    djsetup.setup()
    djsetup.patch_ids()
    r = json.load(open(path))
    case = r.get("case", {})
    print(json.dumps({k: v for k, v in r.items() if k != "case"}, indent=1)[:2000])
    if "lib" not in case:
        return 0
    c = _from_json(case)
    names = ["c%d" % i for i in range(len(c["lib"]))]
    for i, (f, m) in enumerate(c["lib"]):
        print("component c%d%s: %s" % (i, " (marked)" if m else "", src_forest(f, names)))
    print("page:", src_forest(c["page"], names), " mode:", c.get("mode"), " api:", c.get("api"))
    html_out, exc, logged = render_impl(c["lib"], c["page"], c.get("mode", "django"), c.get("api", "template"))
    print("implementation:", html_out if html_out is not None else exc)
    print("Component.id values:", logged)
    if html_out is not None:
        toks = parse_html(html_out)
        fails = direct_oracle(toks, logged, False)
        print("direct oracle:", fails or "holds")
        print("observed (canonical):", canon_tokens(toks))
        bad = C.coq_eval_cases("C14", "replay", IMPORTS, "c14_case", "check_c14",
                               ["(%s, %s, %s, %s)" % (cN(fuel_for(c["lib"], c["page"])), coq_prog(c["lib"], c["page"]),
                                                     coq_obs(canon_tokens(toks)), cN(len(logged)))])
        print("model agrees:", not bad)
        return 1 if (fails or bad) else 0
    return 1
